//! C09 vote harnesses (overlay module `crate::consensus::vote::kani_c09_vote`, child of
//! `vote`, so votes are built by struct literal exactly as the deserialiser would).
//!
//! `c09_vote_<kind>`: epoch of 3 validators (arbitrary stakes), one vote of that kind with
//! arbitrary slot, block hash and signer index over all of u64, carrying a signature that
//! is genuine or not (structured input, see `kani_c09_sig`).  Real
//! `ValidatedVote::try_new` -> `Vote::{signer,check_sig}` -> `<Kind>Vote::{check_sig,payload}`
//! -> `VotePayload::bytes_to_sign` (wincode) -> `IndividualSignature::{verify,verify_bytes}`;
//! only blst's `Signature::verify` is the oracle.
#![allow(dead_code, unused_imports, unused_variables, clippy::all)]

use super::*;
use crate::consensus::{EpochInfo, ValidatedVote, VoteValidationError};
use crate::crypto::aggsig::kani_c09_sig::*;
use crate::verif_std as vs;
use crate::verif_std::{vcheck, vcover};
use crate::{Stake, ValidatorInfo};

/// Epoch of `N` validators with the given stakes and the harness key material.
pub(crate) fn mk_epoch(keys: &Keys, stakes: [u64; N]) -> EpochInfo {
    let mut v: Vec<ValidatorInfo> = Vec::with_capacity(N);
    let mut i = 0;
    while i < N {
        v.push(ValidatorInfo {
            id: ValidatorIndex::new(i as u64),
            stake: Stake::new(stakes[i]),
            pubkey: mk_ed_pubkey(i),
            voting_pubkey: keys.pks[i],
            all2all_address: crate::network::dontcare_sockaddr(),
            disseminator_address: crate::network::dontcare_sockaddr(),
            repair_requester_address: crate::network::dontcare_sockaddr(),
            repair_responder_address: crate::network::dontcare_sockaddr(),
        });
        i += 1;
    }
    EpochInfo::new(v)
}

/// The Ed25519 identity key plays no role in vote / certificate admission.
#[cfg(kani)]
fn mk_ed_pubkey(_i: usize) -> crate::crypto::signature::PublicKey {
    unsafe { std::mem::zeroed() }
}
#[cfg(not(kani))]
fn mk_ed_pubkey(i: usize) -> crate::crypto::signature::PublicKey {
    let _ = i;
    crate::crypto::signature::SecretKey::new(&mut rand::rng()).to_pk()
}

/// Stakes whose sum fits `u64` and is non-zero (what `EpochInfo::new` and `is_met` require).
pub(crate) fn any_stakes() -> [u64; N] {
    let s = [vs::any_u64(), vs::any_u64(), vs::any_u64()];
    let total = s[0] as u128 + s[1] as u128 + s[2] as u128;
    vs::assume(total > 0 && total <= u64::MAX as u128);
    s
}

fn mk_vote(kind: u32, slot: Slot, block_hash: BlockHash, sig: IndividualSignature, signer: ValidatorIndex) -> Vote {
    match kind {
        K_NOTAR => Vote::Notar(NotarVote { slot, block_hash, sig, signer }),
        K_NOTAR_FALLBACK => Vote::NotarFallback(NotarFallbackVote { slot, block_hash, sig, signer }),
        K_SKIP => Vote::Skip(SkipVote { slot, sig, signer }),
        K_SKIP_FALLBACK => Vote::SkipFallback(SkipFallbackVote { slot, sig, signer }),
        _ => Vote::Final(FinalVote { slot, sig, signer }),
    }
}

fn vote_body(kind: u32) {
    // ---- inputs (same draw sequence in both modes)
    let stakes = any_stakes();
    let slot = vs::any_u64();
    let hw = vs::any_words();
    let signer = vs::any_u64();
    let forge = vs::any_below(FORGE_KINDS);

    let hash = w2b(hw);
    let keys = keys();
    let epoch = mk_epoch(&keys, stakes);
    let sig = individual_sig(&keys, 1, signer, kind, slot, &hash, forge);
    let vote = mk_vote(kind, Slot::new(slot), mk_block_hash(hw), sig, ValidatorIndex::new(signer));

    // ---- the call under test
    let res = ValidatedVote::try_new(vote, &epoch);

    // ---- verdict, from what the real code returned
    let genuine = forge == FORGE_GENUINE;
    let known = signer < N as u64;
    vcover!(res.is_ok(), "a vote is admitted");
    vcover!(matches!(res, Err(VoteValidationError::UnknownSigner)), "a vote is rejected: unknown signer");
    vcover!(matches!(res, Err(VoteValidationError::InvalidSignature)), "a vote is rejected: invalid signature");
    vcover!(res.is_ok() && signer == (N - 1) as u64, "the last validator's vote is admitted");
    match &res {
        Ok(_) => {
            vcheck!(known, "admitted a vote naming a validator outside the epoch");
            vcheck!(genuine, "admitted a vote whose signature is not the named validator's signature over this vote");
        }
        Err(VoteValidationError::UnknownSigner) => {
            vcheck!(!known, "rejected a vote of an epoch member as unknown signer");
        }
        Err(VoteValidationError::InvalidSignature) => {
            vcheck!(known, "out-of-range signer reported as invalid signature");
            vcheck!(!genuine, "rejected an authentic vote");
        }
    }

    // ---- what the verifier was asked (ghost log of the oracle)
    #[cfg(kani)]
    {
        let expect = expected_msg(kind, slot, &hash);
        if !known {
            vcheck!(oracle::calls() == 0, "signature checked for a signer outside the epoch");
        }
        if res.is_ok() {
            vcheck!(oracle::calls() == 1, "admitted a vote without exactly one signature verification");
            let q = oracle::query(0);
            vcheck!(q.answer, "admitted a vote although verification failed");
            vcheck!(!q.aggregate && q.npk == 1 && q.pk[0] == pk_ident(signer as usize), "vote verified under a key that is not the named validator's");
            vcheck!(q.msg_len == expect.len && words6_eq(&q.msg, &expect.words()), "vote verified over bytes that are not (kind, slot, hash) of this vote");
            vcheck!(q.dst_ok, "vote verified under a different domain separation tag");
        }
        // domain separation between kinds: the five payloads differ pairwise for equal slot / hash
        let mut k = 0;
        while k < 5 {
            if k != kind {
                let other = expected_msg(k, slot, &hash);
                vcheck!(other.len != expect.len || !words6_eq(&other.words(), &expect.words()), "two vote kinds sign the same bytes");
            }
            k += 1;
        }
    }
    std::mem::forget(res);
    std::mem::forget(epoch);
}

macro_rules! vote_harness {
    ($name:ident, $kind:expr) => {
        #[cfg_attr(kani, kani::proof)]
        #[cfg_attr(kani, kani::stub(blst::min_sig::Signature::verify, crate::crypto::aggsig::kani_c09_sig::oracle::verify))]
        #[cfg_attr(kani, kani::unwind(6))]
        #[cfg_attr(verif_replay, test)]
        fn $name() {
            vote_body($kind)
        }
    };
}

vote_harness!(c09_vote_notar, K_NOTAR);
vote_harness!(c09_vote_nfallback, K_NOTAR_FALLBACK);
vote_harness!(c09_vote_skip, K_SKIP);
vote_harness!(c09_vote_sfallback, K_SKIP_FALLBACK);
vote_harness!(c09_vote_final, K_FINAL);
