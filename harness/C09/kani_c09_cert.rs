//! C09 certificate harnesses (overlay module `crate::consensus::cert::kani_c09_cert`, child
//! of `cert`, so certificates are built by struct literal exactly as the deserialiser would).
//!
//! Inputs of every harness: epoch of 3 validators, one certificate of the harness's type with
//! arbitrary slot, block hash and *declared* stake, and per aggregate signature an arbitrary
//! raw bitmask word truncated to `len` bits (the way `read_bitvec` builds it; `len` is the
//! shape discriminant of the harness) plus a signature that is genuine or not.  For the mixed
//! types (notar-fallback, skip) each half is present or absent arbitrarily.
//!
//! * `c09_cert_<type>_l..`  end to end: real `ValidatedCert::try_new`, arbitrary stakes.
//! * `c09_thr_<type>_l..`   real `Cert::check_threshold` alone, arbitrary stakes.
//! * `c09_sig_<type>_l..`   real `Cert::check_sig` alone (unit stakes).
//! * `c09_admit_seq`        `ValidatedCert::try_new` with the two checks as oracles: the
//!                          sequencing / error mapping that composes the two halves above.
//!
//! Real code below the entry points: per-type `check_threshold` / `check_sig`,
//! `AggregateSignature::{is_signer,verify,verify_bytes,signers}` on a real `BitVec`,
//! `EpochInfo::{is_quorum,is_strong_quorum}`, `Fraction::is_met`, `VotePayload::bytes_to_sign`;
//! only blst's `fast_aggregate_verify` is the oracle.
#![allow(dead_code, unused_imports, unused_variables, clippy::all, static_mut_refs)]

use super::*;
use crate::consensus::vote::kani_c09_vote::{any_stakes, mk_epoch};
use crate::consensus::{CertValidationError, ValidatedCert};
use crate::crypto::aggsig::kani_c09_sig::*;
use crate::verif_std as vs;
use crate::verif_std::{vcheck, vcover};

#[derive(Clone, Copy, PartialEq, Eq)]
enum Ty {
    Notar,
    NotarFallback,
    Skip,
    FastFinal,
    Final,
}

impl Ty {
    /// numerator of the stake threshold in fifths, from the protocol description
    const fn fifths(self) -> u128 {
        match self {
            Ty::FastFinal => 4,
            _ => 3,
        }
    }
    /// vote kind aggregated by the (first) signature
    const fn kind1(self) -> u32 {
        match self {
            Ty::Notar | Ty::NotarFallback | Ty::FastFinal => K_NOTAR,
            Ty::Skip => K_SKIP,
            Ty::Final => K_FINAL,
        }
    }
    /// vote kind aggregated by the second signature of a mixed certificate
    const fn kind2(self) -> u32 {
        match self {
            Ty::NotarFallback => K_NOTAR_FALLBACK,
            _ => K_SKIP_FALLBACK,
        }
    }
    const fn mixed(self) -> bool {
        matches!(self, Ty::NotarFallback | Ty::Skip)
    }
}

/// Is validator `i` marked in a raw bitmask word truncated to `len` bits?
fn marked(word: u64, len: usize, i: usize) -> bool {
    i < len && i < 64 && (word >> i) & 1 == 1
}

fn count_marked(word: u64, len: usize) -> usize {
    marked(word, len, 0) as usize + marked(word, len, 1) as usize + marked(word, len, 2) as usize
}

/// Exactly the public keys of the marked validators, each once (order is irrelevant to BLS).
#[cfg(kani)]
fn asked_exactly_marked_keys(q: &oracle::Query, word: u64, len: usize) -> bool {
    let mut ok = q.npk == count_marked(word, len);
    let mut i = 0;
    while i < N {
        let id = pk_ident(i);
        let seen = (q.npk > 0 && q.pk[0] == id) || (q.npk > 1 && q.pk[1] == id) || (q.npk > 2 && q.pk[2] == id);
        ok = ok && seen == marked(word, len, i);
        i += 1;
    }
    ok
}

/// The one oracle query about signature object `sig_id`, if there is exactly one.
#[cfg(kani)]
fn the_query(sig_id: u64) -> Option<oracle::Query> {
    let mut found = None;
    let mut n = 0;
    let mut k = 0;
    while k < oracle::MAXQ {
        if k < oracle::calls() {
            let q = oracle::query(k);
            if q.sig_id == sig_id {
                found = Some(q);
                n += 1;
            }
        }
        k += 1;
    }
    if n == 1 { found } else { None }
}

#[cfg(kani)]
fn check_half_question(sig_id: u64, kind: u32, slot: u64, hash: &[u8; 32], word: u64, len: usize) {
    let q = the_query(sig_id);
    vcheck!(q.is_some(), "accepted without exactly one verification of a present aggregate signature");
    let q = q.unwrap();
    let expect = expected_msg(kind, slot, hash);
    vcheck!(q.aggregate && q.answer, "accepted although verification of an aggregate signature failed");
    vcheck!(q.msg_len == expect.len && words6_eq(&q.msg, &expect.words()), "aggregate verified over bytes that are not (kind, slot, hash) of this certificate half");
    vcheck!(asked_exactly_marked_keys(&q, word, len), "aggregate verified under keys that are not exactly the marked validators' keys");
    vcheck!(q.dst_ok, "aggregate verified under a different domain separation tag");
}

/// What is called and which reachability witnesses apply; one implementation per harness
/// family so that no cover point of another family is compiled into a harness.
trait Mode {
    const SYMBOLIC_STAKES: bool;
    /// Calls the code under test and compares with the reference verdict; returns "accepted".
    fn judge(cert: Cert, epoch: &EpochInfo, thr_ok: bool, sig_ok: bool, admissible_shape: bool, sig_reachable: bool) -> bool;
    fn covers_single(thr_ok: bool, declared: u128, signed: u128, total: u128, zero_len: bool);
    fn covers_mixed(accepted: bool, thr_ok: bool, p1: bool, p2: bool, overlap: bool, declared: u128, total: u128, can: Can);
}

/// Which acceptance witnesses the shape of a mixed-certificate harness allows.
#[derive(Clone, Copy)]
struct Can {
    /// both halves may be present at once
    two_present: bool,
    /// ... and both have the admissible bitmask length
    both: bool,
    first_only: bool,
    second_only: bool,
}

/// `ValidatedCert::try_new`
struct EndToEnd;
/// `Cert::check_threshold`
struct Threshold;
/// `Cert::check_sig`
struct Signature;

impl Mode for EndToEnd {
    const SYMBOLIC_STAKES: bool = true;
    fn judge(cert: Cert, epoch: &EpochInfo, thr_ok: bool, sig_ok: bool, admissible_shape: bool, sig_reachable: bool) -> bool {
        let res = ValidatedCert::try_new(cert, epoch);
        vcover!(res.is_ok() || !admissible_shape, "a certificate is admitted");
        vcover!(matches!(res, Err(CertValidationError::InsufficientStake)), "a certificate is rejected: insufficient stake");
        vcover!(matches!(res, Err(CertValidationError::InvalidSignature)) || !sig_reachable, "a certificate is rejected: invalid signature");
        match &res {
            Ok(_) => {
                vcheck!(thr_ok, "admitted a certificate whose distinct signer stake is below the threshold");
                vcheck!(sig_ok, "admitted a certificate with an aggregate signature that is not genuine for its marked signers");
            }
            Err(CertValidationError::InsufficientStake) => {
                vcheck!(!thr_ok, "rejected a sufficiently backed certificate for insufficient stake");
            }
            Err(CertValidationError::InvalidSignature) => {
                vcheck!(thr_ok, "signature checked although the stake threshold is not met");
                vcheck!(!sig_ok, "rejected a valid certificate for its signature");
            }
        }
        #[cfg(kani)]
        if !thr_ok {
            vcheck!(oracle::calls() == 0, "signature verified before the stake threshold was established");
        }
        let ok = res.is_ok();
        std::mem::forget(res);
        ok
    }
    fn covers_single(thr_ok: bool, declared: u128, signed: u128, total: u128, zero_len: bool) {
        vcover!((thr_ok && declared < signed) || zero_len, "threshold met with a declared stake below the real one");
        vcover!(!thr_ok && declared >= total, "threshold not met although the declared stake is the whole epoch");
    }
    fn covers_mixed(accepted: bool, thr_ok: bool, p1: bool, p2: bool, overlap: bool, declared: u128, total: u128, can: Can) {
        vcover!((accepted && p1 && p2) || !can.both, "admitted with both halves present");
        vcover!((accepted && p1 && p2 && overlap) || !can.both, "admitted with a validator marked in both halves");
        vcover!((accepted && p1 && !p2) || !can.first_only, "admitted with only the first half");
        vcover!((accepted && !p1 && p2) || !can.second_only, "admitted with only the second half");
        vcover!((!thr_ok && overlap) || !can.two_present, "threshold not met with a validator marked in both halves");
        vcover!(!thr_ok && declared >= total, "threshold not met although the declared stake is the whole epoch");
    }
}

impl Mode for Threshold {
    const SYMBOLIC_STAKES: bool = true;
    fn judge(cert: Cert, epoch: &EpochInfo, thr_ok: bool, _sig_ok: bool, _admissible_shape: bool, _sig_reachable: bool) -> bool {
        let got = cert.check_threshold(epoch);
        vcover!(got, "threshold met");
        vcover!(!got, "threshold not met");
        vcheck!(got == thr_ok, "check_threshold differs from: distinct marked stake * 5 >= total stake * fifths(type)");
        #[cfg(kani)]
        vcheck!(oracle::calls() == 0, "check_threshold verified a signature");
        std::mem::forget(cert);
        false
    }
    fn covers_single(thr_ok: bool, declared: u128, signed: u128, total: u128, zero_len: bool) {
        vcover!((thr_ok && declared < signed) || zero_len, "threshold met with a declared stake below the real one");
        vcover!(!thr_ok && declared >= total, "threshold not met although the declared stake is the whole epoch");
    }
    fn covers_mixed(_accepted: bool, thr_ok: bool, p1: bool, p2: bool, overlap: bool, declared: u128, total: u128, _can: Can) {
        vcover!(thr_ok && p1 && p2 && overlap, "threshold met with a validator marked in both halves");
        vcover!(thr_ok && p1 && !p2, "threshold met with only the first half");
        vcover!(thr_ok && !p1 && p2, "threshold met with only the second half");
        vcover!(!thr_ok && !p1 && !p2, "threshold not met with no half at all");
        vcover!(!thr_ok && overlap, "threshold not met with a validator marked in both halves");
        vcover!(!thr_ok && declared >= total, "threshold not met although the declared stake is the whole epoch");
    }
}

impl Mode for Signature {
    const SYMBOLIC_STAKES: bool = false;
    fn judge(cert: Cert, epoch: &EpochInfo, _thr_ok: bool, sig_ok: bool, admissible_shape: bool, _sig_reachable: bool) -> bool {
        let got = cert.check_sig(epoch.validators());
        vcover!(got || !admissible_shape, "signature check passes");
        vcover!(!got, "signature check fails");
        vcheck!(got == sig_ok, "check_sig differs from: every present aggregate is genuine for exactly its marked signers");
        std::mem::forget(cert);
        got
    }
    fn covers_single(_thr_ok: bool, _declared: u128, _signed: u128, _total: u128, _zero_len: bool) {}
    fn covers_mixed(accepted: bool, _thr_ok: bool, p1: bool, p2: bool, overlap: bool, _declared: u128, _total: u128, can: Can) {
        vcover!((accepted && p1 && p2) || !can.both, "accepted with both halves present");
        vcover!((accepted && p1 && p2 && overlap) || !can.both, "accepted with a validator marked in both halves");
        vcover!((accepted && p1 && !p2) || !can.first_only, "accepted with only the first half");
        vcover!((accepted && !p1 && p2) || !can.second_only, "accepted with only the second half");
    }
}

/// Certificates with one aggregate signature: notar, fast-final, final.
fn single_body<M: Mode, const L: usize>(ty: Ty) {
    // ---- inputs (same draw sequence in both modes)
    let stakes = if M::SYMBOLIC_STAKES { any_stakes() } else { [1, 1, 1] };
    let slot = vs::any_u64();
    let hw = vs::any_words();
    let declared = vs::any_u64();
    let word = vs::any_u64();
    let forge = vs::any_below(FORGE_KINDS);

    let hash = w2b(hw);
    let keys = keys();
    let epoch = mk_epoch(&keys, stakes);
    let kind = ty.kind1();
    let agg_sig = aggregate_sig(&keys, 1, bitmask_from_word(word, L), kind, slot, &hash, forge);
    let (slot_t, stake) = (Slot::new(slot), Stake::new(declared));
    let cert = match ty {
        Ty::Notar => Cert::Notar(NotarCert { slot: slot_t, block_hash: mk_block_hash(hw), agg_sig, stake }),
        Ty::FastFinal => Cert::FastFinal(FastFinalCert { slot: slot_t, block_hash: mk_block_hash(hw), agg_sig, stake }),
        _ => Cert::Final(FinalCert { slot: slot_t, agg_sig, stake }),
    };

    // ---- reference verdict: distinct marked stake against the threshold, then the signature
    let total = stakes[0] as u128 + stakes[1] as u128 + stakes[2] as u128;
    let mut signed = 0u128;
    let mut i = 0;
    while i < N {
        if marked(word, L, i) {
            signed += stakes[i] as u128;
        }
        i += 1;
    }
    let thr_ok = signed * 5 >= total * ty.fifths();
    let sig_ok = L == N && forge == FORGE_GENUINE && count_marked(word, L) > 0;

    // ---- the call under test
    let accepted = M::judge(cert, &epoch, thr_ok, sig_ok, L == N, L > 0);
    M::covers_single(thr_ok, declared as u128, signed, total, L == 0);

    // ---- what the verifier was asked
    #[cfg(kani)]
    if accepted {
        vcheck!(oracle::calls() == 1, "accepted with other than one aggregate verification");
        check_half_question(1, kind, slot, &hash, word, L);
    }
    std::mem::forget(epoch);
}

/// Certificates with two optional aggregate signatures: notar-fallback, skip.
/// `P`: which halves are present - 0 = each arbitrarily (drawn), 1 = only the first,
/// 2 = only the second, 3 = both (shape discriminant of the costly harnesses).
fn mixed_body<M: Mode, const P: u8, const L1: usize, const L2: usize>(ty: Ty) {
    // ---- inputs (same draw sequence in both modes)
    let stakes = if M::SYMBOLIC_STAKES { any_stakes() } else { [1, 1, 1] };
    let slot = vs::any_u64();
    let hw = vs::any_words();
    let declared = vs::any_u64();
    let (p1, p2) = match P {
        0 => (vs::any_bool(), vs::any_bool()),
        1 => (true, false),
        2 => (false, true),
        _ => (true, true),
    };
    let w1 = vs::any_u64();
    let forge1 = vs::any_below(FORGE_KINDS);
    let w2 = vs::any_u64();
    let forge2 = vs::any_below(FORGE_KINDS);

    let hash = w2b(hw);
    let keys = keys();
    let epoch = mk_epoch(&keys, stakes);
    let (k1, k2) = (ty.kind1(), ty.kind2());
    let s1 = if p1 { Some(aggregate_sig(&keys, 1, bitmask_from_word(w1, L1), k1, slot, &hash, forge1)) } else { None };
    let s2 = if p2 { Some(aggregate_sig(&keys, 2, bitmask_from_word(w2, L2), k2, slot, &hash, forge2)) } else { None };
    let (slot_t, stake) = (Slot::new(slot), Stake::new(declared));
    let cert = match ty {
        Ty::NotarFallback => Cert::NotarFallback(NotarFallbackCert { slot: slot_t, block_hash: mk_block_hash(hw), agg_sig_notar: s1, agg_sig_notar_fallback: s2, stake }),
        _ => Cert::Skip(SkipCert { slot: slot_t, agg_sig_skip: s1, agg_sig_skip_fallback: s2, stake }),
    };

    // ---- reference verdict: every validator marked in either half counts once
    let total = stakes[0] as u128 + stakes[1] as u128 + stakes[2] as u128;
    let mut signed = 0u128;
    let mut overlap = false;
    let mut i = 0;
    while i < N {
        let m1 = p1 && marked(w1, L1, i);
        let m2 = p2 && marked(w2, L2, i);
        if m1 || m2 {
            signed += stakes[i] as u128;
        }
        overlap = overlap || (m1 && m2 && stakes[i] > 0);
        i += 1;
    }
    let thr_ok = signed * 5 >= total * ty.fifths();
    let ok1 = !p1 || (L1 == N && forge1 == FORGE_GENUINE && count_marked(w1, L1) > 0);
    let ok2 = !p2 || (L2 == N && forge2 == FORGE_GENUINE && count_marked(w2, L2) > 0);

    // ---- the call under test
    let (p1_possible, p2_possible) = (P != 2, P != 1);
    let can = Can {
        two_present: P == 0 || P == 3,
        both: (P == 0 || P == 3) && L1 == N && L2 == N,
        first_only: (P == 0 || P == 1) && L1 == N,
        second_only: (P == 0 || P == 2) && L2 == N,
    };
    let accepted = M::judge(cert, &epoch, thr_ok, ok1 && ok2, can.first_only || can.second_only || can.both, (p1_possible && L1 > 0) || (p2_possible && L2 > 0));
    M::covers_mixed(accepted, thr_ok, p1, p2, overlap, declared as u128, total, can);

    // ---- what the verifier was asked
    #[cfg(kani)]
    if accepted {
        vcheck!(oracle::calls() == (p1 as usize) + (p2 as usize), "accepted without verifying each present half exactly once");
        if p1 {
            check_half_question(1, k1, slot, &hash, w1, L1);
        }
        if p2 {
            check_half_question(2, k2, slot, &hash, w2, L2);
        }
    }
    std::mem::forget(epoch);
}

macro_rules! single {
    ($name:ident, $ty:expr, $mode:ty, $l:literal) => {
        #[cfg_attr(kani, kani::proof)]
        #[cfg_attr(kani, kani::stub(blst::min_sig::Signature::fast_aggregate_verify, crate::crypto::aggsig::kani_c09_sig::oracle::fast_aggregate_verify))]
        #[cfg_attr(kani, kani::unwind(4))]
        #[cfg_attr(verif_replay, test)]
        fn $name() {
            single_body::<$mode, $l>($ty)
        }
    };
}

macro_rules! mixed {
    ($name:ident, $ty:expr, $mode:ty, $p:literal, $l1:literal, $l2:literal) => {
        #[cfg_attr(kani, kani::proof)]
        #[cfg_attr(kani, kani::stub(blst::min_sig::Signature::fast_aggregate_verify, crate::crypto::aggsig::kani_c09_sig::oracle::fast_aggregate_verify))]
        #[cfg_attr(kani, kani::unwind(4))]
        #[cfg_attr(verif_replay, test)]
        fn $name() {
            mixed_body::<$mode, $p, $l1, $l2>($ty)
        }
    };
}

// names: c09_<family>_<type>_[p<presence>_]l<len>[_l<len2>]; presence a = arbitrary, 1 / 2 = only that half, b = both

// stake threshold alone (quick tier: length 3)
single!(c09_thr_notar_l3, Ty::Notar, Threshold, 3);
single!(c09_thr_fastfinal_l3, Ty::FastFinal, Threshold, 3);
single!(c09_thr_final_l3, Ty::Final, Threshold, 3);
mixed!(c09_thr_nfallback_pa_l3_l3, Ty::NotarFallback, Threshold, 0, 3, 3);
mixed!(c09_thr_skip_pa_l3_l3, Ty::Skip, Threshold, 0, 3, 3);
single!(c09_thr_notar_l2, Ty::Notar, Threshold, 2);
single!(c09_thr_fastfinal_l5, Ty::FastFinal, Threshold, 5);
single!(c09_thr_final_l64, Ty::Final, Threshold, 64);
mixed!(c09_thr_nfallback_pa_l2_l5, Ty::NotarFallback, Threshold, 0, 2, 5);
mixed!(c09_thr_skip_pa_l4_l1, Ty::Skip, Threshold, 0, 4, 1);

// aggregate signature check alone
single!(c09_sig_notar_l3, Ty::Notar, Signature, 3);
single!(c09_sig_fastfinal_l3, Ty::FastFinal, Signature, 3);
single!(c09_sig_final_l3, Ty::Final, Signature, 3);
mixed!(c09_sig_nfallback_p1_l3_l3, Ty::NotarFallback, Signature, 1, 3, 3);
mixed!(c09_sig_nfallback_p2_l3_l3, Ty::NotarFallback, Signature, 2, 3, 3);
mixed!(c09_sig_nfallback_pb_l3_l3, Ty::NotarFallback, Signature, 3, 3, 3);
mixed!(c09_sig_skip_p1_l3_l3, Ty::Skip, Signature, 1, 3, 3);
mixed!(c09_sig_skip_p2_l3_l3, Ty::Skip, Signature, 2, 3, 3);
mixed!(c09_sig_skip_pb_l3_l3, Ty::Skip, Signature, 3, 3, 3);
single!(c09_sig_notar_l2, Ty::Notar, Signature, 2);
single!(c09_sig_final_l4, Ty::Final, Signature, 4);
mixed!(c09_sig_skip_pa_l3_l4, Ty::Skip, Signature, 0, 3, 4);
mixed!(c09_sig_nfallback_p1_l2_l3, Ty::NotarFallback, Signature, 1, 2, 3);

// end to end
single!(c09_cert_notar_l3, Ty::Notar, EndToEnd, 3);
single!(c09_cert_fastfinal_l3, Ty::FastFinal, EndToEnd, 3);
single!(c09_cert_final_l3, Ty::Final, EndToEnd, 3);
mixed!(c09_cert_nfallback_p1_l3_l3, Ty::NotarFallback, EndToEnd, 1, 3, 3);
mixed!(c09_cert_nfallback_p2_l3_l3, Ty::NotarFallback, EndToEnd, 2, 3, 3);
mixed!(c09_cert_skip_p1_l3_l3, Ty::Skip, EndToEnd, 1, 3, 3);
mixed!(c09_cert_skip_p2_l3_l3, Ty::Skip, EndToEnd, 2, 3, 3);
mixed!(c09_cert_nfallback_pb_l3_l3, Ty::NotarFallback, EndToEnd, 3, 3, 3);
mixed!(c09_cert_skip_pb_l3_l3, Ty::Skip, EndToEnd, 3, 3, 3);
// bitmask lengths other than the validator count (the aggregate is never key-matched: cheap)
single!(c09_cert_notar_l0, Ty::Notar, EndToEnd, 0);
single!(c09_cert_notar_l2, Ty::Notar, EndToEnd, 2);
single!(c09_cert_notar_l4, Ty::Notar, EndToEnd, 4);
single!(c09_cert_fastfinal_l5, Ty::FastFinal, EndToEnd, 5);
single!(c09_cert_final_l2, Ty::Final, EndToEnd, 2);
single!(c09_cert_final_l4, Ty::Final, EndToEnd, 4);
mixed!(c09_cert_nfallback_p1_l2_l3, Ty::NotarFallback, EndToEnd, 1, 2, 3);
mixed!(c09_cert_skip_pb_l3_l5, Ty::Skip, EndToEnd, 3, 3, 5);

// ---------------------------------------------------------------------------------------
// composition: try_new = threshold first, then signature
// ---------------------------------------------------------------------------------------

/// Ghost state of `c09_admit_seq`: one static with a unique magic (see `kani_c09_sig::oracle`).
#[cfg(kani)]
mod seq {
    pub struct Ghost {
        pub magic: [u64; 2],
        pub thr: bool,
        pub sig: bool,
        pub thr_calls: usize,
        pub sig_calls: usize,
        pub sig_before_thr: bool,
    }
    pub static mut G: Ghost = Ghost { magic: [0xC09_5E90_AD31_7001, 0xD1B5_4A32_D192_ED03], thr: false, sig: false, thr_calls: 0, sig_calls: 0, sig_before_thr: false };
}

/// Stub for `Cert::check_threshold` in `c09_admit_seq` only.
#[cfg(kani)]
fn check_threshold_tape(_cert: &Cert, _epoch_info: &EpochInfo) -> bool {
    unsafe {
        seq::G.thr_calls += 1;
        seq::G.thr
    }
}

/// Stub for `Cert::check_sig` in `c09_admit_seq` only.
#[cfg(kani)]
fn check_sig_tape(_cert: &Cert, _validators: &[ValidatorInfo]) -> bool {
    unsafe {
        seq::G.sig_calls += 1;
        if seq::G.thr_calls == 0 {
            seq::G.sig_before_thr = true;
        }
        seq::G.sig
    }
}

/// `ValidatedCert::try_new` maps (threshold verdict, signature verdict) to its result exactly
/// as the per-part harnesses assume.  Under Kani the two `Cert` checks are tapes; natively a
/// final certificate is built whose real checks have those verdicts (all / no validator
/// marked, genuine / foreign-key aggregate).
#[cfg_attr(kani, kani::proof)]
#[cfg_attr(kani, kani::stub(crate::consensus::cert::Cert::check_threshold, check_threshold_tape))]
#[cfg_attr(kani, kani::stub(crate::consensus::cert::Cert::check_sig, check_sig_tape))]
#[cfg_attr(kani, kani::unwind(4))]
#[cfg_attr(verif_replay, test)]
fn c09_admit_seq() {
    let thr = vs::any_bool();
    let sig = vs::any_bool();
    let slot = vs::any_u64();
    let declared = vs::any_u64();
    #[cfg(kani)]
    unsafe {
        seq::G.thr = thr;
        seq::G.sig = sig;
    }
    let keys = keys();
    let epoch = mk_epoch(&keys, [1, 1, 1]);
    let word = if thr { 7 } else { 0 };
    let forge = if sig { FORGE_GENUINE } else { FORGE_KEY };
    let agg_sig = aggregate_sig(&keys, 1, bitmask_from_word(word, N), K_FINAL, slot, &[0; 32], forge);
    let cert = Cert::Final(FinalCert { slot: Slot::new(slot), agg_sig, stake: Stake::new(declared) });

    let res = ValidatedCert::try_new(cert, &epoch);

    vcover!(res.is_ok(), "admitted");
    vcover!(matches!(res, Err(CertValidationError::InsufficientStake)) && sig, "insufficient stake although the signature would verify");
    vcover!(matches!(res, Err(CertValidationError::InvalidSignature)), "invalid signature");
    match &res {
        Ok(v) => {
            vcheck!(thr && sig, "admitted although a check said no");
            vcheck!(v.slot() == Slot::new(slot), "admitted certificate is not the one that was checked");
        }
        Err(CertValidationError::InsufficientStake) => vcheck!(!thr, "insufficient stake reported although the threshold check passed"),
        Err(CertValidationError::InvalidSignature) => vcheck!(thr && !sig, "invalid signature reported although the signature check passed or the threshold failed"),
    }
    #[cfg(kani)]
    unsafe {
        vcheck!(seq::G.thr_calls == 1, "threshold not checked exactly once");
        vcheck!(!seq::G.sig_before_thr, "signature checked before the threshold");
        if res.is_ok() {
            vcheck!(seq::G.sig_calls == 1, "admitted without checking the signature exactly once");
        }
    }
    std::mem::forget(res);
    std::mem::forget(epoch);
}
