VOTE_MOD = "consensus::vote::kani_c09_vote"
CERT_MOD = "consensus::cert::kani_c09_cert"
STUB_VERIFY = "blst::min_sig::Signature::verify"
STUB_FAV = "blst::min_sig::Signature::fast_aggregate_verify"

Q, T = ["quick", "thorough"], ["thorough"]

# Per-loop bounds for bitvec's word-scanning loops, which never iterate on a one-word bitmask
# (names are the mangled loop ids CBMC prints; a name that no longer matches is only a warning and
# the harness-wide bound applies; a bound that is too small fails the unwinding assertion =>
# inconclusive, never a wrong pass).
_A = "CsfuJWFeju8uU_9alpenglow"
BITVEC_LOOPS = [
    "_RNvMNtNtNtCsGzXMFCV04o_6bitvec5slice14specialization4lsb0NtB6_8BitSlice12sp_first_one" + _A + ".0",
    "_RNvMNtNtNtCsGzXMFCV04o_6bitvec5slice14specialization4msb0INtB6_8BitSlicejNtNtB8_5order4Msb0E12sp_first_one" + _A + ".0",
    "_RINvYINtNtNtCsGzXMFCV04o_6bitvec5slice4iter10BitValIterjNtNtBa_5order4Lsb0ENtNtNtNtCs8xvirJzNMvV_4core4iter6traits8iterator8Iterator8try_folduNCINvNvB1b_8position5checkbNCNvXsd_B6_INtB6_8IterOnesjBS_EB1b_4next0E0INtNtNtB1j_3ops12control_flow11ControlFlowjEE" + _A + ".0",
    "_RINvXs2J_NtNtCs8xvirJzNMvV_4core5slice4iterINtB7_4IterjENtNtNtNtBb_4iter6traits8iterator8Iterator4foldjNCINvNtNtBY_8adapters3map8map_foldRjjjNvYjNtNtCsGzXMFCV04o_6bitvec5store8BitStore10load_valueNCIB1G_jjjNCNvMs2_NtB2n_5sliceNtB3q_8BitSlice10count_oness_0NCINvXsK_NtBW_5accumjNtB4f_3Sum3sumINtB1I_3MapIB4G_BF_B2f_EB3i_EE0E0E0E" + _A + ".0",
]
SIG_CBMC_ARGS = ["--unwindset", ",".join(["memcmp.0:34"] + [f"{l}:1" for l in BITVEC_LOOPS])]

VOTE_FUNCS = [
    "ValidatedVote::try_new", "Vote::signer", "Vote::check_sig", "{Notar,NotarFallback,Skip,SkipFallback,Final}Vote::{check_sig,payload}",
    "VotePayload::bytes_to_sign (wincode serialisation)", "IndividualSignature::{verify,verify_bytes}", "EpochInfo::{new,validators,validator}",
]


def _vote(kind, tiers):
    return {
        "name": f"c09_vote_{kind}", "path": VOTE_MOD, "tiers": tiers, "role": f"vote/{kind}",
        "functions": VOTE_FUNCS,
        "bounds": "epoch of 3 validators with arbitrary stakes (sum in 1..=u64::MAX); one vote of this kind; slot any u64, block hash any 32 bytes, signer index any u64 (incl. >= 3); signature genuine or not (oracle verdict)",
        "stubs": [STUB_VERIFY], "covers": 4,
        "timeout": {"quick": 420, "thorough": 1200}, "mem_gb": 10,
    }


CERT_FUNCS = [
    "ValidatedCert::try_new", "Cert::{check_threshold,check_sig}", "{Notar,NotarFallback,Skip,FastFinal,Final}Cert::{check_threshold,check_sig}",
    "AggregateSignature::{is_signer,signers,verify,verify_bytes} on a real bitvec::BitVec", "VotePayload::bytes_to_sign (wincode serialisation)",
    "EpochInfo::{new,validators,is_quorum,is_strong_quorum,total_stake}", "Fraction::is_met", "Stake: Sum",
]


THR_FUNCS = [
    "Cert::check_threshold", "{Notar,NotarFallback,Skip,FastFinal,Final}Cert::check_threshold", "AggregateSignature::is_signer on a real bitvec::BitVec",
    "EpochInfo::{new,validators,is_quorum,is_strong_quorum,total_stake}", "Fraction::is_met", "Stake: Sum",
]
SIG_FUNCS = [
    "Cert::check_sig", "{Notar,NotarFallback,Skip,FastFinal,Final}Cert::check_sig", "AggregateSignature::{verify,verify_bytes,signers} on a real bitvec::BitVec",
    "VotePayload::bytes_to_sign (wincode serialisation)",
]
FAMILY = {
    "cert": ("end-to-end ValidatedCert::try_new", CERT_FUNCS, "arbitrary stakes (sum in 1..=u64::MAX)", 5, 9),
    "thr": ("Cert::check_threshold", THR_FUNCS, "arbitrary stakes (sum in 1..=u64::MAX)", 4, 8),
    "sig": ("Cert::check_sig", SIG_FUNCS, "unit stakes", 2, 6),
}
COMMON_IN = "slot any u64, hash any 32 bytes, declared stake any u64"


def _single(fam, ty, l, tiers, quick_to=420):
    what, funcs, stakes, cov, _ = FAMILY[fam]
    return {
        "name": f"c09_{fam}_{ty}_l{l}", "kani_args": (KISSAT if fam != "thr" else []), "path": CERT_MOD, "tiers": tiers, "role": f"{fam}/{ty}",
        "functions": funcs,
        "bounds": f"{what}; epoch of 3 validators, {stakes}; one {ty} certificate; {COMMON_IN}; bitmask = arbitrary 64-bit raw word truncated to {l} bits; aggregate signature genuine or not (oracle verdict)",
        "stubs": [STUB_FAV], "covers": cov,
        "timeout": {"quick": quick_to, "thorough": 1500}, "mem_gb": 10,
        "cbmc_args": (SIG_CBMC_ARGS if fam != "thr" else ["--unwindset", "memcmp.0:34"]),
    }


PRES = {"a": "each half arbitrarily present/absent", "1": "only the first half present", "2": "only the second half present", "b": "both halves present"}


# The signature-check and end-to-end harnesses are solved by the bundled kissat (external process, non-incremental):
# (a) the larger shapes do not fit CaDiCaL's in-process memory under the 10 GB cap, (b) the un-sliced formula of the
# concrete-playback run (needed to extract a counterexample) only fits this way, so that a failure becomes a
# replayable VIOLATION instead of an INCONCLUSIVE.
KISSAT = ["--solver", "kissat"]


def _mixed(fam, ty, pres, l1, l2, tiers, quick_to=420):
    what, funcs, stakes, _, cov = FAMILY[fam]
    return {
        "name": f"c09_{fam}_{ty}_p{pres}_l{l1}_l{l2}", "kani_args": (KISSAT if fam != "thr" else []), "path": CERT_MOD, "tiers": tiers, "role": f"{fam}/{ty}",
        "functions": funcs,
        "bounds": f"{what}; epoch of 3 validators, {stakes}; one {ty} certificate; {COMMON_IN}; {PRES[pres]}; bitmasks = arbitrary raw words truncated to {l1} / {l2} bits (overlap allowed); each aggregate genuine or not (oracle verdict)",
        "stubs": [STUB_FAV], "covers": cov,
        # measured 1150 s (nfallback, first half absent) / 940 s (both halves) end to end; everything else < 700 s
        "timeout": {"quick": quick_to, "thorough": (1800 if (fam == "cert" and ty == "nfallback" and pres in ("2", "b")) else 1500)}, "mem_gb": 10,
        "cbmc_args": (SIG_CBMC_ARGS if fam != "thr" else ["--unwindset", "memcmp.0:34"]),
    }


SEQ = {
    "name": "c09_admit_seq", "path": CERT_MOD, "tiers": Q, "role": "composition",
    "functions": ["ValidatedCert::try_new", "ValidatedCert::slot"],
    "bounds": "ValidatedCert::try_new with Cert::check_threshold / Cert::check_sig replaced by arbitrary verdicts: result and error variant as a function of the two verdicts, threshold first",
    "stubs": ["consensus::cert::Cert::check_threshold", "consensus::cert::Cert::check_sig"], "covers": 3,
    "timeout": {"quick": 300, "thorough": 600}, "mem_gb": 8,
}

SPEC = {
    "property": "C09",
    "level_text": "Bounded symbolic verification of the real vote / certificate admission code: for an epoch of 3 validators with arbitrary stakes the solver shows, for every slot, block hash, declared stake, signer index over all of u64, every raw bitmask word, every presence pattern of the two halves of a mixed certificate and every yes/no outcome of the BLS verification, that ValidatedVote::try_new and ValidatedCert::try_new (and its two parts check_threshold / check_sig) accept exactly when the signer is in the epoch resp. the distinct marked stake meets the type's threshold, and blst was asked exactly once per signature about exactly the named validators' keys and exactly the bytes (kind tag, slot, hash) of this message and said yes; every other case is an error value, never a panic. Sampling cannot reach out-of-range signer indices combined with arbitrary forged/moved signatures and all stake splits at the threshold boundary; the solver quantifies over all of them inside the bounds. Not a proof: 3 validators, one message per harness, BLS itself is an oracle.",
    "level_note": "BLS verification (blst C/asm) is replaced by a logging yes/no oracle with the stated contract; trusts Kani's MIR translation, CBMC, CaDiCaL/kissat; pointer-validity checks off; bounds: n = 3 validators, bitmask of one 64-bit word truncated to 0..=5 (64) bits, one vote or certificate per harness; the quick tier checks votes end to end, certificates as threshold + signature check (two types) + composition, the thorough tier adds certificates end to end for every type.",
    "design_ref": "DESIGN.md §4 C09",
    "overlays": [
        {"src": "C09/kani_c09_sig.rs", "dest": "src/crypto/aggsig/kani_c09_sig.rs", "decl_in": "src/crypto/aggsig.rs", "decl": "pub(crate) mod kani_c09_sig;"},
        {"src": "C09/kani_c09_vote.rs", "dest": "src/consensus/vote/kani_c09_vote.rs", "decl_in": "src/consensus/vote.rs", "decl": "pub(crate) mod kani_c09_vote;"},
        {"src": "C09/kani_c09_cert.rs", "dest": "src/consensus/cert/kani_c09_cert.rs", "decl_in": "src/consensus/cert.rs", "decl": "pub(crate) mod kani_c09_cert;"},
    ],
    "functions": [
        "consensus::validated_vote::ValidatedVote::try_new", "consensus::vote::Vote::{signer,check_sig}", "consensus::vote::{NotarVote,NotarFallbackVote,SkipVote,SkipFallbackVote,FinalVote}::{check_sig,payload}",
        "consensus::vote::VotePayload as Signable::bytes_to_sign (wincode-derived serialiser, real)", "crypto::aggsig::IndividualSignature::{verify,verify_bytes}",
        "consensus::validated_cert::ValidatedCert::try_new", "consensus::cert::Cert::{check_threshold,check_sig}", "consensus::cert::{NotarCert,NotarFallbackCert,SkipCert,FastFinalCert,FinalCert}::{check_threshold,check_sig}",
        "crypto::aggsig::AggregateSignature::{is_signer,signers,verify,verify_bytes} on a real bitvec::BitVec", "consensus::epoch_info::EpochInfo::{new,validators,validator,total_stake,is_quorum,is_strong_quorum}", "types::fraction::Fraction::is_met", "types::stake::Stake (Sum)",
    ],
    "bounds": "epoch of exactly 3 validators, stakes any u64 with sum in 1..=u64::MAX; one vote or one certificate per harness; slot any u64, block hash any 32 bytes, signer index any u64, declared certificate stake any u64; bitmask = any 64-bit raw word truncated to a per-harness length in {0,1,2,3,4,5,64}; mixed certificates: each half present or absent (arbitrary in the threshold harnesses, enumerated shapes first-only / second-only / both in the signature and end-to-end harnesses); every BLS verification answer yes or no",
    "explanation": "Bounded symbolic verification (Kani -> CBMC -> CaDiCaL/kissat) of the real admission code compiled from /repo's working tree. Votes and certificates are built by struct literal from a child module, i.e. exactly the objects the deserialiser can hand to try_new: any field values, any bitmask word and length, declared stake unrelated to the signers. blst's Signature::verify / fast_aggregate_verify are replaced by an oracle that logs the question (signature object, message bytes, domain separation tag, public keys) and answers yes or no as drawn by the harness; everything alpenglow wrote stays real (signer range check, payload construction and wincode serialisation, bitmask length check, signer -> key selection on the real BitVec, stake summation, threshold comparison, error mapping). Checks: result == reference verdict computed by the harness from first principles (signer < 3 and genuine; distinct marked stake * 5 >= total * 3 (4 for fast-final) in u128 and every present aggregate genuine with length-3 bitmask and >= 1 signer), and on acceptance the logged question is exactly: once per signature, the named validator's key / exactly the marked validators' keys, message == u32 LE kind tag || u64 LE slot || 32-byte hash written independently by the harness (so a signature for another kind, slot, hash, signer or half never matches), the crate's DST. The five kind payloads are shown pairwise different. A failing check is re-executed natively with real blst keys: 'oracle says yes' becomes a genuinely produced (aggregate) signature, 'no' becomes a real signature that is wrong in a selected way (other kind, slot, hash, key, signer set).",
    "assumptions": [
        "BLS (blst) is modelled as an oracle: a verification succeeds or fails arbitrarily per signature object, except that an aggregate over zero public keys never verifies (blst returns BLST_AGGR_TYPE_MISMATCH); unforgeability / soundness of BLS itself is not examined, nor rogue-key attacks on aggregation (proof of possession of the epoch's keys is assumed by the code)",
        "the epoch has 3 validators whose ids equal their positions (enforced by EpochInfo::new) and whose total stake is non-zero and fits u64 (EpochInfo::new sums with overflow checks; Fraction::is_met debug-asserts total != 0)",
        "the documented wire layout of the signed payload (u32 LE variant tag in declaration order, u64 LE slot, 32-byte hash) is the reference; the real wincode serialiser is checked against it",
        "pointer-validity checks of CBMC are off (memory safety of std/bitvec internals is not part of the claim); Rust panics, arithmetic overflow, index checks and unwinding assertions stay on",
        "certificates end to end are decided per type and shape; in the quick tier the certificate claim is the conjunction of the threshold harnesses, two signature-check harnesses and the composition harness c09_admit_seq (try_new with both checks as arbitrary verdicts), relying on check_threshold / check_sig being pure functions of (&cert, &epoch)",
    ],
    "trusted_base": [
        "BLS verify oracle (kani_c09_sig::oracle) stubbed at blst::min_sig::Signature::{verify,fast_aggregate_verify}",
        "reference payload layout and reference threshold arithmetic in the harness (kani_c09_sig::expected_msg, kani_c09_cert)",
        "native replay generators of genuine / forged signatures (kani_c09_sig::{individual_sig,aggregate_sig})",
        "c09_admit_seq only: Cert::check_threshold / Cert::check_sig replaced by arbitrary verdicts",
    ],
    "outside": [
        "blst itself (pairing arithmetic, subgroup checks, hash-to-curve) and BLS security, rogue-key attacks",
        "deserialisation of votes / certificates from the wire, including signature point validation and read_bitvec (C19)",
        "epochs with other than 3 validators; bitmasks longer than one word; several messages in sequence; Pool-level duplicate / slashing logic (C04)",
        "certificate construction (try_new from votes, AggregateSignature::new)",
        "mixed certificates end to end with arbitrary presence in ONE harness (decided as separate shapes first-only / second-only / both)",
    ],
    "harnesses": [
        _vote("notar", Q), _vote("nfallback", Q), _vote("skip", Q), _vote("sfallback", Q), _vote("final", Q),
        # stake threshold on the real BitVec
        _single("thr", "notar", 3, Q), _single("thr", "fastfinal", 3, Q), _single("thr", "final", 3, Q),
        _mixed("thr", "nfallback", "a", 3, 3, Q), _mixed("thr", "skip", "a", 3, 3, Q),
        # a bitmask shorter than the validator set in the quick tier (a seeded change, C09-m2, was only caught by the thorough tier)
        _single("thr", "notar", 2, Q), _single("thr", "fastfinal", 5, T), _single("thr", "final", 64, T),
        _mixed("thr", "nfallback", "a", 2, 5, T), _mixed("thr", "skip", "a", 4, 1, T),
        SEQ,
        # aggregate signature check
        _single("sig", "notar", 3, Q), _single("sig", "fastfinal", 3, T), _single("sig", "final", 3, T),
        _mixed("sig", "nfallback", "1", 3, 3, T), _mixed("sig", "nfallback", "2", 3, 3, T), _mixed("sig", "nfallback", "b", 3, 3, T),
        _mixed("sig", "skip", "1", 3, 3, T), _mixed("sig", "skip", "2", 3, 3, Q), _mixed("sig", "skip", "b", 3, 3, T),
        _single("sig", "notar", 2, T), _single("sig", "final", 4, T),
        _mixed("sig", "skip", "a", 3, 4, T), _mixed("sig", "nfallback", "1", 2, 3, T),
        # end to end
        _single("cert", "notar", 3, T), _single("cert", "fastfinal", 3, T), _single("cert", "final", 3, T),
        _mixed("cert", "nfallback", "1", 3, 3, T), _mixed("cert", "nfallback", "2", 3, 3, T),
        _mixed("cert", "skip", "1", 3, 3, T), _mixed("cert", "skip", "2", 3, 3, T),
        _mixed("cert", "nfallback", "b", 3, 3, T), _mixed("cert", "skip", "b", 3, 3, T),
        _single("cert", "notar", 0, T), _single("cert", "notar", 2, T), _single("cert", "notar", 4, T), _single("cert", "fastfinal", 5, T),
        _single("cert", "final", 2, T), _single("cert", "final", 4, T),
        _mixed("cert", "nfallback", "1", 2, 3, T), _mixed("cert", "skip", "b", 3, 5, T),
    ],
}
