//! Overlay module `crate::crypto::aggsig::kani_c09_sig` (child of `aggsig`, so it sees the
//! private tuple fields of `PublicKey` / `IndividualSignature` / `AggregateSignature`).
//!
//! * the BLS **verify oracle** that replaces blst's `Signature::verify` and
//!   `Signature::fast_aggregate_verify` under Kani (everything alpenglow wrote on top of
//!   them - `verify_bytes`, bitmask length check, signer -> key selection, payload
//!   serialisation - stays real);
//! * the reference wire layout of the signed vote payload, written from the documentation
//!   (`u32 LE variant tag || u64 LE slot || 32 B block hash`), independent of wincode;
//! * constructors of keys / signatures that are opaque tokens under Kani and real blst
//!   objects in native replay, where "is this signature genuine?" is a *structured* input
//!   (`forge` selector: 0 = genuine, 1.. = a concrete way of not being genuine).
#![allow(dead_code, unused_imports, unused_variables, clippy::all, static_mut_refs)]

use super::*;
use crate::crypto::hash::Hash;
use crate::crypto::merkle::BlockHash;
use crate::verif_std as vs;

/// Number of validators in every C09 harness.
pub(crate) const N: usize = 3;

// ---------------------------------------------------------------------------------------
// reference wire layout of `VotePayload`
// ---------------------------------------------------------------------------------------

pub(crate) const K_NOTAR: u32 = 0;
pub(crate) const K_NOTAR_FALLBACK: u32 = 1;
pub(crate) const K_SKIP: u32 = 2;
pub(crate) const K_SKIP_FALLBACK: u32 = 3;
pub(crate) const K_FINAL: u32 = 4;

pub(crate) const fn kind_has_hash(kind: u32) -> bool {
    kind == K_NOTAR || kind == K_NOTAR_FALLBACK
}

/// The vote kind whose signatures an attacker would try to pass off as `kind`.
pub(crate) const fn sibling_kind(kind: u32) -> u32 {
    match kind {
        K_NOTAR => K_NOTAR_FALLBACK,
        K_NOTAR_FALLBACK => K_NOTAR,
        K_SKIP => K_SKIP_FALLBACK,
        K_SKIP_FALLBACK => K_SKIP,
        _ => K_SKIP,
    }
}

/// A signed message of at most 48 bytes, kept as bytes and compared as words.
#[derive(Clone, Copy)]
pub(crate) struct Msg {
    pub buf: [u8; 48],
    pub len: usize,
}

impl Msg {
    pub(crate) fn words(&self) -> [u64; 6] {
        words6(&self.buf, 48)
    }
    pub(crate) fn as_slice(&self) -> &[u8] {
        &self.buf[..self.len]
    }
}

/// Bytes a vote of `kind` for `(slot, hash)` signs, from the documented layout:
/// `u32 LE tag || u64 LE slot [|| 32-byte hash for notar / notar-fallback]`.
pub(crate) fn expected_msg(kind: u32, slot: u64, hash: &[u8; 32]) -> Msg {
    let mut buf = [0u8; 48];
    let t = kind.to_le_bytes();
    buf[0] = t[0];
    buf[1] = t[1];
    buf[2] = t[2];
    buf[3] = t[3];
    buf[4..12].copy_from_slice(&slot.to_le_bytes());
    let mut len = 12;
    if kind_has_hash(kind) {
        buf[12..44].copy_from_slice(hash);
        len = 44;
    }
    Msg { buf, len }
}

/// First 48 bytes of `d[..n]` (zero padded) as six little-endian words (loop-free).
pub(crate) fn words6(d: &[u8], n: usize) -> [u64; 6] {
    let at = |i: usize| -> u8 { if i < n { d[i] } else { 0 } };
    let w = |o: usize| -> u64 { u64::from_le_bytes([at(o), at(o + 1), at(o + 2), at(o + 3), at(o + 4), at(o + 5), at(o + 6), at(o + 7)]) };
    [w(0), w(8), w(16), w(24), w(32), w(40)]
}

/// Four little-endian words as 32 bytes (loop-free).
pub(crate) fn w2b(w: [u64; 4]) -> [u8; 32] {
    let mut o = [0u8; 32];
    o[0..8].copy_from_slice(&w[0].to_le_bytes());
    o[8..16].copy_from_slice(&w[1].to_le_bytes());
    o[16..24].copy_from_slice(&w[2].to_le_bytes());
    o[24..32].copy_from_slice(&w[3].to_le_bytes());
    o
}

pub(crate) fn words6_eq(a: &[u64; 6], b: &[u64; 6]) -> bool {
    a[0] == b[0] && a[1] == b[1] && a[2] == b[2] && a[3] == b[3] && a[4] == b[4] && a[5] == b[5]
}

pub(crate) fn mk_block_hash(w: [u64; 4]) -> BlockHash {
    Hash(w2b(w)).into()
}

// ---------------------------------------------------------------------------------------
// the verify oracle (Kani only)
// ---------------------------------------------------------------------------------------

/// Contract of the oracle: a BLS verification is a yes/no answer that depends on the
/// signature object only (`G.verdict[id]`, fixed by the harness before the call, so every
/// combination of answers is explored), except that an aggregate over an empty key set
/// never verifies (blst returns `BLST_AGGR_TYPE_MISMATCH`).  Every question is logged:
/// which signature, which message bytes, which domain separation tag, which public keys
/// in which order.  Harness conclusions are always conditional on the logged question.
#[cfg(kani)]
pub(crate) mod oracle {
    use super::*;

    pub const MAXQ: usize = 2;
    pub const MAXPK: usize = 3;

    #[derive(Clone, Copy)]
    pub struct Query {
        /// 0 = `Signature::verify`, 1 = `Signature::fast_aggregate_verify`
        pub aggregate: bool,
        pub sig_id: u64,
        pub msg_len: usize,
        pub msg: [u64; 6],
        pub dst_ok: bool,
        pub npk: usize,
        pub pk: [u64; MAXPK],
        pub answer: bool,
    }

    pub const EMPTY: Query = Query { aggregate: false, sig_id: 0, msg_len: 0, msg: [0; 6], dst_ok: false, npk: 0, pk: [0; MAXPK], answer: false };

    /// All ghost state lives in ONE static whose initialiser starts with a unique magic:
    /// Kani merges constant allocations by content and was observed to back std's
    /// `RawVec` zero-capacity constant with a zero-initialised `static mut usize` of this
    /// module; an allocation with unique bytes cannot be merged with anything.
    struct Ghost {
        magic: [u64; 2],
        verdict: [bool; 3],
        nq: usize,
        q: [Query; MAXQ],
    }
    static mut G: Ghost = Ghost { magic: [0xC09_51C0_0AC1_E001, 0x9E37_79B9_7F4A_7C15], verdict: [false; 3], nq: 0, q: [EMPTY; MAXQ] };

    /// The answer the oracle gives for the signature object with identity `sig_id` (1 or 2).
    pub fn set_verdict(sig_id: u64, v: bool) {
        unsafe { G.verdict[sig_id as usize] = v }
    }
    pub fn calls() -> usize {
        unsafe { G.nq }
    }
    pub fn query(k: usize) -> Query {
        unsafe { G.q[k] }
    }

    fn sig_id(sig: &BlstSignature) -> u64 {
        unsafe { *(sig as *const BlstSignature as *const u64) }
    }
    fn pk_id(pk: &BlstPublicKey) -> u64 {
        unsafe { *(pk as *const BlstPublicKey as *const u64) }
    }
    fn dst_is_ours(dst: &[u8]) -> bool {
        dst.len() == DST.len() && words6_eq(&words6(dst, dst.len()), &words6(DST, DST.len()))
    }

    fn log(q: Query) {
        unsafe {
            if G.nq >= MAXQ {
                vs::unsupported("verify oracle asked more than twice");
            }
            G.q[G.nq] = q;
            G.nq += 1;
        }
    }

    /// Stub for `blst::min_sig::Signature::verify`.
    pub fn verify(
        sig: &BlstSignature,
        _sig_groupcheck: bool,
        msg: &[u8],
        dst: &[u8],
        aug: &[u8],
        pk: &BlstPublicKey,
        _pk_validate: bool,
    ) -> BLST_ERROR {
        let id = sig_id(sig);
        if id == 0 || id > 2 {
            vs::unsupported("verify oracle: unknown signature object");
        }
        if msg.len() > 48 {
            vs::unsupported("verify oracle: message longer than 48 bytes");
        }
        let answer = unsafe { G.verdict[id as usize] };
        log(Query {
            aggregate: false,
            sig_id: id,
            msg_len: msg.len(),
            msg: words6(msg, msg.len()),
            dst_ok: dst_is_ours(dst) && aug.is_empty(),
            npk: 1,
            pk: [pk_id(pk), 0, 0],
            answer,
        });
        if answer { BLST_ERROR::BLST_SUCCESS } else { BLST_ERROR::BLST_VERIFY_FAIL }
    }

    /// Stub for `blst::min_sig::Signature::fast_aggregate_verify`.
    pub fn fast_aggregate_verify(sig: &BlstSignature, _sig_groupcheck: bool, msg: &[u8], dst: &[u8], pks: &[&BlstPublicKey]) -> BLST_ERROR {
        let id = sig_id(sig);
        if id == 0 || id > 2 {
            vs::unsupported("verify oracle: unknown signature object");
        }
        if msg.len() > 48 {
            vs::unsupported("verify oracle: message longer than 48 bytes");
        }
        let npk = pks.len();
        if npk > MAXPK {
            vs::unsupported("verify oracle: more than 3 public keys");
        }
        let mut pk = [0u64; MAXPK];
        let mut i = 0;
        while i < MAXPK {
            if i < npk {
                pk[i] = pk_id(pks[i]);
            }
            i += 1;
        }
        let answer = unsafe { G.verdict[id as usize] } && npk > 0;
        log(Query { aggregate: true, sig_id: id, msg_len: msg.len(), msg: words6(msg, msg.len()), dst_ok: dst_is_ours(dst), npk, pk, answer });
        if npk == 0 {
            return BLST_ERROR::BLST_AGGR_TYPE_MISMATCH;
        }
        if answer { BLST_ERROR::BLST_SUCCESS } else { BLST_ERROR::BLST_VERIFY_FAIL }
    }
}

/// Identity the oracle sees for validator `i`'s voting key.
pub(crate) const fn pk_ident(i: usize) -> u64 {
    0x1000 + i as u64
}

// ---------------------------------------------------------------------------------------
// keys and signatures: opaque tokens under Kani, real blst objects natively
// ---------------------------------------------------------------------------------------

/// Key material of the `N` validators (plus one outsider key natively).
pub(crate) struct Keys {
    pub pks: [PublicKey; N],
    #[cfg(not(kani))]
    sks: Vec<SecretKey>,
}

#[cfg(kani)]
pub(crate) fn keys() -> Keys {
    let pks = std::array::from_fn(|i| {
        let mut limbs = [0u64; 24];
        limbs[0] = pk_ident(i);
        // blst_p2_affine is a plain repr(C) struct of 24 limbs
        PublicKey(unsafe { std::mem::transmute::<[u64; 24], BlstPublicKey>(limbs) })
    });
    Keys { pks }
}

#[cfg(not(kani))]
pub(crate) fn keys() -> Keys {
    let sks: Vec<SecretKey> = (0..=N).map(|i| SecretKey(BlstSecretKey::key_gen(&[i as u8 + 1; 32], &[]).expect("32-byte ikm"))).collect();
    let pks = std::array::from_fn(|i| sks[i].to_pk());
    Keys { pks, sks }
}

#[cfg(kani)]
fn token_sig(sig_id: u64) -> BlstSignature {
    let mut limbs = [0u64; 12];
    limbs[0] = sig_id;
    // blst_p1_affine is a plain repr(C) struct of 12 limbs
    unsafe { std::mem::transmute::<[u64; 12], BlstSignature>(limbs) }
}

/// What a not-genuine signature really is (native replay only; under Kani only
/// `forge == 0` matters because it fixes the oracle's answer).
pub(crate) const FORGE_KINDS: u8 = 6;
pub(crate) const FORGE_GENUINE: u8 = 0;
/// signed the sibling vote kind's payload (moving signatures between kinds / halves)
pub(crate) const FORGE_CROSS_KIND: u8 = 1;
/// signed another slot
pub(crate) const FORGE_SLOT: u8 = 2;
/// signed another block hash (kinds without a hash: another slot)
pub(crate) const FORGE_HASH: u8 = 3;
/// signed by a key that is not the named validator's
pub(crate) const FORGE_KEY: u8 = 4;
/// aggregate over a different signer set than the bitmask; individual vote: signed by a key outside the epoch
pub(crate) const FORGE_SET: u8 = 5;

#[cfg(not(kani))]
fn forged_msg(kind: u32, slot: u64, hash: &[u8; 32], forge: u8) -> Msg {
    match forge {
        FORGE_CROSS_KIND => expected_msg(sibling_kind(kind), slot, hash),
        FORGE_SLOT => expected_msg(kind, slot ^ 1, hash),
        FORGE_HASH => {
            if kind_has_hash(kind) {
                let mut h = *hash;
                h[31] ^= 0x80;
                expected_msg(kind, slot, &h)
            } else {
                expected_msg(kind, slot ^ (1 << 63), hash)
            }
        }
        _ => expected_msg(kind, slot, hash),
    }
}

/// The signature carried by a vote of `kind` for `(slot, hash)` naming validator `signer`.
///
/// Kani: token `sig_id`; the oracle answers yes iff `forge == 0`.
/// Native: `forge == 0` -> the named validator's real signature over the reference bytes;
/// otherwise a real signature that differs in exactly the way `forge` says.
pub(crate) fn individual_sig(keys: &Keys, sig_id: u64, signer: u64, kind: u32, slot: u64, hash: &[u8; 32], forge: u8) -> IndividualSignature {
    #[cfg(kani)]
    {
        oracle::set_verdict(sig_id, forge == FORGE_GENUINE);
        IndividualSignature(token_sig(sig_id))
    }
    #[cfg(not(kani))]
    {
        let named = if signer < N as u64 { signer as usize } else { N };
        let key = match forge {
            FORGE_KEY => (named + 1) % N,
            FORGE_SET => N,
            _ => named,
        };
        keys.sks[key].sign_bytes(forged_msg(kind, slot, hash, forge).as_slice())
    }
}

/// An aggregate signature object with bitmask `bits` (any length).
///
/// Kani: token `sig_id`; the oracle answers yes iff `forge == 0` (and the key set is non-empty).
/// Native: `forge == 0` -> the real aggregate of the real signatures of exactly the validators
/// whose bit is set, over the reference bytes; otherwise a real aggregate differing as `forge` says.
pub(crate) fn aggregate_sig(keys: &Keys, sig_id: u64, bits: BitVec, kind: u32, slot: u64, hash: &[u8; 32], forge: u8) -> AggregateSignature {
    #[cfg(kani)]
    {
        oracle::set_verdict(sig_id, forge == FORGE_GENUINE);
        AggregateSignature { sig: token_sig(sig_id), bitmask: bits }
    }
    #[cfg(not(kani))]
    {
        let msg = forged_msg(kind, slot, hash, forge);
        // validators marked in the bitmask
        let mut set: Vec<usize> = (0..N).filter(|&i| i < bits.len() && bits[i]).collect();
        if forge == FORGE_SET {
            if let Some(j) = (0..N).find(|j| !set.contains(j)) {
                set.push(j);
            } else {
                set.remove(0);
            }
        }
        // signing keys: the marked validators', the first one replaced by the outsider for FORGE_KEY
        let mut signing: Vec<usize> = set.clone();
        if forge == FORGE_KEY || signing.is_empty() {
            if signing.is_empty() {
                signing.push(N);
            } else {
                signing[0] = N;
            }
        }
        let sigs: Vec<IndividualSignature> = signing.iter().map(|&k| keys.sks[k].sign_bytes(msg.as_slice())).collect();
        let idx: Vec<ValidatorIndex> = (0..sigs.len()).map(|i| ValidatorIndex::new(i as u64)).collect();
        let agg = AggregateSignature::new(sigs.iter(), idx, sigs.len());
        AggregateSignature { sig: agg.sig, bitmask: bits }
    }
}

/// A bitmask as the deserialiser builds it: raw words, truncated to `len` bits
/// (dead bits of the last word are arbitrary).
pub(crate) fn bitmask_from_word(word: u64, len: usize) -> BitVec {
    let mut v: Vec<usize> = Vec::with_capacity(1);
    v.push(word as usize);
    let mut b = BitVec::from_vec(v);
    b.truncate(len);
    b
}
