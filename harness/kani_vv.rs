//! Overlay module `crate::consensus::validated_vote::kani_vv`.
#![allow(dead_code, unused_imports, clippy::all)]
use super::*;

pub(crate) fn trusted(vote: Vote, epoch: &EpochInfo) -> ValidatedVote {
    #[cfg(kani)]
    {
        let _ = epoch;
        ValidatedVote { vote }
    }
    #[cfg(not(kani))]
    {
        ValidatedVote::try_new(vote, epoch).expect("fixture votes are genuinely signed")
    }
}
