//! Shared SlotState fixtures (overlay module `crate::consensus::pool::slot_state::kani_slotfix`).
#![allow(dead_code, unused_imports, clippy::all)]

use super::*;
use crate::ValidatorIndex;
use crate::consensus::kani_fix::{block_hash, Fix};
use crate::verif_std as vs;

pub(crate) const SLOT: u64 = 5;

/// Ghost view of one validator's accepted votes.
#[derive(Clone, Copy)]
pub(crate) struct Held {
    pub notar: u8, // 0 none, 1 A, 2 B
    pub nf_a: bool,
    pub nf_b: bool,
    pub skip: bool,
    pub sf: bool,
    pub fin: bool,
}
pub(crate) const NOTHING: Held = Held { notar: 0, nf_a: false, nf_b: false, skip: false, sf: false, fin: false };

impl Held {
    pub(crate) fn nf(&self, hash: u8) -> bool {
        if hash == 1 { self.nf_a } else { self.nf_b }
    }
    /// kinds: 0 notar, 1 notar-fallback, 2 skip, 3 skip-fallback, 4 final
    pub(crate) fn conflicts(&self, kind: u8, hash: u8) -> bool {
        match kind {
            0 => self.skip || (self.notar != 0 && self.notar != hash),
            1 => self.fin,
            2 => self.fin || self.notar != 0,
            3 => self.fin,
            _ => self.skip || self.sf || self.nf_a || self.nf_b,
        }
    }
    /// exact repeat, or the equivalent vote of the sibling kind
    pub(crate) fn repeats(&self, kind: u8, hash: u8) -> bool {
        match kind {
            0 => self.notar == hash || self.nf(hash),
            1 => self.nf(hash) || self.notar == hash,
            2 => self.skip || self.sf,
            3 => self.sf || self.skip,
            _ => self.fin,
        }
    }
    /// the held set after admitting the vote
    pub(crate) fn with(&self, kind: u8, hash: u8) -> Held {
        let mut h = *self;
        match kind {
            0 => h.notar = hash,
            1 => {
                if hash == 1 {
                    h.nf_a = true
                } else {
                    h.nf_b = true
                }
            }
            2 => h.skip = true,
            3 => h.sf = true,
            _ => h.fin = true,
        }
        h
    }
}

/// What the pool can have accepted from one validator: pairwise non-conflicting, no equivalents.
pub(crate) fn any_held() -> Held {
    let h = Held { notar: vs::any_below(3), nf_a: vs::any_bool(), nf_b: vs::any_bool(), skip: vs::any_bool(), sf: vs::any_bool(), fin: vs::any_bool() };
    vs::assume(!(h.skip && h.notar != 0));
    vs::assume(!(h.fin && (h.skip || h.sf || h.nf_a || h.nf_b)));
    vs::assume(!(h.skip && h.sf));
    vs::assume(!(h.notar == 1 && h.nf_a) && !(h.notar == 2 && h.nf_b));
    h
}

/// Held votes restricted to the classes that can matter for a new vote of `kind` (the others
/// are *concretely* absent, so CBMC does not execute their code): notar / notar-fallback votes
/// for kinds 0 and 1, skip / skip-fallback for 2 and 3, final for 4.
pub(crate) fn any_held_for(kind: u8) -> Held {
    let mut h = NOTHING;
    match kind {
        0 | 1 => {
            h.notar = vs::any_below(3);
            h.nf_a = vs::any_bool();
            h.nf_b = vs::any_bool();
            vs::assume(!(h.notar == 1 && h.nf_a) && !(h.notar == 2 && h.nf_b));
        }
        2 | 3 => {
            h.skip = vs::any_bool();
            h.sf = vs::any_bool();
            vs::assume(!(h.skip && h.sf));
        }
        _ => {
            h.fin = vs::any_bool();
        }
    }
    h
}

pub(crate) fn mk_vote(fx: &Fix, v: usize, kind: u8, hash: u8) -> Vote {
    let slot = Slot::new(SLOT);
    let id = ValidatorIndex::new(v as u64);
    match kind {
        0 => Vote::new_notar(slot, block_hash(hash), &fx.sks[v], id),
        1 => Vote::new_notar_fallback(slot, block_hash(hash), &fx.sks[v], id),
        2 => Vote::new_skip(slot, &fx.sks[v], id),
        3 => Vote::new_skip_fallback(slot, &fx.sks[v], id),
        _ => Vote::new_final(slot, &fx.sks[v], id),
    }
}

/// Puts the held votes of validator `v` into the slot state the way `add_vote` stores them
/// (votes only; running totals are installed by `install_totals`).
pub(crate) fn install(st: &mut SlotState, fx: &Fix, v: usize, h: &Held) {
    let slot = Slot::new(SLOT);
    let id = ValidatorIndex::new(v as u64);
    if h.notar != 0 {
        st.votes.notar[v] = Some(NotarVote::new(slot, block_hash(h.notar), &fx.sks[v], id));
    }
    if h.nf_a {
        st.votes.notar_fallback[v].insert(block_hash(1), NotarFallbackVote::new(slot, block_hash(1), &fx.sks[v], id));
    }
    if h.nf_b {
        st.votes.notar_fallback[v].insert(block_hash(2), NotarFallbackVote::new(slot, block_hash(2), &fx.sks[v], id));
    }
    if h.skip {
        st.votes.skip[v] = Some(SkipVote::new(slot, &fx.sks[v], id));
    }
    if h.sf {
        st.votes.skip_fallback[v] = Some(SkipFallbackVote::new(slot, &fx.sks[v], id));
    }
    if h.fin {
        st.votes.finalize[v] = Some(FinalVote::new(slot, &fx.sks[v], id));
    }
}

/// Stake totals as the property defines them, recomputed from the ghost held sets.
#[derive(Clone, Copy)]
pub(crate) struct Totals {
    pub notar: [u64; 3], // index by hash tag (1, 2); [0] unused
    pub nf: [u64; 3],
    pub skip: u64,
    pub sf: u64,
    pub fin: u64,
    pub total: u64,
}
impl Totals {
    pub(crate) fn of<const N: usize>(held: &[Held; N], stakes: &[u64; N]) -> Totals {
        let mut t = Totals { notar: [0; 3], nf: [0; 3], skip: 0, sf: 0, fin: 0, total: 0 };
        let mut i = 0;
        while i < N {
            let s = stakes[i];
            t.total += s;
            if held[i].notar != 0 {
                t.notar[held[i].notar as usize] += s;
            }
            if held[i].nf_a {
                t.nf[1] += s;
            }
            if held[i].nf_b {
                t.nf[2] += s;
            }
            if held[i].skip {
                t.skip += s;
            }
            if held[i].sf {
                t.sf += s;
            }
            if held[i].fin {
                t.fin += s;
            }
            i += 1;
        }
        t
    }
    pub(crate) fn notar_or_skip(&self) -> u64 {
        self.notar[1] + self.notar[2] + self.skip
    }
    pub(crate) fn top_notar(&self) -> u64 {
        if self.notar[1] > self.notar[2] { self.notar[1] } else { self.notar[2] }
    }
    /// stake * 5 >= total * k  (k/5 of the total stake), written independently of `Fraction`
    pub(crate) fn reaches(&self, stake: u64, k: u128) -> bool {
        (stake as u128) * 5 >= (self.total as u128) * k
    }
}

/// Writes the running totals the real code keeps, equal to the sums over the held votes.
pub(crate) fn install_totals(st: &mut SlotState, t: &Totals) {
    let mut h = 1u8;
    while h <= 2 {
        if t.notar[h as usize] > 0 {
            *st.voted_stakes.notar.get_or_insert_with(&block_hash(h), Stake::default) = Stake::new(t.notar[h as usize]);
        }
        if t.nf[h as usize] > 0 {
            *st.voted_stakes.notar_fallback.get_or_insert_with(&block_hash(h), Stake::default) = Stake::new(t.nf[h as usize]);
        }
        h += 1;
    }
    st.voted_stakes.skip = Stake::new(t.skip);
    st.voted_stakes.skip_fallback = Stake::new(t.sf);
    st.voted_stakes.finalize = Stake::new(t.fin);
    st.voted_stakes.notar_or_skip = Stake::new(t.notar_or_skip());
    st.voted_stakes.top_notar = Stake::new(t.top_notar());
}


/// As `install_totals`, but a per-block counter exists exactly when some validator holds a vote
/// of that class for the block (what `get_or_insert_with` + `+=` leaves behind, also for a
/// zero-stake voter).  With concrete holder patterns the occupancy of the counter maps is then
/// concrete, whatever the symbolic stakes are.
pub(crate) fn install_totals_held<const N: usize>(st: &mut SlotState, t: &Totals, held: &[Held; N]) {
    let mut h = 1u8;
    while h <= 2 {
        let mut any_notar = false;
        let mut any_nf = false;
        let mut i = 0;
        while i < N {
            any_notar = any_notar || held[i].notar == h;
            any_nf = any_nf || held[i].nf(h);
            i += 1;
        }
        if any_notar {
            *st.voted_stakes.notar.get_or_insert_with(&block_hash(h), Stake::default) = Stake::new(t.notar[h as usize]);
        }
        if any_nf {
            *st.voted_stakes.notar_fallback.get_or_insert_with(&block_hash(h), Stake::default) = Stake::new(t.nf[h as usize]);
        }
        h += 1;
    }
    st.voted_stakes.skip = Stake::new(t.skip);
    st.voted_stakes.skip_fallback = Stake::new(t.sf);
    st.voted_stakes.finalize = Stake::new(t.fin);
    st.voted_stakes.notar_or_skip = Stake::new(t.notar_or_skip());
    st.voted_stakes.top_notar = Stake::new(t.top_notar());
}

/// Signer masks (bit i = validator i) per vote class, from the ghost.
pub(crate) fn mask<const N: usize>(held: &[Held; N], f: impl Fn(&Held) -> bool) -> u64 {
    let mut m = 0u64;
    let mut i = 0;
    while i < N {
        if f(&held[i]) {
            m |= 1 << i;
        }
        i += 1;
    }
    m
}
pub(crate) fn stake_of<const N: usize>(m: u64, stakes: &[u64; N]) -> u64 {
    let mut s = 0u64;
    let mut i = 0;
    while i < N {
        if m & (1 << i) != 0 {
            s += stakes[i];
        }
        i += 1;
    }
    s
}
