//! Shared consensus fixtures (overlay module `crate::consensus::kani_fix`).
//!
//! Under Kani: keys and signatures are opaque zeroed objects, `SecretKey::sign` is stubbed
//! (`sign_stub`).  Natively (replay): real BLS / Ed25519 keys, real signatures.
#![allow(dead_code, unused_imports, clippy::all)]

use std::sync::Arc;

use crate::consensus::{EpochInfo, ValidatorEpochInfo};
use crate::crypto::merkle::BlockHash;
use crate::crypto::{IndividualSignature, Signable, aggsig, signature};
use crate::{Slot, Stake, ValidatorIndex, ValidatorInfo};

pub(crate) struct Fix {
    pub sks: Vec<aggsig::SecretKey>,
    pub epoch: Arc<ValidatorEpochInfo>,
}

#[cfg(kani)]
fn voting_key(_i: usize) -> aggsig::SecretKey {
    // SAFETY: plain limb structs; never used by real crypto under Kani (sign is stubbed)
    unsafe { std::mem::zeroed() }
}
#[cfg(not(kani))]
fn voting_key(i: usize) -> aggsig::SecretKey {
    aggsig::SecretKey::try_from_bytes(&{
        let mut b = [0u8; 32];
        b[31] = i as u8 + 1;
        b
    })
    .expect("small scalar is a valid BLS secret key")
}
#[cfg(kani)]
fn node_pubkey(_i: usize) -> signature::PublicKey {
    // SAFETY: opaque under Kani, never verified against
    unsafe { std::mem::zeroed() }
}
#[cfg(not(kani))]
fn node_pubkey(_i: usize) -> signature::PublicKey {
    signature::SecretKey::new(&mut rand::rng()).to_pk()
}
#[cfg(kani)]
fn voting_pubkey(_sk: &aggsig::SecretKey) -> aggsig::PublicKey {
    // SAFETY: as above
    unsafe { std::mem::zeroed() }
}
#[cfg(not(kani))]
fn voting_pubkey(sk: &aggsig::SecretKey) -> aggsig::PublicKey {
    sk.to_pk()
}

/// Epoch of `stakes.len()` validators with the given stakes; the node itself is `own`.
pub(crate) fn fixture(stakes: &[u64], own: usize) -> Fix {
    let addr = std::net::SocketAddr::new(std::net::IpAddr::V4(std::net::Ipv4Addr::LOCALHOST), 0);
    let mut sks = Vec::with_capacity(stakes.len());
    let mut validators = Vec::with_capacity(stakes.len());
    let mut i = 0;
    while i < stakes.len() {
        let sk = voting_key(i);
        validators.push(ValidatorInfo {
            id: ValidatorIndex::new(i as u64),
            stake: Stake::new(stakes[i]),
            pubkey: node_pubkey(i),
            voting_pubkey: voting_pubkey(&sk),
            all2all_address: addr,
            disseminator_address: addr,
            repair_requester_address: addr,
            repair_responder_address: addr,
        });
        sks.push(sk);
        i += 1;
    }
    let epoch = Arc::new(ValidatorEpochInfo::new(ValidatorIndex::new(own as u64), EpochInfo::new(validators)));
    Fix { sks, epoch }
}

/// Stub for `crypto::aggsig::SecretKey::sign` (Kani only): an opaque token.
#[cfg(kani)]
pub(crate) fn sign_stub<T: Signable>(_sk: &aggsig::SecretKey, _msg: &T) -> IndividualSignature {
    // SAFETY: opaque token, never inspected (aggregation / verification are stubbed too)
    unsafe { std::mem::zeroed() }
}

/// Block hash `tag` (1 = A, 2 = B, …): distinct constants.
pub(crate) fn block_hash(tag: u8) -> BlockHash {
    let mut b = [0u8; 32];
    b[0] = tag;
    // SAFETY: BlockHash is a transparent wrapper chain around [u8; 32]
    unsafe { std::mem::transmute::<[u8; 32], BlockHash>(b) }
}
