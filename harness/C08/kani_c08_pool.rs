//! C08 at pool level: the acceptance window of the real `PoolImpl::add_cert` (overlay module
//! `crate::consensus::pool::kani_c08_pool`, child of `pool`).
//!
//! Pre-state (one harness per combination; fixed per harness because a symbolic combination makes
//! the occupancy of the slot-state map symbolic and the symbolic execution does not finish in
//! 15 min): slot 1 holds a subset of {notarization, finalization} certificates, slot 2 possibly a
//! fast-finalization certificate - stored in the pool's slot states and told to the finality
//! tracker through its real interface, then `PoolImpl::prune`.  So the highest
//! finalized slot can be 2 while slot 1 is still undecided (finalization ahead of the decided
//! prefix).  Then one certificate (kind fixed per harness) for a symbolic slot (all of u64) enters
//! through `PoolImpl::add_cert`.  Reference, from the property statement: it is refused as out
//! of bounds exactly when its slot lies below the decided prefix (watermark W) or two epochs
//! beyond the highest finalized slot - in particular a certificate for a not-yet-decided slot
//! BELOW the highest finalized slot is still accepted; otherwise it is a duplicate exactly when
//! a certificate of its kind is held for that slot, else it is handed on (`add_valid_cert`).
//! Under Kani `PoolImpl::add_valid_cert` (storing, events, tracker update: the tracker is
//! c08_certs_*'s subject) is cut by a recording stub.
#![allow(dead_code, unused_imports, clippy::all)]

use super::kani_poolfix::*;
use super::*;
use crate::consensus::cert::kani_certstub::opaque;
use crate::consensus::kani_fix::{block_hash, fixture};
use crate::types::SLOTS_PER_EPOCH;
use crate::verif_std as vs;
use crate::verif_std::{vcheck, vcover};

#[cfg(kani)]
pub(crate) mod cut {
    use super::*;
    struct Ghost {
        magic: [u64; 2],
        calls: usize,
        slot: u64,
    }
    static mut G: Ghost = Ghost { magic: [0xC08_9001_0000_0001, 0x9E37_79B9_7F4A_7C15], calls: 0, slot: 0 };
    pub(crate) fn calls() -> usize {
        unsafe { G.calls }
    }
    pub(crate) fn slot() -> u64 {
        unsafe { G.slot }
    }
    pub(crate) fn add_valid_cert(_this: &mut PoolImpl, cert: Cert) {
        unsafe {
            G.calls += 1;
            G.slot = cert.slot().inner();
        }
        std::mem::forget(cert);
    }
    pub(crate) fn log_off() -> log::LevelFilter {
        log::LevelFilter::Off
    }
}

fn window_body<const N1: bool, const F1: bool, const FF2: bool, const KIND: u8>(cov: fn(u64, bool)) {
    // validator 0 holds 90 % (natively its single signature makes every certificate valid); the node is validator 1
    let fx = fixture(&[9, 1], 1);
    let (mut pool, _ch) = mk_pool(&fx);
    let vals = fx.epoch.epoch_info().validators();
    let h = block_hash(1);
    let (s1, s2) = (Slot::new(1), Slot::new(2));
    let (n1, f1, ff2) = (N1, F1, FF2);
    // both slots have been heard of (their states exist); which certificates they hold differs per harness
    let _ = pool.slot_state(s1);
    let _ = pool.slot_state(s2);
    // finalization of slot 2 first: ahead of the decided prefix whenever slot 1 is not decided
    if FF2 {
        pool.slot_state(s2).add_cert(opaque(3, s2, h.clone(), vals, &fx.sks[0]));
        let _ = pool.finality_tracker.mark_fast_finalized((s2, h.clone()));
    }
    if F1 {
        pool.slot_state(s1).add_cert(opaque(4, s1, h.clone(), vals, &fx.sks[0]));
        let _ = pool.finality_tracker.mark_finalized(s1);
    }
    if N1 {
        pool.slot_state(s1).add_cert(opaque(0, s1, h.clone(), vals, &fx.sks[0]));
        let _ = pool.finality_tracker.mark_notarized((s1, h.clone()));
    }
    pool.prune();
    let dec1 = n1 && f1;
    let w: u64 = if dec1 { if ff2 { 2 } else { 1 } } else { 0 };
    let fin: u64 = if ff2 { 2 } else if dec1 { 1 } else { 0 };
    vcheck!(pool.first_unpruned_slot().inner() == w, "decided prefix (first unpruned slot) differs from what the certificates justify");
    vcheck!(pool.finalized_slot().inner() == fin, "highest finalized slot differs from what the certificates justify");
    vcheck!(pool.slot_states.contains_key(&s1) == (w <= 1) && pool.slot_states.contains_key(&s2), "state of an undecided slot was dropped, or state below the decided prefix retained");

    let slot = vs::any_u64();
    // the certificate's kind is fixed per harness: a `Cert` of symbolic variant (payloads with pointers at
    // different offsets) exhausts memory in CBMC's propositional reduction (measured)
    let kind = KIND;
    let cert = opaque(kind, Slot::new(slot), h.clone(), vals, &fx.sks[0]);
    let r = p_add_cert(&mut pool, validated_cert(&fx, cert));

    let out = slot < w || slot >= fin + 2 * SLOTS_PER_EPOCH;
    let held = slot == 1 && ((kind == 0 && n1) || (kind == 4 && f1));
    vcheck!((r == Err(AddCertError::SlotOutOfBounds)) == out, "acceptance window of add_cert is not [first undecided slot, highest finalized slot + 2 epochs)");
    if !out {
        vcheck!((r == Err(AddCertError::Duplicate)) == held, "duplicate verdict differs from the certificates held for that slot");
        vcheck!(held || r == Ok(()), "a new certificate inside the window was refused");
    }
    #[cfg(kani)]
    {
        vcheck!(cut::calls() == r.is_ok() as usize, "certificate handed on although refused (or not although accepted)");
        vcheck!(!r.is_ok() || cut::slot() == slot, "certificate handed on for another slot");
    }
    vcover!(r.is_ok(), "a certificate inside the window is accepted");
    vcover!(slot >= fin + 2 * SLOTS_PER_EPOCH, "a certificate two epochs ahead is refused");
    cov(slot, r.is_ok());
    std::mem::forget(pool);
    std::mem::forget(fx);
    std::mem::forget(r);
}

fn cov_below_finalized(slot: u64, ok: bool) {
    vcover!(slot == 1 && ok, "a certificate for an undecided slot below the highest finalized slot is accepted");
}
fn cov_below_prefix(slot: u64, ok: bool) {
    vcover!(slot == 1 && !ok, "a certificate below the decided prefix is refused");
}
fn cov_duplicate(slot: u64, ok: bool) {
    vcover!(slot == 1 && !ok, "a certificate of a kind already held for the slot is a duplicate");
}

macro_rules! w {
    ($name:ident, $n1:literal, $f1:literal, $ff2:literal, $kind:literal, $cov:ident) => {
        #[cfg_attr(kani, kani::proof)]
        #[cfg_attr(kani, kani::stub(crate::crypto::aggsig::SecretKey::sign, crate::consensus::kani_fix::sign_stub))]
        #[cfg_attr(kani, kani::stub(log::max_level, crate::consensus::pool::kani_c08_pool::cut::log_off))]
        #[cfg_attr(kani, kani::stub(crate::consensus::pool::PoolImpl::add_valid_cert, crate::consensus::pool::kani_c08_pool::cut::add_valid_cert))]
        #[cfg_attr(kani, kani::unwind(6))]
        #[cfg_attr(verif_replay, test)]
        fn $name() {
            window_body::<$n1, $f1, $ff2, $kind>($cov)
        }
    };
}
// finalization of slot 2 ahead of the decided prefix: slot 1 undecided
w!(c08_pool_window_ahead, false, false, true, 0, cov_below_finalized);
w!(c08_pool_window_notar_ahead, true, false, true, 4, cov_below_finalized);
// slots 1 and 2 decided: everything below slot 2 is gone
w!(c08_pool_window_decided, true, true, true, 2, cov_below_prefix);
// slot 1 finalized, slot 2 open
w!(c08_pool_window_one, true, true, false, 0, cov_duplicate);

