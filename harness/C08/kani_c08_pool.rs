//! C08 at pool level: the acceptance window of the real `PoolImpl::add_cert` (overlay module
//! `crate::consensus::pool::kani_c08_pool`, child of `pool`).
//!
//! Pre-state: slot 1 holds an arbitrary subset of {notarization, finalization} certificates,
//! slot 2 possibly a fast-finalization certificate - stored in the pool's slot states and told to
//! the finality tracker through its real interface, then `PoolImpl::prune`.  So the highest
//! finalized slot can be 2 while slot 1 is still undecided (finalization ahead of the decided
//! prefix).  Then one certificate of symbolic kind for a symbolic slot (all of u64) enters
//! through `PoolImpl::add_cert`.  Reference, from the property statement: it is refused as out
//! of bounds exactly when its slot lies below the decided prefix (watermark W) or two epochs
//! beyond the highest finalized slot - in particular a certificate for a not-yet-decided slot
//! BELOW the highest finalized slot is still accepted; otherwise it is a duplicate exactly when
//! a certificate of its kind is held for that slot, else it is handed on (`add_valid_cert`).
//! Under Kani `PoolImpl::add_valid_cert` (storing, events, tracker update: the tracker is
//! c08_certs_*'s subject) is cut by a recording stub.
#![allow(dead_code, unused_imports, clippy::all)]

use super::kani_poolfix::*;
use super::*;
use crate::consensus::cert::kani_certstub::opaque;
use crate::consensus::kani_fix::{block_hash, fixture};
use crate::types::SLOTS_PER_EPOCH;
use crate::verif_std as vs;
use crate::verif_std::{vcheck, vcover};

#[cfg(kani)]
pub(crate) mod cut {
    use super::*;
    struct Ghost {
        magic: [u64; 2],
        calls: usize,
        slot: u64,
    }
    static mut G: Ghost = Ghost { magic: [0xC08_9001_0000_0001, 0x9E37_79B9_7F4A_7C15], calls: 0, slot: 0 };
    pub(crate) fn calls() -> usize {
        unsafe { G.calls }
    }
    pub(crate) fn slot() -> u64 {
        unsafe { G.slot }
    }
    pub(crate) fn add_valid_cert(_this: &mut PoolImpl, cert: Cert) {
        unsafe {
            G.calls += 1;
            G.slot = cert.slot().inner();
        }
        std::mem::forget(cert);
    }
    pub(crate) fn log_off() -> log::LevelFilter {
        log::LevelFilter::Off
    }
}

fn window_body() {
    // validator 0 holds 90 % (natively its single signature makes every certificate valid); the node is validator 1
    let fx = fixture(&[9, 1], 1);
    let (mut pool, _ch) = mk_pool(&fx);
    let vals = fx.epoch.epoch_info().validators();
    let h = block_hash(1);
    let (s1, s2) = (Slot::new(1), Slot::new(2));
    let n1 = vs::any_bool();
    let f1 = vs::any_bool();
    let ff2 = vs::any_bool();
    // finalization of slot 2 first: ahead of the decided prefix whenever slot 1 is not decided
    if ff2 {
        pool.slot_state(s2).add_cert(opaque(3, s2, h.clone(), vals, &fx.sks[0]));
        let _ = pool.finality_tracker.mark_fast_finalized((s2, h.clone()));
    }
    if f1 {
        pool.slot_state(s1).add_cert(opaque(4, s1, h.clone(), vals, &fx.sks[0]));
        let _ = pool.finality_tracker.mark_finalized(s1);
    }
    if n1 {
        pool.slot_state(s1).add_cert(opaque(0, s1, h.clone(), vals, &fx.sks[0]));
        let _ = pool.finality_tracker.mark_notarized((s1, h.clone()));
    }
    pool.prune();
    let dec1 = n1 && f1;
    let w: u64 = if dec1 { if ff2 { 2 } else { 1 } } else { 0 };
    let fin: u64 = if ff2 { 2 } else if dec1 { 1 } else { 0 };
    vcheck!(pool.first_unpruned_slot().inner() == w, "decided prefix (first unpruned slot) differs from what the certificates justify");
    vcheck!(pool.finalized_slot().inner() == fin, "highest finalized slot differs from what the certificates justify");
    vcheck!(pool.slot_states.contains_key(&s1) == ((n1 || f1) && w <= 1), "state of an undecided slot was dropped, or state below the decided prefix retained");

    let slot = vs::any_u64();
    let kind = match vs::any_below(3) {
        0 => 0u8,
        1 => 2u8,
        _ => 4u8,
    };
    let cert = opaque(kind, Slot::new(slot), h.clone(), vals, &fx.sks[0]);
    let r = p_add_cert(&mut pool, validated_cert(&fx, cert));

    let out = slot < w || slot >= fin + 2 * SLOTS_PER_EPOCH;
    let held = slot == 1 && ((kind == 0 && n1) || (kind == 4 && f1));
    vcheck!((r == Err(AddCertError::SlotOutOfBounds)) == out, "acceptance window of add_cert is not [first undecided slot, highest finalized slot + 2 epochs)");
    if !out {
        vcheck!((r == Err(AddCertError::Duplicate)) == held, "duplicate verdict differs from the certificates held for that slot");
        vcheck!(held || r == Ok(()), "a new certificate inside the window was refused");
    }
    #[cfg(kani)]
    {
        vcheck!(cut::calls() == r.is_ok() as usize, "certificate handed on although refused (or not although accepted)");
        vcheck!(!r.is_ok() || cut::slot() == slot, "certificate handed on for another slot");
    }
    vcover!(ff2 && !dec1 && slot == 1 && r.is_ok(), "a certificate for an undecided slot below the highest finalized slot is accepted");
    vcover!(w == 2 && slot == 1, "a certificate below the decided prefix is refused");
    vcover!(slot >= fin + 2 * SLOTS_PER_EPOCH, "a certificate two epochs ahead is refused");
    vcover!(r == Err(AddCertError::Duplicate), "a duplicate");
    std::mem::forget(pool);
    std::mem::forget(fx);
    std::mem::forget(r);
}

#[cfg_attr(kani, kani::proof)]
#[cfg_attr(kani, kani::stub(crate::crypto::aggsig::SecretKey::sign, crate::consensus::kani_fix::sign_stub))]
#[cfg_attr(kani, kani::stub(log::max_level, crate::consensus::pool::kani_c08_pool::cut::log_off))]
#[cfg_attr(kani, kani::stub(crate::consensus::pool::PoolImpl::add_valid_cert, crate::consensus::pool::kani_c08_pool::cut::add_valid_cert))]
#[cfg_attr(kani, kani::unwind(6))]
#[cfg_attr(verif_replay, test)]
fn c08_pool_window() {
    window_body()
}
