#!/usr/bin/env python3
"""Generates the per-link-structure harness list of kani_c08.rs and prints the name list used by spec.py."""
import itertools, os, re
HERE = os.path.dirname(os.path.abspath(__file__))
OPS = [("notar", 1), ("fastfinal", 2), ("final", 3)]

def link_sets(ns):
    # links[s] in {X, 0..s-1} for s = 1..ns-1
    return list(itertools.product(*[[None] + list(range(s)) for s in range(1, ns)]))

def tag(ls):
    return "".join("x" if l is None else str(l) for l in ls)

def arr(ls):
    return "[X, " + ", ".join("X" if l is None else str(l) for l in ls) + "]"

def names(ns):
    out = []
    for ls in link_sets(ns):
        for (o, k) in OPS:
            out.append((f"c08_s{ns}_{o}_L{tag(ls)}", "cert", o, ls, None))
        for s in range(1, ns):
            for p in range(s):
                # a block has one parent: only register (s -> p) where no other parent is known
                if ls[s - 1] is None or ls[s - 1] == p:
                    out.append((f"c08_s{ns}_parent{s}{p}_L{tag(ls)}", "parent", "parent", ls, (s, p)))
    return out

if __name__ == "__main__":
    lines = []
    for ns, unw in ((3, 4), (4, 5)):
        for (name, kind, o, ls, sp) in names(ns):
            if kind == "cert":
                k = dict(OPS)[o]
                lines.append(f"step!({name}, {ns}, {k}, {arr(ls)}, {unw});")
            else:
                lines.append(f"stepp!({name}, {ns}, {arr(ls)}, {sp[0]}, {sp[1]}, {unw});")
    p = os.path.join(HERE, "kani_c08.rs")
    s = open(p).read()
    s = re.sub(r"// GENERATED-BEGIN.*?// GENERATED-END", "// GENERATED-BEGIN (harness/C08/gen.py)\n" + "\n".join(lines) + "\n// GENERATED-END", s, flags=re.S)
    open(p, "w").write(s)
    print(len(lines), "harnesses")
