import importlib.util, os
_pc = importlib.util.spec_from_file_location("pool_common", os.path.join(os.path.dirname(os.path.dirname(os.path.abspath(__file__))), "pool_common.py")); PC = importlib.util.module_from_spec(_pc); _pc.loader.exec_module(PC)
MOD = "consensus::pool::finality_tracker::kani_c08"
POOL_BUILD = {"overlays": PC.OVERLAYS + [{"src": "C08/kani_c08_pool.rs", "dest": "src/consensus/pool/kani_c08_pool.rs", "decl_in": PC.POOL, "decl": "mod kani_c08_pool;"}],
              "redirects": PC.REDIRECTS, "coll_cap": 4}
FT = "src/consensus/pool/finality_tracker.rs"
COLL = {"src": "verif_coll.rs", "dest": "src/verif_coll.rs", "decl_in": "src/lib.rs", "decl": "pub mod verif_coll;"}

def redirect(file, line, repl_mod):
    import re
    return {"file": file, "pattern": r"^" + re.escape(line) + r"$",
            "replacement": "#[cfg(not(kani))]\n" + line + "\n#[cfg(kani)]\n" + repl_mod, "count": 1}

REDIRECTS = [
    redirect(FT, "use std::collections::BTreeMap;", "use crate::verif_coll::BTreeMap;"),
    redirect(FT, "use std::collections::btree_map::Entry;", "use crate::verif_coll::btree_map::Entry;"),
    # FinalizationEvent's lists: bounded vector instead of std Vec (symbolic-length realloc paths)
    {"file": FT, "pattern": r"^use crate::types::Slot;$", "replacement": "use crate::types::Slot;\n#[cfg(kani)]\nuse crate::verif_coll::Vec;", "count": 1},
]
def _certs(ns, k, slot, tiers):
    return {
        "name": f"c08_certs_n{ns}_k{k}_s{slot}", "path": MOD, "tiers": tiers, "role": "bounded history/certificates of one slot in every order",
        "functions": ["FinalityTracker::default", "FinalityTracker::mark_notarized", "FinalityTracker::mark_fast_finalized", "FinalityTracker::mark_finalized", "FinalityTracker::handle_finalized_block", "FinalityTracker::prune", "FinalityTracker::highest_finalized_slot", "FinalityTracker::first_unpruned_slot"],
        "bounds": f"fresh tracker over slots 0..{ns-1}; {k} certificate operations of symbolic kind (notarization / fast-finalization / finalization, each at most once) for slot {slot}; no parent links",
        "covers": 2, "timeout": {"quick": 600, "thorough": 1500}, "mem_gb": 14,
        "cbmc_args": ["--unwindset", "memcmp.0:34", "--max-field-sensitivity-array-size", "8"],
    }

Q, T = ["quick", "thorough"], ["thorough"]

_g = importlib.util.spec_from_file_location("c08gen", os.path.join(os.path.dirname(os.path.abspath(__file__)), "gen.py")); _gen = importlib.util.module_from_spec(_g); _g.loader.exec_module(_gen)
# inductive-step harnesses over concrete link structures (3 slots): which are registered is decided by STEP_TIERS
# all 32 three-slot step harnesses pass on the current tree (measured 80-500 s each under load); two of them - the ones in
# which a finalization / a new link jumps over a slot that already holds a status - run in the quick tier
STEP_TIERS = {n[0]: (Q if n[0] in ("c08_s3_fastfinal_Lx0", "c08_s3_parent20_Lxx") else T) for n in _gen.names(3)}
def _step(name, kind, o, ls, sp):
    tiers = STEP_TIERS.get(name, T if os.environ.get("VERIF_EXPERIMENTAL") else [])
    what = ("one %s certificate for a symbolic slot" % o) if kind == "cert" else ("add_parent(%d -> %d)" % sp)
    return {"name": name, "path": MOD, "tiers": tiers, "role": "inductive step/" + ("certificate" if kind == "cert" else "parent link") + " over link structure " + _gen.tag(ls),
            "functions": ["FinalityTracker::{add_parent,mark_notarized,mark_fast_finalized,mark_finalized,handle_finalized_block,handle_implicitly_finalized,prune}"],
            "bounds": "slots 0..2, parent links fixed to " + _gen.arr(ls) + " (X = unknown); certificates seen so far arbitrary but consistent; tracker state = F(G); " + what,
            "covers": 3, "timeout": {"quick": 600, "thorough": 1500}, "mem_gb": 14,
            "cbmc_args": ["--unwindset", "memcmp.0:34", "--max-field-sensitivity-array-size", "8"]}
STEP_HARNESSES = [_step(*x) for x in _gen.names(3)]
SPEC = {
    "property": "C08",
    "level_text": "Bounded symbolic verification of the real FinalityTracker against a reference function F written from the property statement (directly finalized = fast-final or final+notar; watermark = end of the decided prefix; each slot reported once; highest finalized slot monotone): on a fresh tracker, every order in which the notarization, fast-finalization and finalization certificates of one slot can arrive (2-3 operations of symbolic kind) leaves the tracker in exactly the state F prescribes and reports exactly the newly finalized slot, once. The solver decides all orders at once; counterexamples are replayed on the real std BTreeMap. Parent links: inductive-step harnesses (c08_s3_*) - for each of the 6 parent-link structures over slots 0..2 (links are concrete per harness: a symbolic ancestor walk costs > 3 M symex steps), an arbitrary certificate history consistent with the structure (no certificate contradicts a finalization), the tracker state F prescribes for it (both representations of a finalized slot), and ONE operation (a notarization / fast-finalization / finalization certificate for a symbolic slot, or one new parent link): the reported event lists exactly what became directly finalized, implicitly finalized (ancestors over known links) and implicitly skipped (slots jumped over), each once, and the post-state - statuses, parent map, highest finalized slot, watermark = end of the decided prefix, nothing retained below it - is F of the extended history. With the base case this covers histories of any length over 3 slots, in every order. Whether genesis is listed again as implicitly finalized is not prescribed (at most once).",
    "level_note": "Bounds: slots 0..2, certificates of one slot, 2-3 operations from the fresh state, no parent links. Assumes each certificate kind reaches the tracker at most once per slot and only at or above the watermark (pool.rs guards). std BTreeMap / Vec inside finality_tracker.rs are replaced by bounded array stand-ins (verif_coll) under Kani; native replay uses the real ones. All blocks carry the same hash value (block identity = slot). Trusts Kani, CBMC, CaDiCaL.",
    "overlays": [COLL, {"src": "C08/kani_c08.rs", "dest": "src/consensus/pool/finality_tracker/kani_c08.rs", "decl_in": FT, "decl": "mod kani_c08;"}],
    "redirects": REDIRECTS,
    "coll_cap": 4,
    # 32-byte hashes as whole arrays instead of 32 scalar symbols each: 5x fewer symex steps
    "functions": ["consensus::pool::finality_tracker::FinalityTracker::{default,add_parent,mark_notarized,mark_fast_finalized,mark_finalized,handle_finalized_block,handle_implicitly_finalized,prune,highest_finalized_slot,first_unpruned_slot}"],
    "bounds": "slots 0..2: the three certificate kinds of one slot in every order (2-3 operations) from the fresh tracker; one operation from an arbitrary consistent state for each of the 6 parent-link structures; pool window over all u64 slots",
    "explanation": "Bounded-history harnesses over a ghost certificate history G: after every operation the tracker state and the reported event are compared with F(G). Decided by Kani -> CBMC -> CaDiCaL over all operation kinds/orders within the bound. (Inductive-step harnesses over arbitrary history-consistent states with parent links exist in kani_c08.rs but exceed the memory cap and are not registered.)",
    "assumptions": [
        "no certificate contradicts a finalization (a slot skipped over by a finalized chain is not final-/fast-final-certified or finalized)",
        "one certifiable block per slot; parent links only between those blocks; a block has one parent",
        "each mark_* call at most once per slot and only for slots >= first_unpruned_slot (pool.rs guards)",
        "bounded array map / bounded vector stand in for std BTreeMap / Vec inside finality_tracker.rs under Kani (<= 5 live entries)",
    ],
    "trusted_base": ["verif_coll::BTreeMap stand-in", "reference function F(G) in kani_c08.rs written from the property statement"],
    "outside": ["link structures over more than 3 slots (the 4-slot list is generated in kani_c08.rs, not registered)", "whether genesis is listed again as implicitly finalized", "several certified blocks per slot (conflicting certificates)", "PoolImpl::add_cert/add_vote bounds (async, tokio channels)"],
    "harnesses": [
        {"name": "c08_base", "path": MOD, "tiers": Q, "role": "base case", "functions": ["FinalityTracker::default"], "bounds": "none", "covers": 1},
        _certs(3, 2, 1, Q), _certs(2, 3, 1, T), _certs(3, 3, 2, T),
        {"name": "c08_pool_window_ahead", "path": "consensus::pool::kani_c08_pool", "tiers": Q, "role": "pool acceptance window", "build": POOL_BUILD, "covers": 3,
         "stubs": [PC.SIGN_STUB, "log::max_level", "consensus::pool::PoolImpl::add_valid_cert"], "timeout": {"quick": 900, "thorough": 1800}, "mem_gb": 14,
         "functions": ["PoolImpl::add_cert (up to the hand-over to add_valid_cert)", "PoolImpl::{prune,first_unpruned_slot,finalized_slot,slot_state}", "FinalityTracker::{mark_fast_finalized,mark_finalized,mark_notarized,first_unpruned_slot,highest_finalized_slot}", "SlotState::add_cert", "ParentReadyTracker::prune"],
         "bounds": "fresh pool, 2 validators; slot 2 fast-finalized while slot 1 holds nothing (told to the real tracker, then prune); one new certificate (kind fixed per harness: notarization / finalization / skip / notarization) for a slot ranging over all of u64; add_valid_cert cut by a recording stub; pool.rs compiled without its async plumbing (see pool_common.py)"},
        {"name": "c08_pool_window_notar_ahead", "path": "consensus::pool::kani_c08_pool", "tiers": T, "role": "pool acceptance window", "build": POOL_BUILD, "covers": 3,
         "stubs": [PC.SIGN_STUB, "log::max_level", "consensus::pool::PoolImpl::add_valid_cert"], "timeout": {"quick": 900, "thorough": 1800}, "mem_gb": 14,
         "functions": ["PoolImpl::add_cert (up to the hand-over to add_valid_cert)", "PoolImpl::{prune,first_unpruned_slot,finalized_slot,slot_state}", "FinalityTracker::{mark_fast_finalized,mark_finalized,mark_notarized,first_unpruned_slot,highest_finalized_slot}", "SlotState::add_cert", "ParentReadyTracker::prune"],
         "bounds": "fresh pool, 2 validators; slot 2 fast-finalized while slot 1 holds a notarization certificate only (told to the real tracker, then prune); one new certificate (kind fixed per harness: notarization / finalization / skip / notarization) for a slot ranging over all of u64; add_valid_cert cut by a recording stub; pool.rs compiled without its async plumbing (see pool_common.py)"},
        {"name": "c08_pool_window_decided", "path": "consensus::pool::kani_c08_pool", "tiers": Q, "role": "pool acceptance window", "build": POOL_BUILD, "covers": 3,
         "stubs": [PC.SIGN_STUB, "log::max_level", "consensus::pool::PoolImpl::add_valid_cert"], "timeout": {"quick": 900, "thorough": 1800}, "mem_gb": 14,
         "functions": ["PoolImpl::add_cert (up to the hand-over to add_valid_cert)", "PoolImpl::{prune,first_unpruned_slot,finalized_slot,slot_state}", "FinalityTracker::{mark_fast_finalized,mark_finalized,mark_notarized,first_unpruned_slot,highest_finalized_slot}", "SlotState::add_cert", "ParentReadyTracker::prune"],
         "bounds": "fresh pool, 2 validators; slot 1 notarized + finalized and slot 2 fast-finalized (told to the real tracker, then prune); one new certificate (kind fixed per harness: notarization / finalization / skip / notarization) for a slot ranging over all of u64; add_valid_cert cut by a recording stub; pool.rs compiled without its async plumbing (see pool_common.py)"},
        {"name": "c08_pool_window_one", "path": "consensus::pool::kani_c08_pool", "tiers": T, "role": "pool acceptance window", "build": POOL_BUILD, "covers": 3,
         "stubs": [PC.SIGN_STUB, "log::max_level", "consensus::pool::PoolImpl::add_valid_cert"], "timeout": {"quick": 900, "thorough": 1800}, "mem_gb": 14,
         "functions": ["PoolImpl::add_cert (up to the hand-over to add_valid_cert)", "PoolImpl::{prune,first_unpruned_slot,finalized_slot,slot_state}", "FinalityTracker::{mark_fast_finalized,mark_finalized,mark_notarized,first_unpruned_slot,highest_finalized_slot}", "SlotState::add_cert", "ParentReadyTracker::prune"],
         "bounds": "fresh pool, 2 validators; slot 1 notarized + finalized, slot 2 open (told to the real tracker, then prune); one new certificate (kind fixed per harness: notarization / finalization / skip / notarization) for a slot ranging over all of u64; add_valid_cert cut by a recording stub; pool.rs compiled without its async plumbing (see pool_common.py)"},
    ] + STEP_HARNESSES,
}
