//! C08 harnesses (overlay module `crate::consensus::pool::finality_tracker::kani_c08`).
//!
//! Inductive step over a *ghost* certificate history.  The ghost `G` records, for slots
//! `0..NS` (one certifiable block per slot), which certificates the tracker has been told
//! about (`notar`, `final`, `fast-final`) and which parent links were registered.  `F(G)` —
//! written from the property statement — says what the tracker must then hold:
//!   direct(s)  = ff(s) ∨ (final(s) ∧ notar(s))
//!   fin        = closure of `direct` under known parent links
//!   skipped(u) = ∃ finalized t with known parent p:  p < u < t
//!   watermark  = end of the contiguous decided prefix; nothing below it is kept
//! Harness: arbitrary consistent `G`, tracker state := F(G), ONE arbitrary operation, then
//! assert state == F(G + op) and the reported event == exactly what became finalized /
//! skipped by the operation, each once.  With the base case (`default()` = F(∅)) this
//! covers histories of any length over NS slots, in every order.
#![allow(dead_code, unused_imports, clippy::all)]

use super::*;
use crate::verif_std as vs;
use crate::verif_std::{vcheck, vcover};

const NONE: u8 = 255;

/// One certifiable block per slot, so a block is identified by its slot; every block carries
/// the same (genesis) hash value.  Constant 32-byte payloads keep the solver's formula small:
/// with distinct per-slot hashes every guarded move of a status or block id is a 256-bit
/// multiplexer and the harnesses run out of memory (measured).  Outside the claim as a
/// consequence: mix-ups between hashes of different slots.
fn hash_of(_s: usize) -> BlockHash {
    GENESIS_BLOCK_HASH
}
fn bid(s: usize) -> BlockId {
    (Slot::new(s as u64), hash_of(s))
}

#[derive(Clone, Copy)]
struct Ghost<const NS: usize> {
    notar: [bool; NS],
    fcert: [bool; NS],
    ff: [bool; NS],
    link: [u8; NS],
}

struct Derived<const NS: usize> {
    direct: [bool; NS],
    fin: [bool; NS],
    via_child: [bool; NS],
    skipped: [bool; NS],
    w: usize,
    highest: usize,
}

impl<const NS: usize> Ghost<NS> {
    /// Certificates symbolic, parent links *concrete* (`links[s]` = parent slot or NONE).
    /// The link structure is a shape discriminant: the ancestor walk of the real code is
    /// explored along every link the solver cannot rule out syntactically, and symbolic links
    /// make one operation cost > 3 M symex steps (measured).  All link structures over NS
    /// slots are enumerated as separate harnesses (spec.py).
    fn any(links: [u8; NS]) -> Self {
        let mut g = Ghost { notar: [false; NS], fcert: [false; NS], ff: [false; NS], link: links };
        g.notar[0] = true; // genesis
        let mut s = 1;
        while s < NS {
            g.notar[s] = vs::any_bool();
            g.fcert[s] = vs::any_bool();
            g.ff[s] = vs::any_bool();
            s += 1;
        }
        g
    }
    fn derive(&self) -> Derived<NS> {
        let mut direct = [false; NS];
        let mut s = 0;
        while s < NS {
            direct[s] = self.ff[s] || (self.fcert[s] && self.notar[s]);
            s += 1;
        }
        let mut fin = direct;
        let mut via_child = [false; NS];
        let mut t = NS - 1;
        while t >= 1 {
            if fin[t] && self.link[t] != NONE {
                fin[self.link[t] as usize] = true;
                via_child[self.link[t] as usize] = true;
            }
            t -= 1;
        }
        let mut skipped = [false; NS];
        let mut t = 1;
        while t < NS {
            if fin[t] && self.link[t] != NONE {
                let mut u = self.link[t] as usize + 1;
                while u < t {
                    skipped[u] = true;
                    u += 1;
                }
            }
            t += 1;
        }
        let mut w = 0;
        while w + 1 < NS && (fin[w + 1] || skipped[w + 1]) {
            w += 1;
        }
        let mut highest = 0;
        let mut s = 0;
        while s < NS {
            if direct[s] {
                highest = s;
            }
            s += 1;
        }
        Derived { direct, fin, via_child, skipped, w, highest }
    }
    /// No certificate contradicts a finalization (what < 20 % Byzantine stake guarantees):
    /// a slot skipped over by a finalized chain is neither finalized nor final-certified.
    fn consistent(&self, d: &Derived<NS>) -> bool {
        let mut ok = true;
        let mut u = 0;
        while u < NS {
            if d.skipped[u] && (d.fin[u] || self.fcert[u] || self.ff[u]) {
                ok = false;
            }
            u += 1;
        }
        ok
    }
}

/// The status `F(G)` prescribes for slot `s` (`as_implicit` picks between the two
/// equivalent "finalized" representations where both are reachable).
fn expected_status<const NS: usize>(g: &Ghost<NS>, d: &Derived<NS>, s: usize, as_implicit: bool) -> Option<FinalizationStatus> {
    if s < d.w {
        return None;
    }
    if d.fin[s] {
        let implicit = if d.direct[s] { d.via_child[s] && as_implicit } else { true };
        return Some(if implicit { FinalizationStatus::ImplicitlyFinalized(hash_of(s)) } else { FinalizationStatus::Finalized(hash_of(s)) });
    }
    if d.skipped[s] {
        return Some(FinalizationStatus::ImplicitlySkipped);
    }
    if g.fcert[s] {
        return Some(FinalizationStatus::FinalPendingNotar);
    }
    if g.notar[s] {
        return Some(FinalizationStatus::Notarized(hash_of(s)));
    }
    None
}

fn build<const NS: usize>(g: &Ghost<NS>, d: &Derived<NS>, as_implicit: &[bool; NS]) -> FinalityTracker {
    let mut status = BTreeMap::new();
    let mut parents = BTreeMap::new();
    let mut s = 0;
    while s < NS {
        if let Some(st) = expected_status(g, d, s, as_implicit[s]) {
            status.insert(Slot::new(s as u64), st);
        }
        if s >= d.w && g.link[s] != NONE {
            parents.insert(bid(s), bid(g.link[s] as usize));
        }
        s += 1;
    }
    FinalityTracker {
        status,
        parents,
        highest_finalized_slot: Slot::new(d.highest as u64),
        first_unpruned_slot: Slot::new(d.w as u64),
    }
}

fn status_matches(got: Option<&FinalizationStatus>, g_fin: bool, want: Option<FinalizationStatus>, s: usize) -> bool {
    match (got, want) {
        (None, None) => true,
        (Some(a), Some(b)) => {
            if g_fin {
                // both representations of "finalized with this block" are acceptable
                *a == FinalizationStatus::Finalized(hash_of(s)) || *a == FinalizationStatus::ImplicitlyFinalized(hash_of(s))
            } else {
                *a == b
            }
        }
        _ => false,
    }
}

fn count_block(v: &Vec<BlockId>, b: &BlockId) -> usize {
    let mut n = 0;
    for x in v.iter() {
        if x == b {
            n += 1;
        }
    }
    n
}
fn count_slot(v: &Vec<Slot>, s: Slot) -> usize {
    let mut n = 0;
    for x in v.iter() {
        if *x == s {
            n += 1;
        }
    }
    n
}

/// Applies one operation to the tracker and to the ghost and checks event + post-state against F.
/// op: 0 = add_parent, 1 = mark_notarized, 2 = mark_fast_finalized, 3 = mark_finalized
fn do_step<const NS: usize>(t: &mut FinalityTracker, g: &Ghost<NS>, op: u8, s: usize, p: usize) -> Ghost<NS> {
    do_step_x::<NS, true>(t, g, op, s, p)
}

/// `PARENT = false`: the call site never passes op 0, and `add_parent` is syntactically absent
/// (an `assume` would not keep CBMC from symbolically executing that arm).
fn do_step_x<const NS: usize, const PARENT: bool>(t: &mut FinalityTracker, g: &Ghost<NS>, op: u8, s: usize, p: usize) -> Ghost<NS> {
    vs::assume(s >= 1 && s < NS && (op != 0 || p < s));
    let d = g.derive();

    // the operation and its effect on the ghost
    let mut g2 = *g;
    let accepted = s >= d.w;
    match op {
        0 => {
            // a block has one parent: a repeated registration carries the same parent
            vs::assume(g.link[s] == NONE || g.link[s] as usize == p);
            if accepted {
                g2.link[s] = p as u8;
            }
        }
        1 => {
            // the pool hands every certificate to the tracker once, and only for slots it still tracks
            vs::assume(accepted && !g.notar[s]);
            g2.notar[s] = true;
        }
        2 => {
            vs::assume(accepted && !g.ff[s]);
            g2.ff[s] = true;
        }
        _ => {
            vs::assume(accepted && !g.fcert[s]);
            g2.fcert[s] = true;
        }
    }
    let d2 = g2.derive();
    vs::assume(g2.consistent(&d2));

    let ev = if PARENT {
        match op {
            0 => t.add_parent(bid(s), bid(p)),
            1 => t.mark_notarized(bid(s)),
            2 => t.mark_fast_finalized(bid(s)),
            _ => t.mark_finalized(Slot::new(s as u64)),
        }
    } else {
        match op {
            1 => t.mark_notarized(bid(s)),
            2 => t.mark_fast_finalized(bid(s)),
            _ => t.mark_finalized(Slot::new(s as u64)),
        }
    };

    // --- reported events: exactly what became finalized / skipped, each once -------------
    let newly_direct = op != 0 && d2.direct[s] && !d.fin[s];
    vcheck!(ev.finalized.is_some() == newly_direct, "slot reported finalized without (or not reported with) its certificates");
    if let Some(b) = &ev.finalized {
        vcheck!(*b == bid(s), "reported a finalized block other than the certified one");
    }
    let mut want_if = 0;
    let mut want_sk = 0;
    let mut u = 0;
    while u < NS {
        let nf = d2.fin[u] && !d.fin[u] && !(u == s && newly_direct);
        let ns = d2.skipped[u] && !d.skipped[u];
        let cnt_if = count_block(&ev.implicitly_finalized, &bid(u));
        if u == 0 {
            // genesis counts as finalized from the start: whether it is listed again when a link reaches it is
            // not prescribed (the real code lists it unless the watermark has already passed it) - at most once
            vcheck!(cnt_if <= nf as usize, "genesis reported implicitly finalized twice or without a link reaching it");
        } else {
            vcheck!(cnt_if == nf as usize, "ancestor reported implicitly finalized wrongly (missing, twice, or unjustified)");
        }
        vcheck!(count_slot(&ev.implicitly_skipped, Slot::new(u as u64)) == ns as usize, "slot reported implicitly skipped wrongly (missing, twice, or unjustified)");
        want_if += if u == 0 { cnt_if } else { nf as usize };
        want_sk += ns as usize;
        u += 1;
    }
    vcheck!(ev.implicitly_finalized.len() == want_if, "extra implicitly finalized entries");
    vcheck!(ev.implicitly_skipped.len() == want_sk, "extra implicitly skipped entries");

    // --- post-state == F(G') ---------------------------------------------------------------
    vcheck!(t.highest_finalized_slot().inner() >= d.highest as u64, "highest finalized slot decreased");
    vcheck!(t.highest_finalized_slot() == Slot::new(d2.highest as u64), "highest finalized slot is not the highest directly finalized slot");
    vcheck!(t.first_unpruned_slot() == Slot::new(d2.w as u64), "watermark is not the end of the decided prefix");
    let mut n_status = 0;
    let mut n_par = 0;
    let mut u = 0;
    while u < NS {
        let want = expected_status(&g2, &d2, u, false);
        if want.is_some() {
            n_status += 1;
        }
        let got = t.status.get(&Slot::new(u as u64));
        vcheck!(status_matches(got, d2.fin[u], want, u), "slot status differs from what the certificates seen justify (lost, overwritten or retained below the watermark)");
        let want_par = u >= d2.w && g2.link[u] != NONE;
        if want_par {
            n_par += 1;
        }
        match t.parents.get(&bid(u)) {
            Some(pp) => vcheck!(want_par && *pp == bid(g2.link[u] as usize), "parent link wrong or retained below the watermark"),
            None => vcheck!(!want_par, "parent link lost"),
        }
        u += 1;
    }
    vcheck!(t.status.len() == n_status, "status map holds entries it should not");
    vcheck!(t.parents.len() == n_par, "parent map holds entries it should not");

    std::mem::forget(ev);
    g2
}

/// Reachability witnesses of a certificate step (the callers know the operation kind).
fn cover_cert_step<const NS: usize>(g: &Ghost<NS>, g2: &Ghost<NS>, s: usize) {
    let (d, d2) = (g.derive(), g2.derive());
    let newly_direct = d2.direct[s] && !d.fin[s];
    vcover!(newly_direct, "a slot becomes directly finalized");
    vcover!(!newly_direct && d2.direct[s] && d.direct[s], "a certificate arrives for a slot that is already finalized");
}
/// Reachability witnesses of a parent-link step.
fn cover_parent_step<const NS: usize>(g: &Ghost<NS>, g2: &Ghost<NS>, s: usize, p: usize) {
    let (d, d2) = (g.derive(), g2.derive());
    vcover!(g.link[s] != NONE || (d2.fin[p] && !d.fin[p]), "the new link finalizes the parent implicitly (or the registration is a repeat)");
    vcover!(!d2.fin[s], "a link below an unfinalized block changes nothing");
}

/// Inductive step: arbitrary history-consistent pre-state over the given link structure, one
/// certificate operation (kind fixed, slot symbolic).
fn step_body<const NS: usize>(op: u8, links: [u8; NS]) {
    let g = Ghost::<NS>::any(links);
    let as_implicit: [bool; NS] = std::array::from_fn(|_| vs::any_bool());
    let s = vs::any_below(NS as u8) as usize;
    let d = g.derive();
    vs::assume(g.consistent(&d));
    let mut t = build(&g, &d, &as_implicit);
    vcover!(d.w > 0, "pre-state already pruned");
    let g2 = do_step(&mut t, &g, op, s, 0);
    cover_cert_step(&g, &g2, s);
    std::mem::forget(t);
}

/// Inductive step for `add_parent(s -> p)` with concrete `s`, `p`.
fn step_parent_body<const NS: usize>(links: [u8; NS], s: usize, p: usize) {
    let g = Ghost::<NS>::any(links);
    let as_implicit: [bool; NS] = std::array::from_fn(|_| vs::any_bool());
    let d = g.derive();
    vs::assume(g.consistent(&d));
    let mut t = build(&g, &d, &as_implicit);
    vcover!(d.w > 0, "pre-state already pruned");
    let g2 = do_step(&mut t, &g, 0, s, p);
    cover_parent_step(&g, &g2, s, p);
    std::mem::forget(t);
}

/// Bounded history: K arbitrary operations (kind, slot, parent all symbolic) on a fresh
/// tracker, checked against F after every operation.
fn hist_body<const NS: usize, const K: usize>() {
    let mut g = Ghost::<NS> { notar: [false; NS], fcert: [false; NS], ff: [false; NS], link: [NONE; NS] };
    g.notar[0] = true;
    let mut t = FinalityTracker::default();
    let mut i = 0;
    while i < K {
        let op = vs::any_below(4);
        let s = vs::any_below(NS as u8) as usize;
        let p = vs::any_below(NS as u8) as usize;
        g = do_step(&mut t, &g, op, s, p);
        i += 1;
    }
    std::mem::forget(t);
}

/// Base case: the fresh tracker is F(∅).
fn base_body() {
    let t = FinalityTracker::default();
    vcheck!(t.first_unpruned_slot() == Slot::genesis(), "fresh tracker watermark");
    vcheck!(t.highest_finalized_slot() == Slot::genesis(), "fresh tracker highest finalized");
    vcheck!(t.status.len() == 1 && t.status.get(&Slot::genesis()) == Some(&FinalizationStatus::Notarized(GENESIS_BLOCK_HASH)), "fresh tracker status");
    vcheck!(t.parents.len() == 0, "fresh tracker parents");
    vcover!(true, "reached");
    std::mem::forget(t);
}

/// Bounded history on ONE slot: K certificate operations of symbolic kind (each kind at most
/// once) for the concrete slot S on a fresh tracker, no parent links, checked against F after
/// every operation.  Covers every order in which the certificates of one slot can arrive.
fn certs_body<const NS: usize, const K: usize>(s: usize) {
    let mut g = Ghost::<NS> { notar: [false; NS], fcert: [false; NS], ff: [false; NS], link: [NONE; NS] };
    g.notar[0] = true;
    let mut t = FinalityTracker::default();
    let mut i = 0;
    while i < K {
        let op = 1 + vs::any_below(3);
        let g2 = do_step_x::<NS, false>(&mut t, &g, op, s, 0);
        cover_cert_step(&g, &g2, s);
        g = g2;
        i += 1;
    }
    std::mem::forget(t);
}
macro_rules! certs {
    ($name:ident, $ns:literal, $k:literal, $s:literal, $unw:literal) => {
        #[cfg_attr(kani, kani::proof)]
        #[cfg_attr(kani, kani::unwind($unw))]
        #[cfg_attr(verif_replay, test)]
        fn $name() {
            certs_body::<$ns, $k>($s)
        }
    };
}
certs!(c08_certs_n2_k3_s1, 2, 3, 1, 4);
certs!(c08_certs_n3_k3_s2, 3, 3, 2, 4);
certs!(c08_certs_n3_k2_s1, 3, 2, 1, 4);

macro_rules! step {
    ($name:ident, $ns:literal, $op:literal, $links:expr, $unw:literal) => {
        #[cfg_attr(kani, kani::proof)]
        #[cfg_attr(kani, kani::unwind($unw))]
        #[cfg_attr(verif_replay, test)]
        fn $name() {
            step_body::<$ns>($op, $links)
        }
    };
}
macro_rules! stepp {
    ($name:ident, $ns:literal, $links:expr, $s:literal, $p:literal, $unw:literal) => {
        #[cfg_attr(kani, kani::proof)]
        #[cfg_attr(kani, kani::unwind($unw))]
        #[cfg_attr(verif_replay, test)]
        fn $name() {
            step_parent_body::<$ns>($links, $s, $p)
        }
    };
}
macro_rules! hist {
    ($name:ident, $ns:literal, $k:literal, $unw:literal) => {
        #[cfg_attr(kani, kani::proof)]
        #[cfg_attr(kani, kani::unwind($unw))]
        #[cfg_attr(verif_replay, test)]
        fn $name() {
            hist_body::<$ns, $k>()
        }
    };
}
const X: u8 = NONE;
// GENERATED-BEGIN (harness/C08/gen.py)
step!(c08_s3_notar_Lxx, 3, 1, [X, X, X], 4);
step!(c08_s3_fastfinal_Lxx, 3, 2, [X, X, X], 4);
step!(c08_s3_final_Lxx, 3, 3, [X, X, X], 4);
stepp!(c08_s3_parent10_Lxx, 3, [X, X, X], 1, 0, 4);
stepp!(c08_s3_parent20_Lxx, 3, [X, X, X], 2, 0, 4);
stepp!(c08_s3_parent21_Lxx, 3, [X, X, X], 2, 1, 4);
step!(c08_s3_notar_Lx0, 3, 1, [X, X, 0], 4);
step!(c08_s3_fastfinal_Lx0, 3, 2, [X, X, 0], 4);
step!(c08_s3_final_Lx0, 3, 3, [X, X, 0], 4);
stepp!(c08_s3_parent10_Lx0, 3, [X, X, 0], 1, 0, 4);
stepp!(c08_s3_parent20_Lx0, 3, [X, X, 0], 2, 0, 4);
step!(c08_s3_notar_Lx1, 3, 1, [X, X, 1], 4);
step!(c08_s3_fastfinal_Lx1, 3, 2, [X, X, 1], 4);
step!(c08_s3_final_Lx1, 3, 3, [X, X, 1], 4);
stepp!(c08_s3_parent10_Lx1, 3, [X, X, 1], 1, 0, 4);
stepp!(c08_s3_parent21_Lx1, 3, [X, X, 1], 2, 1, 4);
step!(c08_s3_notar_L0x, 3, 1, [X, 0, X], 4);
step!(c08_s3_fastfinal_L0x, 3, 2, [X, 0, X], 4);
step!(c08_s3_final_L0x, 3, 3, [X, 0, X], 4);
stepp!(c08_s3_parent10_L0x, 3, [X, 0, X], 1, 0, 4);
stepp!(c08_s3_parent20_L0x, 3, [X, 0, X], 2, 0, 4);
stepp!(c08_s3_parent21_L0x, 3, [X, 0, X], 2, 1, 4);
step!(c08_s3_notar_L00, 3, 1, [X, 0, 0], 4);
step!(c08_s3_fastfinal_L00, 3, 2, [X, 0, 0], 4);
step!(c08_s3_final_L00, 3, 3, [X, 0, 0], 4);
stepp!(c08_s3_parent10_L00, 3, [X, 0, 0], 1, 0, 4);
stepp!(c08_s3_parent20_L00, 3, [X, 0, 0], 2, 0, 4);
step!(c08_s3_notar_L01, 3, 1, [X, 0, 1], 4);
step!(c08_s3_fastfinal_L01, 3, 2, [X, 0, 1], 4);
step!(c08_s3_final_L01, 3, 3, [X, 0, 1], 4);
stepp!(c08_s3_parent10_L01, 3, [X, 0, 1], 1, 0, 4);
stepp!(c08_s3_parent21_L01, 3, [X, 0, 1], 2, 1, 4);
step!(c08_s4_notar_Lxxx, 4, 1, [X, X, X, X], 5);
step!(c08_s4_fastfinal_Lxxx, 4, 2, [X, X, X, X], 5);
step!(c08_s4_final_Lxxx, 4, 3, [X, X, X, X], 5);
stepp!(c08_s4_parent10_Lxxx, 4, [X, X, X, X], 1, 0, 5);
stepp!(c08_s4_parent20_Lxxx, 4, [X, X, X, X], 2, 0, 5);
stepp!(c08_s4_parent21_Lxxx, 4, [X, X, X, X], 2, 1, 5);
stepp!(c08_s4_parent30_Lxxx, 4, [X, X, X, X], 3, 0, 5);
stepp!(c08_s4_parent31_Lxxx, 4, [X, X, X, X], 3, 1, 5);
stepp!(c08_s4_parent32_Lxxx, 4, [X, X, X, X], 3, 2, 5);
step!(c08_s4_notar_Lxx0, 4, 1, [X, X, X, 0], 5);
step!(c08_s4_fastfinal_Lxx0, 4, 2, [X, X, X, 0], 5);
step!(c08_s4_final_Lxx0, 4, 3, [X, X, X, 0], 5);
stepp!(c08_s4_parent10_Lxx0, 4, [X, X, X, 0], 1, 0, 5);
stepp!(c08_s4_parent20_Lxx0, 4, [X, X, X, 0], 2, 0, 5);
stepp!(c08_s4_parent21_Lxx0, 4, [X, X, X, 0], 2, 1, 5);
stepp!(c08_s4_parent30_Lxx0, 4, [X, X, X, 0], 3, 0, 5);
step!(c08_s4_notar_Lxx1, 4, 1, [X, X, X, 1], 5);
step!(c08_s4_fastfinal_Lxx1, 4, 2, [X, X, X, 1], 5);
step!(c08_s4_final_Lxx1, 4, 3, [X, X, X, 1], 5);
stepp!(c08_s4_parent10_Lxx1, 4, [X, X, X, 1], 1, 0, 5);
stepp!(c08_s4_parent20_Lxx1, 4, [X, X, X, 1], 2, 0, 5);
stepp!(c08_s4_parent21_Lxx1, 4, [X, X, X, 1], 2, 1, 5);
stepp!(c08_s4_parent31_Lxx1, 4, [X, X, X, 1], 3, 1, 5);
step!(c08_s4_notar_Lxx2, 4, 1, [X, X, X, 2], 5);
step!(c08_s4_fastfinal_Lxx2, 4, 2, [X, X, X, 2], 5);
step!(c08_s4_final_Lxx2, 4, 3, [X, X, X, 2], 5);
stepp!(c08_s4_parent10_Lxx2, 4, [X, X, X, 2], 1, 0, 5);
stepp!(c08_s4_parent20_Lxx2, 4, [X, X, X, 2], 2, 0, 5);
stepp!(c08_s4_parent21_Lxx2, 4, [X, X, X, 2], 2, 1, 5);
stepp!(c08_s4_parent32_Lxx2, 4, [X, X, X, 2], 3, 2, 5);
step!(c08_s4_notar_Lx0x, 4, 1, [X, X, 0, X], 5);
step!(c08_s4_fastfinal_Lx0x, 4, 2, [X, X, 0, X], 5);
step!(c08_s4_final_Lx0x, 4, 3, [X, X, 0, X], 5);
stepp!(c08_s4_parent10_Lx0x, 4, [X, X, 0, X], 1, 0, 5);
stepp!(c08_s4_parent20_Lx0x, 4, [X, X, 0, X], 2, 0, 5);
stepp!(c08_s4_parent30_Lx0x, 4, [X, X, 0, X], 3, 0, 5);
stepp!(c08_s4_parent31_Lx0x, 4, [X, X, 0, X], 3, 1, 5);
stepp!(c08_s4_parent32_Lx0x, 4, [X, X, 0, X], 3, 2, 5);
step!(c08_s4_notar_Lx00, 4, 1, [X, X, 0, 0], 5);
step!(c08_s4_fastfinal_Lx00, 4, 2, [X, X, 0, 0], 5);
step!(c08_s4_final_Lx00, 4, 3, [X, X, 0, 0], 5);
stepp!(c08_s4_parent10_Lx00, 4, [X, X, 0, 0], 1, 0, 5);
stepp!(c08_s4_parent20_Lx00, 4, [X, X, 0, 0], 2, 0, 5);
stepp!(c08_s4_parent30_Lx00, 4, [X, X, 0, 0], 3, 0, 5);
step!(c08_s4_notar_Lx01, 4, 1, [X, X, 0, 1], 5);
step!(c08_s4_fastfinal_Lx01, 4, 2, [X, X, 0, 1], 5);
step!(c08_s4_final_Lx01, 4, 3, [X, X, 0, 1], 5);
stepp!(c08_s4_parent10_Lx01, 4, [X, X, 0, 1], 1, 0, 5);
stepp!(c08_s4_parent20_Lx01, 4, [X, X, 0, 1], 2, 0, 5);
stepp!(c08_s4_parent31_Lx01, 4, [X, X, 0, 1], 3, 1, 5);
step!(c08_s4_notar_Lx02, 4, 1, [X, X, 0, 2], 5);
step!(c08_s4_fastfinal_Lx02, 4, 2, [X, X, 0, 2], 5);
step!(c08_s4_final_Lx02, 4, 3, [X, X, 0, 2], 5);
stepp!(c08_s4_parent10_Lx02, 4, [X, X, 0, 2], 1, 0, 5);
stepp!(c08_s4_parent20_Lx02, 4, [X, X, 0, 2], 2, 0, 5);
stepp!(c08_s4_parent32_Lx02, 4, [X, X, 0, 2], 3, 2, 5);
step!(c08_s4_notar_Lx1x, 4, 1, [X, X, 1, X], 5);
step!(c08_s4_fastfinal_Lx1x, 4, 2, [X, X, 1, X], 5);
step!(c08_s4_final_Lx1x, 4, 3, [X, X, 1, X], 5);
stepp!(c08_s4_parent10_Lx1x, 4, [X, X, 1, X], 1, 0, 5);
stepp!(c08_s4_parent21_Lx1x, 4, [X, X, 1, X], 2, 1, 5);
stepp!(c08_s4_parent30_Lx1x, 4, [X, X, 1, X], 3, 0, 5);
stepp!(c08_s4_parent31_Lx1x, 4, [X, X, 1, X], 3, 1, 5);
stepp!(c08_s4_parent32_Lx1x, 4, [X, X, 1, X], 3, 2, 5);
step!(c08_s4_notar_Lx10, 4, 1, [X, X, 1, 0], 5);
step!(c08_s4_fastfinal_Lx10, 4, 2, [X, X, 1, 0], 5);
step!(c08_s4_final_Lx10, 4, 3, [X, X, 1, 0], 5);
stepp!(c08_s4_parent10_Lx10, 4, [X, X, 1, 0], 1, 0, 5);
stepp!(c08_s4_parent21_Lx10, 4, [X, X, 1, 0], 2, 1, 5);
stepp!(c08_s4_parent30_Lx10, 4, [X, X, 1, 0], 3, 0, 5);
step!(c08_s4_notar_Lx11, 4, 1, [X, X, 1, 1], 5);
step!(c08_s4_fastfinal_Lx11, 4, 2, [X, X, 1, 1], 5);
step!(c08_s4_final_Lx11, 4, 3, [X, X, 1, 1], 5);
stepp!(c08_s4_parent10_Lx11, 4, [X, X, 1, 1], 1, 0, 5);
stepp!(c08_s4_parent21_Lx11, 4, [X, X, 1, 1], 2, 1, 5);
stepp!(c08_s4_parent31_Lx11, 4, [X, X, 1, 1], 3, 1, 5);
step!(c08_s4_notar_Lx12, 4, 1, [X, X, 1, 2], 5);
step!(c08_s4_fastfinal_Lx12, 4, 2, [X, X, 1, 2], 5);
step!(c08_s4_final_Lx12, 4, 3, [X, X, 1, 2], 5);
stepp!(c08_s4_parent10_Lx12, 4, [X, X, 1, 2], 1, 0, 5);
stepp!(c08_s4_parent21_Lx12, 4, [X, X, 1, 2], 2, 1, 5);
stepp!(c08_s4_parent32_Lx12, 4, [X, X, 1, 2], 3, 2, 5);
step!(c08_s4_notar_L0xx, 4, 1, [X, 0, X, X], 5);
step!(c08_s4_fastfinal_L0xx, 4, 2, [X, 0, X, X], 5);
step!(c08_s4_final_L0xx, 4, 3, [X, 0, X, X], 5);
stepp!(c08_s4_parent10_L0xx, 4, [X, 0, X, X], 1, 0, 5);
stepp!(c08_s4_parent20_L0xx, 4, [X, 0, X, X], 2, 0, 5);
stepp!(c08_s4_parent21_L0xx, 4, [X, 0, X, X], 2, 1, 5);
stepp!(c08_s4_parent30_L0xx, 4, [X, 0, X, X], 3, 0, 5);
stepp!(c08_s4_parent31_L0xx, 4, [X, 0, X, X], 3, 1, 5);
stepp!(c08_s4_parent32_L0xx, 4, [X, 0, X, X], 3, 2, 5);
step!(c08_s4_notar_L0x0, 4, 1, [X, 0, X, 0], 5);
step!(c08_s4_fastfinal_L0x0, 4, 2, [X, 0, X, 0], 5);
step!(c08_s4_final_L0x0, 4, 3, [X, 0, X, 0], 5);
stepp!(c08_s4_parent10_L0x0, 4, [X, 0, X, 0], 1, 0, 5);
stepp!(c08_s4_parent20_L0x0, 4, [X, 0, X, 0], 2, 0, 5);
stepp!(c08_s4_parent21_L0x0, 4, [X, 0, X, 0], 2, 1, 5);
stepp!(c08_s4_parent30_L0x0, 4, [X, 0, X, 0], 3, 0, 5);
step!(c08_s4_notar_L0x1, 4, 1, [X, 0, X, 1], 5);
step!(c08_s4_fastfinal_L0x1, 4, 2, [X, 0, X, 1], 5);
step!(c08_s4_final_L0x1, 4, 3, [X, 0, X, 1], 5);
stepp!(c08_s4_parent10_L0x1, 4, [X, 0, X, 1], 1, 0, 5);
stepp!(c08_s4_parent20_L0x1, 4, [X, 0, X, 1], 2, 0, 5);
stepp!(c08_s4_parent21_L0x1, 4, [X, 0, X, 1], 2, 1, 5);
stepp!(c08_s4_parent31_L0x1, 4, [X, 0, X, 1], 3, 1, 5);
step!(c08_s4_notar_L0x2, 4, 1, [X, 0, X, 2], 5);
step!(c08_s4_fastfinal_L0x2, 4, 2, [X, 0, X, 2], 5);
step!(c08_s4_final_L0x2, 4, 3, [X, 0, X, 2], 5);
stepp!(c08_s4_parent10_L0x2, 4, [X, 0, X, 2], 1, 0, 5);
stepp!(c08_s4_parent20_L0x2, 4, [X, 0, X, 2], 2, 0, 5);
stepp!(c08_s4_parent21_L0x2, 4, [X, 0, X, 2], 2, 1, 5);
stepp!(c08_s4_parent32_L0x2, 4, [X, 0, X, 2], 3, 2, 5);
step!(c08_s4_notar_L00x, 4, 1, [X, 0, 0, X], 5);
step!(c08_s4_fastfinal_L00x, 4, 2, [X, 0, 0, X], 5);
step!(c08_s4_final_L00x, 4, 3, [X, 0, 0, X], 5);
stepp!(c08_s4_parent10_L00x, 4, [X, 0, 0, X], 1, 0, 5);
stepp!(c08_s4_parent20_L00x, 4, [X, 0, 0, X], 2, 0, 5);
stepp!(c08_s4_parent30_L00x, 4, [X, 0, 0, X], 3, 0, 5);
stepp!(c08_s4_parent31_L00x, 4, [X, 0, 0, X], 3, 1, 5);
stepp!(c08_s4_parent32_L00x, 4, [X, 0, 0, X], 3, 2, 5);
step!(c08_s4_notar_L000, 4, 1, [X, 0, 0, 0], 5);
step!(c08_s4_fastfinal_L000, 4, 2, [X, 0, 0, 0], 5);
step!(c08_s4_final_L000, 4, 3, [X, 0, 0, 0], 5);
stepp!(c08_s4_parent10_L000, 4, [X, 0, 0, 0], 1, 0, 5);
stepp!(c08_s4_parent20_L000, 4, [X, 0, 0, 0], 2, 0, 5);
stepp!(c08_s4_parent30_L000, 4, [X, 0, 0, 0], 3, 0, 5);
step!(c08_s4_notar_L001, 4, 1, [X, 0, 0, 1], 5);
step!(c08_s4_fastfinal_L001, 4, 2, [X, 0, 0, 1], 5);
step!(c08_s4_final_L001, 4, 3, [X, 0, 0, 1], 5);
stepp!(c08_s4_parent10_L001, 4, [X, 0, 0, 1], 1, 0, 5);
stepp!(c08_s4_parent20_L001, 4, [X, 0, 0, 1], 2, 0, 5);
stepp!(c08_s4_parent31_L001, 4, [X, 0, 0, 1], 3, 1, 5);
step!(c08_s4_notar_L002, 4, 1, [X, 0, 0, 2], 5);
step!(c08_s4_fastfinal_L002, 4, 2, [X, 0, 0, 2], 5);
step!(c08_s4_final_L002, 4, 3, [X, 0, 0, 2], 5);
stepp!(c08_s4_parent10_L002, 4, [X, 0, 0, 2], 1, 0, 5);
stepp!(c08_s4_parent20_L002, 4, [X, 0, 0, 2], 2, 0, 5);
stepp!(c08_s4_parent32_L002, 4, [X, 0, 0, 2], 3, 2, 5);
step!(c08_s4_notar_L01x, 4, 1, [X, 0, 1, X], 5);
step!(c08_s4_fastfinal_L01x, 4, 2, [X, 0, 1, X], 5);
step!(c08_s4_final_L01x, 4, 3, [X, 0, 1, X], 5);
stepp!(c08_s4_parent10_L01x, 4, [X, 0, 1, X], 1, 0, 5);
stepp!(c08_s4_parent21_L01x, 4, [X, 0, 1, X], 2, 1, 5);
stepp!(c08_s4_parent30_L01x, 4, [X, 0, 1, X], 3, 0, 5);
stepp!(c08_s4_parent31_L01x, 4, [X, 0, 1, X], 3, 1, 5);
stepp!(c08_s4_parent32_L01x, 4, [X, 0, 1, X], 3, 2, 5);
step!(c08_s4_notar_L010, 4, 1, [X, 0, 1, 0], 5);
step!(c08_s4_fastfinal_L010, 4, 2, [X, 0, 1, 0], 5);
step!(c08_s4_final_L010, 4, 3, [X, 0, 1, 0], 5);
stepp!(c08_s4_parent10_L010, 4, [X, 0, 1, 0], 1, 0, 5);
stepp!(c08_s4_parent21_L010, 4, [X, 0, 1, 0], 2, 1, 5);
stepp!(c08_s4_parent30_L010, 4, [X, 0, 1, 0], 3, 0, 5);
step!(c08_s4_notar_L011, 4, 1, [X, 0, 1, 1], 5);
step!(c08_s4_fastfinal_L011, 4, 2, [X, 0, 1, 1], 5);
step!(c08_s4_final_L011, 4, 3, [X, 0, 1, 1], 5);
stepp!(c08_s4_parent10_L011, 4, [X, 0, 1, 1], 1, 0, 5);
stepp!(c08_s4_parent21_L011, 4, [X, 0, 1, 1], 2, 1, 5);
stepp!(c08_s4_parent31_L011, 4, [X, 0, 1, 1], 3, 1, 5);
step!(c08_s4_notar_L012, 4, 1, [X, 0, 1, 2], 5);
step!(c08_s4_fastfinal_L012, 4, 2, [X, 0, 1, 2], 5);
step!(c08_s4_final_L012, 4, 3, [X, 0, 1, 2], 5);
stepp!(c08_s4_parent10_L012, 4, [X, 0, 1, 2], 1, 0, 5);
stepp!(c08_s4_parent21_L012, 4, [X, 0, 1, 2], 2, 1, 5);
stepp!(c08_s4_parent32_L012, 4, [X, 0, 1, 2], 3, 2, 5);
// GENERATED-END

#[cfg_attr(kani, kani::proof)]
#[cfg_attr(kani, kani::unwind(10))]
#[cfg_attr(verif_replay, test)]
fn c08_base() {
    base_body()
}
