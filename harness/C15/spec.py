MOD = "crypto::merkle::kani_c15"
MERKLE_OVERLAYS = [
    {"src": "C15/kani_merkle.rs", "dest": "src/crypto/merkle/kani_merkle.rs", "decl_in": "src/crypto/merkle.rs", "decl": "mod kani_merkle;"},
]
HASH_STUB = "crypto::hash::hash_all"

def _sound(kind, m, k, tiers, quick_to=420):
    fn = "check_proof_last" if kind == "l" else "check_proof"
    return {
        "name": f"c15_sound_{kind}_m{m}_k{k}", "path": MOD, "tiers": tiers, "role": f"soundness/{fn}",
        "functions": [f"MerkleTree::{fn}", "MerkleTree::check_hash_proof" + ("_last" if kind == "l" else ""), "MerkleTree::derive_hash_root" + ("_last" if kind == "l" else ""), "MerkleTree::hash_leaf", "MerkleTree::hash_pair"],
        "bounds": f"DoubleMerkleTree; honest tree of {m} symbolic 32-byte leaves; proof of exactly {k} elements, each any honest node / empty-subtree constant / raw value; candidate leaf any honest leaf or raw 32 bytes; index any 64-bit usize",
        "stubs": [HASH_STUB], "covers": 2 if k == (m - 1).bit_length() else 1,
        "timeout": {"quick": quick_to, "thorough": 1500},
    }

def _complete(m, tiers):
    return {
        "name": f"c15_complete_m{m}", "path": MOD, "tiers": tiers, "role": "completeness",
        "functions": ["MerkleTree::new", "MerkleTree::get_root", "MerkleTree::height", "MerkleTree::create_proof", "MerkleTree::check_proof", "MerkleTree::check_proof_last", "MerkleTree::derive_root"],
        "bounds": f"DoubleMerkleTree over {m} symbolic 32-byte leaves; proof created for a symbolic index < {m}",
        "stubs": [HASH_STUB], "covers": 1,
        "timeout": {"quick": 420, "thorough": 1500},
    }

Q, T = ["quick", "thorough"], ["thorough"]
SPEC = {
    "property": "C15",
    "level_text": "Bounded symbolic verification of the real Merkle proof code: for every tree of 1..=8 leaves, every proof length 0..=4, every 64-bit index and every choice of leaf / proof elements the solver shows that check_proof and check_proof_last accept only the leaf at that index (and only the last leaf), and that every proof the real tree creates verifies. Sampling cannot reach the out-of-width indices and adversarial proof elements; the solver quantifies over all of them inside the bounds. Not a proof: nothing is claimed for longer proofs or wider trees.",
    "level_note": "Assumes SHA-256 behaves as a collision-free function consistent with the EMPTY_ROOTS constants (oracle stub); trusts Kani's MIR translation, CBMC and CaDiCaL; pointer-validity checks off; bounds: <=8 leaves, <=4 proof elements, DoubleMerkleTree instantiation.",
    "design_ref": "DESIGN.md §4 C15",
    "overlays": MERKLE_OVERLAYS + [
        {"src": "C15/kani_c15.rs", "dest": "src/crypto/merkle/kani_c15.rs", "decl_in": "src/crypto/merkle.rs", "decl": "mod kani_c15;"},
    ],
    "functions": ["crypto::merkle::MerkleTree::{new,get_root,create_proof,check_proof,check_hash_proof,check_proof_last,check_hash_proof_last,derive_root,derive_hash_root,derive_hash_root_last,hash_leaf,hash_pair}  (instantiation DoubleMerkleTree)"],
    "bounds": "trees of 1..=8 leaves (32-byte leaves), proofs of 0..=4 elements, index over all of usize",
    "explanation": "Bounded symbolic verification (Kani -> CBMC -> CaDiCaL) of the real Merkle proof code compiled from /repo's working tree. Soundness harnesses: honest root in the documented shape, attacker-chosen leaf, index (any usize) and proof elements; the solver shows that acceptance implies 'that leaf at that index' (and 'last leaf' for the last-leaf variant) for every such input, one harness per (leaf count, proof length). Completeness harnesses run the real MerkleTree::new/create_proof. SHA-256 is replaced by a collision-free oracle consistent with the EMPTY_ROOTS constants.",
    "assumptions": [
        "SHA-256 (crypto::hash::hash_all) is modelled as a collision-free function consistent with the EMPTY_ROOTS recurrence; raw attacker values are not hash outputs of honest nodes",
        "proof length fixed per harness (0..=4), leaf count 1..=8; longer proofs (5..=33) and wider trees are outside the claim",
        "pointer-validity checks of CBMC are off (memory safety of std/smallvec internals is not part of the claim); Rust panics, overflow and unwinding assertions stay on",
    ],
    "trusted_base": ["hash oracle (verif_std::hash_oracle + kani_merkle::hash_all_oracle)", "RefTree reference shape written from the module documentation"],
    "outside": ["proofs longer than 4 elements", "trees wider than 8 leaves", "SliceMerkleTree with variable-length leaves (shape identical, generic code shared)"],
    "harnesses": [
        _sound("d", 1, 0, Q), _sound("d", 1, 1, T), _sound("d", 2, 0, T), _sound("d", 2, 1, Q), _sound("d", 2, 2, T),
        _sound("d", 3, 1, T), _sound("d", 3, 2, Q), _sound("d", 3, 3, T), _sound("d", 4, 2, T), _sound("d", 5, 2, T),
        _sound("d", 5, 3, T), _sound("d", 8, 3, T), _sound("d", 8, 4, T),
        _sound("l", 1, 0, Q), _sound("l", 1, 1, T), _sound("l", 2, 1, Q), _sound("l", 2, 2, T), _sound("l", 3, 1, T),
        _sound("l", 3, 2, Q), _sound("l", 3, 3, T), _sound("l", 4, 2, T), _sound("l", 5, 3, T), _sound("l", 6, 3, Q, quick_to=1500), _sound("l", 7, 3, T), _sound("l", 8, 3, T),
        _sound("d", 6, 3, T), _sound("d", 7, 3, T),
        _complete(1, T), _complete(2, Q), _complete(3, T), _complete(4, T), _complete(5, T),
    ],
}
