//! Overlay module `crate::crypto::merkle::kani_merkle` (child of `merkle`, so it sees the
//! private labels, `EMPTY_ROOTS` and the tuple constructors).  Shared by C12/C13/C15.
#![allow(dead_code, unused_imports, clippy::all)]

use super::*;
use crate::verif_std as vs;

pub(crate) fn h2w(h: &Hash) -> [u64; 4] {
    vs::bytes_to_words(&h.0)
}
pub(crate) fn w2h(w: [u64; 4]) -> Hash {
    Hash(vs::words_to_bytes(w))
}
pub(crate) fn empty_root(h: usize) -> Hash {
    EMPTY_ROOTS[h].clone()
}

/// Must be called first by every harness that uses the hash oracle.
pub(crate) fn init_oracle(levels: usize, max_calls: usize) {
    vs::draw_hash_tape(max_calls);
    #[cfg(kani)]
    {
        let mut e = [[0u64; 4]; 32];
        let mut h = 0;
        while h < 32 {
            e[h] = h2w(&EMPTY_ROOTS[h]);
            h += 1;
        }
        vs::hash_oracle::set_empty_roots(&e, levels);
    }
    let _ = levels;
}

/// An attacker-chosen 32-byte value that is not a hash output the honest side computes.
pub(crate) fn any_raw_hash() -> Hash {
    let w = vs::any_words();
    #[cfg(kani)]
    vs::hash_oracle::register_raw(w);
    w2h(w)
}

fn bytes_eq32(a: &[u8], b: &[u8; 32]) -> bool {
    if a.len() != 32 {
        return false;
    }
    let mut eq = true;
    let mut i = 0;
    while i < 32 {
        eq = eq && a[i] == b[i];
        i += 1;
    }
    eq
}

fn words_of(s: &[u8]) -> [u64; 4] {
    // s.len() == 32 checked by the caller
    let mut b = [0u8; 32];
    let mut i = 0;
    while i < 32 {
        b[i] = s[i];
        i += 1;
    }
    vs::bytes_to_words(&b)
}

/// Stub for `crate::crypto::hash::hash_all` (Kani only): the collision-free oracle of
/// `verif_std::hash_oracle`, keyed on the Merkle call shapes.
#[cfg(kani)]
pub(crate) fn hash_all_oracle(data: &[&[u8]]) -> Hash {
    use vs::hash_oracle::{Key, KW, query};
    if data.len() == 4
        && bytes_eq32(data[0], &LEFT_LABEL)
        && bytes_eq32(data[2], &RIGHT_LABEL)
        && data[1].len() == 32
        && data[3].len() == 32
    {
        let l = words_of(data[1]);
        let r = words_of(data[3]);
        let key = Key { kind: 1, len: 64, w: [l[0], l[1], l[2], l[3], r[0], r[1], r[2], r[3]] };
        return w2h(query(key));
    }
    if data.len() == 2 && bytes_eq32(data[0], &LEAF_LABEL) {
        let d = data[1];
        let n = d.len();
        if n > KW * 8 {
            vs::unsupported("hash oracle: leaf longer than 64 bytes");
        }
        let at = |i: usize| -> u8 { if i < n { d[i] } else { 0 } };
        let mut w = [0u64; KW];
        let mut j = 0;
        while j < KW {
            let o = j * 8;
            w[j] = u64::from_le_bytes([at(o), at(o + 1), at(o + 2), at(o + 3), at(o + 4), at(o + 5), at(o + 6), at(o + 7)]);
            j += 1;
        }
        let key = Key { kind: 0, len: n as u32, w };
        return w2h(query(key));
    }
    vs::unsupported("hash oracle: call shape not modelled")
}

/// Reference shape of a Merkle tree over `M ≤ 8` leaf hashes, written from the module
/// documentation: perfect binary tree, missing right siblings are the canonical empty
/// subtree of that height.  Uses the (stubbed or real) `hash_pair` of the real code.
pub(crate) struct RefTree<const M: usize> {
    /// node hashes per level; `lv[h][i]` valid for `i < n[h]`
    pub lv: [[Hash; M]; 4],
    pub n: [usize; 4],
    pub height: usize,
}

impl<const M: usize> RefTree<M> {
    pub(crate) fn build<L: MerkleLeaf, R: MerkleRoot, P: MerkleProof>(leaf_hashes: &[Hash; M]) -> Self {
        let m = M;
        assert!(m >= 1 && m <= 8);
        let z = Hash([0; 32]);
        let mut lv: [[Hash; M]; 4] = std::array::from_fn(|_| std::array::from_fn(|_| z.clone()));
        let mut n = [0usize; 4];
        let mut i = 0;
        while i < m {
            lv[0][i] = leaf_hashes[i].clone();
            i += 1;
        }
        n[0] = m;
        let mut h = 0;
        while n[h] > 1 {
            let cnt = (n[h] + 1) / 2;
            let mut i = 0;
            while i < cnt {
                let l = lv[h][2 * i].clone();
                let r = if 2 * i + 1 < n[h] { lv[h][2 * i + 1].clone() } else { EMPTY_ROOTS[h].clone() };
                lv[h + 1][i] = MerkleTree::<L, R, P>::hash_pair(&l, &r);
                i += 1;
            }
            n[h + 1] = cnt;
            h += 1;
        }
        Self { lv, n, height: h }
    }
    pub(crate) fn root(&self) -> Hash {
        self.lv[self.height][0].clone()
    }
    /// The node at `(h, i)` of the padded perfect tree (`h ≤ height`).
    pub(crate) fn node(&self, h: usize, i: usize) -> Hash {
        if i < self.n[h] { self.lv[h][i].clone() } else { EMPTY_ROOTS[h].clone() }
    }
}
