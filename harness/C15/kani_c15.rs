//! C15 harnesses (overlay module `crate::crypto::merkle::kani_c15`).
//!
//! soundness  `c15_sound_{d,l}_m<M>_k<K>`: honest tree over M symbolic 32-byte leaves in the
//!            documented shape (RefTree), attacker picks leaf, *any usize* index and K proof
//!            elements (each: any honest node, any empty-subtree constant, or a raw value);
//!            real `check_proof` (d) / `check_proof_last` (l) on `DoubleMerkleTree`.
//! completeness `c15_complete_m<M>`: real `MerkleTree::new` + `create_proof` + checks.
#![allow(dead_code, unused_imports, clippy::all)]

use super::kani_merkle::*;
use super::*;
use crate::verif_std as vs;
use crate::verif_std::{vcheck, vcover};

type DT = DoubleMerkleTree;

fn leaf_hash_d(l: &SliceRoot) -> Hash {
    DT::hash_leaf(l)
}

/// Attacker's choice of one 32-byte proof element.
fn any_proof_elem<const M: usize>(t: &RefTree<M>) -> Hash {
    let kind = vs::any_below(3);
    let h = vs::any_below(4) as usize;
    let i = vs::any_below(M as u8) as usize;
    let raw = any_raw_hash();
    match kind {
        0 => {
            vs::assume(h <= t.height);
            t.node(h, i)
        }
        1 => empty_root(h),
        _ => raw,
    }
}

fn sound_body<const M: usize, const K: usize>(last: bool) -> bool {
    // oracle calls: M leaf hashes + (M-1 .. M+2) inner nodes + 1 + K in the verifier
    init_oracle(4, 2 * M + 3 + K);
    // honest side
    let leaves: [SliceRoot; M] = std::array::from_fn(|_| SliceRoot(w2h(vs::any_words())));
    let lh: [Hash; M] = std::array::from_fn(|i| leaf_hash_d(&leaves[i]));
    let t = RefTree::build::<SliceRoot, DoubleMerkleRoot, DoubleMerkleProof>(&lh);
    let root = DoubleMerkleRoot(t.root());
    // attacker side
    let cand_sel = vs::any_below(M as u8 + 1) as usize;
    let cand_raw = vs::any_words();
    let cand = if cand_sel < M { leaves[cand_sel].clone() } else { SliceRoot(w2h(cand_raw)) };
    let index = vs::any_usize();
    let mut pv: Vec<Hash> = Vec::with_capacity(K);
    let mut j = 0;
    while j < K {
        pv.push(any_proof_elem(&t));
        j += 1;
    }
    let proof = DoubleMerkleProof(pv);

    let accepted = if last {
        DT::check_proof_last(&cand, index, &root, &proof)
    } else {
        DT::check_proof(&cand, index, &root, &proof)
    };

    if accepted {
        vcheck!(K == t.height, "accepted a proof whose length is not the tree height");
        vcheck!(index < (1usize << t.height), "accepted an index outside the tree width");
        vcheck!(index < M && cand == leaves[index], "accepted a leaf that is not the leaf at that index");
        if last {
            // 32-byte leaves are never the empty leaf, so "nothing non-empty to the right"
            // means the index is the last real position.
            vcheck!(index == M - 1, "last-leaf proof accepted for a position that is not the last leaf");
        }
    }
    std::mem::forget(proof);
    accepted
}

/// Height of the tree `MerkleTree::new` builds for `m` leaves.
const fn height_of(m: usize) -> usize {
    let mut h = 0;
    while (1usize << h) < m {
        h += 1;
    }
    h
}

/// proof length == tree height: acceptance is reachable and must be witnessed
fn acc(accepted: bool) {
    vcover!(accepted, "some proof is accepted");
    vcover!(!accepted, "some proof is rejected");
}
/// a proof of any other length can never be accepted: only rejection is witnessed
fn rej(accepted: bool) {
    vcover!(!accepted, "some proof is rejected");
}
macro_rules! sound {
    ($name:ident, $m:literal, $k:literal, $last:literal, $cov:ident) => {
        #[cfg_attr(kani, kani::proof)]
        #[cfg_attr(kani, kani::stub(crate::crypto::hash::hash_all, super::kani_merkle::hash_all_oracle))]
        #[cfg_attr(kani, kani::unwind(34))]
        #[cfg_attr(verif_replay, test)]
        fn $name() {
            $cov(sound_body::<$m, $k>($last));
        }
    };
}

sound!(c15_sound_d_m1_k0, 1, 0, false, acc);
sound!(c15_sound_d_m1_k1, 1, 1, false, rej);
sound!(c15_sound_d_m2_k0, 2, 0, false, rej);
sound!(c15_sound_d_m2_k1, 2, 1, false, acc);
sound!(c15_sound_d_m2_k2, 2, 2, false, rej);
sound!(c15_sound_d_m3_k1, 3, 1, false, rej);
sound!(c15_sound_d_m3_k2, 3, 2, false, acc);
sound!(c15_sound_d_m3_k3, 3, 3, false, rej);
sound!(c15_sound_d_m4_k2, 4, 2, false, acc);
sound!(c15_sound_d_m5_k2, 5, 2, false, rej);
sound!(c15_sound_d_m5_k3, 5, 3, false, acc);
sound!(c15_sound_d_m8_k3, 8, 3, false, acc);
sound!(c15_sound_d_m8_k4, 8, 4, false, rej);
sound!(c15_sound_l_m1_k0, 1, 0, true, acc);
sound!(c15_sound_l_m1_k1, 1, 1, true, rej);
sound!(c15_sound_l_m2_k1, 2, 1, true, acc);
sound!(c15_sound_l_m2_k2, 2, 2, true, rej);
sound!(c15_sound_l_m3_k1, 3, 1, true, rej);
sound!(c15_sound_l_m3_k2, 3, 2, true, acc);
sound!(c15_sound_l_m3_k3, 3, 3, true, rej);
sound!(c15_sound_l_m4_k2, 4, 2, true, acc);
sound!(c15_sound_l_m5_k3, 5, 3, true, acc);
sound!(c15_sound_l_m8_k3, 8, 3, true, acc);
sound!(c15_sound_l_m6_k3, 6, 3, true, acc);
sound!(c15_sound_l_m7_k3, 7, 3, true, acc);
sound!(c15_sound_d_m6_k3, 6, 3, false, acc);
sound!(c15_sound_d_m7_k3, 7, 3, false, acc);

/// Completeness on the real tree object: every created proof verifies, the last-leaf
/// variant exactly for the last leaf, and the real root has the documented shape.
fn complete_body<const M: usize>() {
    init_oracle(4, 24);
    let leaves: [SliceRoot; M] = std::array::from_fn(|_| SliceRoot(w2h(vs::any_words())));
    let tree = DT::new(leaves.iter());
    let root = tree.get_root();
    let lh: [Hash; M] = std::array::from_fn(|i| leaf_hash_d(&leaves[i]));
    let t = RefTree::build::<SliceRoot, DoubleMerkleRoot, DoubleMerkleProof>(&lh);
    vcheck!(root.0 == t.root(), "tree root differs from the documented shape");
    vcheck!(tree.height() == t.height, "tree height differs from the documented shape");
    let i = vs::any_below(M as u8) as usize;
    let proof = tree.create_proof(i);
    vcheck!(proof.0.len() == t.height, "created proof has the wrong length");
    vcheck!(DT::check_proof(&leaves[i], i, &root, &proof), "created proof does not verify");
    vcheck!(DT::derive_root(&leaves[i], i, &proof) == root, "derive_root differs from the root");
    let is_last = DT::check_proof_last(&leaves[i], i, &root, &proof);
    vcheck!(is_last == (i == M - 1), "last-leaf check wrong on a created proof");
    vcover!(is_last, "last leaf reached");
    std::mem::forget(tree);
    std::mem::forget(proof);
}

macro_rules! complete {
    ($name:ident, $m:literal) => {
        #[cfg_attr(kani, kani::proof)]
        #[cfg_attr(kani, kani::stub(crate::crypto::hash::hash_all, super::kani_merkle::hash_all_oracle))]
        #[cfg_attr(kani, kani::unwind(34))]
        #[cfg_attr(verif_replay, test)]
        fn $name() {
            complete_body::<$m>()
        }
    };
}
complete!(c15_complete_m1, 1);
complete!(c15_complete_m2, 2);
complete!(c15_complete_m3, 3);
complete!(c15_complete_m4, 4);
complete!(c15_complete_m5, 5);
