"""Overlays and import redirections shared by the pool-level harnesses (PoolImpl driven through its
public async interface).  Under Kani every std / smallvec / tokio container reachable from PoolImpl is
replaced by a bounded stand-in; native replay uses the real ones."""
import re

def redirect(file, line, repl, required=True):
    return {"file": file, "pattern": r"^" + re.escape(line) + r"$", "replacement": "#[cfg(not(kani))]\n" + line + "\n#[cfg(kani)]\n" + repl, "count": 1, "required": required}

SS = "src/consensus/pool/slot_state.rs"
POOL = "src/consensus/pool.rs"
FTR = "src/consensus/pool/finality_tracker.rs"
PT = "src/consensus/pool/parent_ready_tracker.rs"
PS = "src/consensus/pool/parent_ready_tracker/parent_ready_state.rs"

OVERLAYS = [
    {"src": "verif_coll.rs", "dest": "src/verif_coll.rs", "decl_in": "src/lib.rs", "decl": "pub mod verif_coll;"},
    {"src": "C07/c07_coll.rs", "dest": "src/c07_coll.rs", "decl_in": "src/lib.rs", "decl": "pub mod c07_coll;"},
    {"src": "kani_fix.rs", "dest": "src/consensus/kani_fix.rs", "decl_in": "src/consensus.rs", "decl": "pub(crate) mod kani_fix;"},
    {"src": "kani_aggstub.rs", "dest": "src/crypto/aggsig/kani_aggstub.rs", "decl_in": "src/crypto/aggsig.rs", "decl": "pub(crate) mod kani_aggstub;"},
    {"src": "kani_certstub.rs", "dest": "src/consensus/cert/kani_certstub.rs", "decl_in": "src/consensus/cert.rs", "decl": "pub(crate) mod kani_certstub;"},
    {"src": "kani_vv.rs", "dest": "src/consensus/validated_vote/kani_vv.rs", "decl_in": "src/consensus/validated_vote.rs", "decl": "pub(crate) mod kani_vv;"},
    {"src": "kani_vc.rs", "dest": "src/consensus/validated_cert/kani_vc.rs", "decl_in": "src/consensus/validated_cert.rs", "decl": "pub(crate) mod kani_vc;"},
    {"src": "kani_poolfix.rs", "dest": "src/consensus/pool/kani_poolfix.rs", "decl_in": POOL, "decl": "mod kani_poolfix;"},
]

REDIRECTS = [
    # slot_state.rs
    redirect(SS, "use std::collections::BTreeMap;", "use crate::verif_coll::BTreeMap;"),
    redirect(SS, "use smallvec::SmallVec;", "use crate::verif_coll::SmallVec;"),
    redirect(SS, "use super::sorted_vec::{SortedVecMap, SortedVecSet};", "use crate::verif_coll::{SortedVecMap, SortedVecSet};"),
    # pool.rs: ordered map, recording channel instead of tokio mpsc (anything reaching tokio mpsc is a Kani ICE)
    redirect(POOL, "use std::collections::BTreeMap;", "use crate::verif_coll::BTreeMap;"),
    redirect(POOL, "use tokio::sync::mpsc::Sender;", "use crate::verif_coll::chan::Sender;"),
    {"file": "src/consensus.rs", "pattern": r"^            pool_tx,\n            repair_tx,$", "replacement": "            pool_tx.into(),\n            repair_tx.into(),", "count": 1, "required": True},
    # finality_tracker.rs
    redirect(FTR, "use std::collections::BTreeMap;", "use crate::verif_coll::BTreeMap;"),
    redirect(FTR, "use std::collections::btree_map::Entry;", "use crate::verif_coll::btree_map::Entry;"),
    {"file": FTR, "pattern": r"^use crate::types::Slot;$", "replacement": "use crate::types::Slot;\n#[cfg(kani)]\nuse crate::verif_coll::Vec;", "count": 1, "required": True},
    # parent_ready_tracker: std HashMap is SipHash with nondeterministic keys (the solver would have to reason about
    # the hash function: measured, the query does not terminate); smallvec and tokio oneshot as in C07
    redirect(PT, "use std::collections::HashMap;", "use crate::c07_coll::HashMap;"),
    redirect(PT, "use smallvec::SmallVec;", "use crate::c07_coll::SmallVec;"),
    redirect(PS, "use smallvec::{SmallVec, smallvec};", "use crate::c07_coll::{SmallVec, smallvec};"),
    redirect(PT, "use tokio::sync::oneshot;", "use crate::c07_coll::oneshot;"),
    redirect(PS, "use tokio::sync::oneshot;", "use crate::c07_coll::oneshot;"),
    redirect(POOL, "use tokio::sync::{RwLock, oneshot};", "use tokio::sync::RwLock;\n#[cfg(kani)]\nuse crate::c07_coll::oneshot;"),
    redirect("src/consensus/block_producer.rs", "use tokio::sync::oneshot;", "use crate::c07_coll::oneshot;"),
]
# Kani encodes every async fn's state machine as a union and CBMC handles unions byte-wise; one nested `.await`
# is enough to exhaust memory (measured on votor.rs, C05).  In the Kani scratch tree only, the async plumbing of
# pool.rs is therefore compiled as ordinary functions, bodies verbatim: `async fn` -> `fn`, `.await` dropped (every
# await in pool.rs is on another pool fn or on the recording channel's `send`), `#[async_trait]` dropped, and the
# `.await` after the four trait methods dropped at their call sites.  Native replay runs the unmodified async code.
def _deasync_pool(text):
    i = text.index("#[cfg(test)]\nmod tests")
    head, tail = text[:i], text[i:]
    head = re.sub(r"\n\s*\.await", "", head)
    head = head.replace(".await", "")
    head = head.replace("async fn ", "fn ")
    head = head.replace("#[async_trait]\n", "")
    head = head.replace("use async_trait::async_trait;\n", "")
    return head + tail

DEASYNC = [
    {"file": POOL, "pattern": r"(?s)\A.*\Z", "replacement": None, "func": _deasync_pool, "count": 1, "required": True},
    {"file": "src/consensus.rs", "pattern": r"\.recover_from_standstill\(\)\.await", "replacement": ".recover_from_standstill()", "count": 1, "required": True},
    {"file": "src/consensus.rs", "pattern": r"\.add_vote\(vote\)\.await", "replacement": ".add_vote(vote)", "count": 1, "required": True},
    {"file": "src/consensus.rs", "pattern": r"\.add_cert\(cert\)\.await", "replacement": ".add_cert(cert)", "count": 1, "required": True},
    {"file": "src/consensus.rs", "pattern": r"(\.add_block\(block_id, block_info\.parent\))\s*\.await", "replacement": r"\1", "count": 1, "required": True},
    {"file": "src/repair.rs", "pattern": r"(\.add_block\(\(\*slot, block_info\.hash\), block_info\.parent\))\s*\.await", "replacement": r"\1", "count": 1, "required": True},
    {"file": "src/consensus/block_producer.rs", "pattern": r"(\.add_block\(block_id, block_info\.parent\))\s*\.await", "replacement": r"\1", "count": 1, "required": True},
]
REDIRECTS = REDIRECTS + DEASYNC

CBMC = ["--unwindset", "memcmp.0:34", "--max-field-sensitivity-array-size", "16"]
SIGN_STUB = "crypto::aggsig::SecretKey::sign"
ASSUMPTIONS = [
    "std BTreeMap / HashMap / Vec (finality tracker events), smallvec, SortedVecMap/Set, tokio mpsc Sender and oneshot inside the pool modules are bounded stand-ins under Kani (verif_coll.rs, C07/c07_coll.rs); native replay uses the real ones",
    "votes / certificates enter the pool already validated (C09); BLS signing is an opaque token",
    "the recording channel never blocks and is never closed (back-pressure outside the claim)",
]
