//! C19 harnesses, part 3 (overlay module `crate::consensus::vote::kani_c19_vote`, child of
//! `vote`: sees `VotePayload` and the private fields of the vote structs).
#![allow(dead_code, unused_imports, clippy::all)]

use super::*;
use crate::crypto::merkle::MerkleRoot;
use crate::crypto::aggsig::kani_c19_aggsig::{SIG_A, SIG_B, isig_bytes, pick_sig};
use crate::network::kani_c19_net::{any_bytes_w, encode_into, bytes_eq, hash_bytes, le32, le64, mk_hash, net_dec, put, roundtrip_checks};
use crate::verif_std as vs;
use crate::verif_std::{vcheck, vcover};

#[cfg_attr(kani, kani::proof)]
#[cfg_attr(kani, kani::unwind(50))]
#[cfg_attr(verif_replay, test)]
fn c19_rt_votepayload() {
    let kind = vs::any_below(5);
    let slot = vs::any_u64();
    let hb = vs::any_bytes::<32>();
    let trailing = vs::any_u8();
    let bh = BlockHash::from(mk_hash(hb));
    let v = match kind {
        0 => VotePayload::Notar(Slot::new(slot), bh),
        1 => VotePayload::NotarFallback(Slot::new(slot), bh),
        2 => VotePayload::Skip(Slot::new(slot)),
        3 => VotePayload::SkipFallback(Slot::new(slot)),
        _ => VotePayload::Final(Slot::new(slot)),
    };
    let cv_1 = kind == 1;
    let cv_2 = kind == 4;
    let (buf, n) = roundtrip_checks::<VotePayload, 48>(&v, trailing, net_dec::<VotePayload>, |a, b| a == b);
    // wire layout: u32 LE variant tag, u64 LE slot, then the 32 hash bytes
    vcheck!(n == if kind < 2 { 44 } else { 12 }, "vote payload has an unexpected encoded length");
    vcheck!(le32(&buf, 0) == kind as u32 && le64(&buf, 4) == slot, "vote payload tag or slot is not where the wire format puts it");
    if kind < 2 {
        vcheck!(bytes_eq(&buf[12..44], &hb), "vote payload block hash bytes differ");
    }
    std::mem::forget(v);
    vcover!(cv_1, "a block-carrying vote payload is encoded");
    vcover!(cv_2, "a slot-only vote payload is encoded");
}


macro_rules! bls_harness {
    ($(#[$m:meta])* fn $name:ident() $body:block) => {
        #[cfg_attr(kani, kani::proof)]
        #[cfg_attr(kani, kani::stub(log::max_level, crate::network::kani_c19_net::log_off))]
        #[cfg_attr(kani, kani::stub(blst::blst_p1_deserialize, crate::crypto::aggsig::kani_c19_aggsig::blst_model::p1_deserialize))]
        #[cfg_attr(kani, kani::stub(blst::blst_p1_affine_serialize, crate::crypto::aggsig::kani_c19_aggsig::blst_model::p1_affine_serialize))]
        #[cfg_attr(kani, kani::stub(blst::blst_p1_affine_in_g1, crate::crypto::aggsig::kani_c19_aggsig::blst_model::p1_affine_in_g1))]
        #[cfg_attr(kani, kani::stub(blst::blst_p1_affine_is_inf, crate::crypto::aggsig::kani_c19_aggsig::blst_model::p1_affine_is_inf))]
        $(#[$m])*
        #[cfg_attr(verif_replay, test)]
        fn $name() $body
    };
}

/// Offsets of the fields of an encoded `Vote` with variant tag `tag`.
fn vote_len(tag: u32) -> usize {
    if tag < 2 { 4 + 8 + 32 + 96 + 8 } else { 4 + 8 + 96 + 8 }
}

/// Arbitrary bytes through `network::deserialize::<Vote>`: variant tag (within the layout class
/// `HAS_HASH`), slot, block hash and signer fully symbolic; the buffer is the exact encoding,
/// one byte short or one byte long; the 96 signature bytes are one of {fixture A, fixture B,
/// infinity, raw bytes that are none of these}.
fn vote_bytes_body<const KIND: u32, const HAS_HASH: bool, const SIG_KIND: u8, const CAP: usize>() {
    // variant tag fixed per harness (0..=4); KIND = 5 stands for every unknown tag (symbolic)
    let drawn = vs::any_u32();
    let tag = if KIND < 5 { KIND } else { drawn };
    vs::assume(tag >= 5 || KIND < 5);
    let slot = vs::any_u64();
    let hb = vs::any_bytes::<32>();
    // signature class fixed per harness: 0 = fixture A, 1 = fixture B, 2 = infinity, 3 = raw bytes
    let sig_kind = SIG_KIND;
    let raw = if SIG_KIND == 3 { any_bytes_w::<96>() } else { [0u8; 96] };
    let signer = vs::any_u64();
    let tail = vs::any_u8();
    let dl = vs::any_below(3) as usize;

    // layout class: tags 0, 1 carry a block hash; every other tag value (valid 2..=4 or unknown) does not
    assert!((KIND < 2) == HAS_HASH);
    let sig = pick_sig(sig_kind, &raw);
    let mut buf = [0u8; CAP];
    put(&mut buf, 0, &tag.to_le_bytes());
    put(&mut buf, 4, &slot.to_le_bytes());
    let o = if HAS_HASH { 44 } else { 12 };
    if HAS_HASH {
        put(&mut buf, 12, &hb);
    }
    put(&mut buf, o, &sig);
    put(&mut buf, o + 96, &signer.to_le_bytes());
    buf[o + 104] = tail;
    let exact = o + 104;
    let len = exact + dl - 1;
    let input = &buf[..len];

    let r = net_dec::<Vote>(input);
    let expect_ok = tag < 5 && len == exact && sig_kind < 2;
    let cv_3 = SIG_KIND >= 2 || KIND == 5 || r.is_some();
    let cv_4 = r.is_none();
    let cv_5 = SIG_KIND != 2 || (r.is_none() && tag < 5 && len == exact);
    let cv_6 = SIG_KIND != 3 || (r.is_none() && tag < 5 && len == exact);
    let cv_7 = SIG_KIND >= 2 || KIND == 5 || (r.is_none() && len == exact + 1);
    let cv_8 = KIND < 5 || SIG_KIND >= 2 || (r.is_none() && len == exact);
    vcheck!(r.is_some() || !expect_ok, "vote decoder rejected a well-formed vote");
    vcheck!(r.is_none() || tag < 5, "vote decoder accepted an unknown variant tag");
    vcheck!(r.is_none() || len == exact, "vote decoder accepted a buffer of the wrong length (trailing or missing bytes)");
    vcheck!(r.is_none() || sig_kind < 2, "vote decoder accepted an invalid or infinity signature");
    if let Some(v) = r {
        vcheck!(v.slot().inner() == slot && v.signer().inner() == signer, "decoded vote slot or signer differs from the encoded one");
        let kind_ok = match &v {
            Vote::Notar(_) => tag == 0,
            Vote::NotarFallback(_) => tag == 1,
            Vote::Skip(_) => tag == 2,
            Vote::SkipFallback(_) => tag == 3,
            Vote::Final(_) => tag == 4,
        };
        vcheck!(kind_ok, "decoded vote kind differs from the encoded tag");
        if let Some(h) = v.block_hash() {
            vcheck!(HAS_HASH && bytes_eq(h.as_hash().as_ref(), &hb), "decoded vote block hash differs from the encoded one");
        } else {
            vcheck!(!HAS_HASH, "decoded vote lost its block hash");
        }
        let mut out = [0u8; CAP];
        let n = encode_into::<Vote, CAP>(&v, &mut out);
        vcheck!(bytes_eq(&out[..n], input), "re-encoding a decoded vote does not reproduce the input");
        std::mem::forget(v);
    }
    vcover!(cv_3, "a vote decodes");
    vcover!(cv_4, "some buffer is rejected");
    vcover!(cv_5, "a vote carrying the infinity signature is rejected");
    vcover!(cv_6, "a vote carrying an invalid signature encoding is rejected");
    vcover!(cv_7, "a vote with one trailing byte is rejected");
    vcover!(cv_8, "an unknown vote kind is rejected");
}

macro_rules! vote_bytes {
    ($name:ident, $kind:literal, $hash:literal, $sig:literal, $cap:literal) => {
        bls_harness! {
            #[cfg_attr(kani, kani::unwind(152))]
            fn $name() {
                vote_bytes_body::<$kind, $hash, $sig, $cap>()
            }
        }
    };
}
vote_bytes!(c19_bytes_vote_k0_sa, 0, true, 0, 149);
vote_bytes!(c19_bytes_vote_k0_sinf, 0, true, 2, 149);
vote_bytes!(c19_bytes_vote_k0_sraw, 0, true, 3, 149);
vote_bytes!(c19_bytes_vote_k1_sa, 1, true, 0, 149);
vote_bytes!(c19_bytes_vote_k2_sa, 2, false, 0, 117);
vote_bytes!(c19_bytes_vote_k3_sa, 3, false, 0, 117);
vote_bytes!(c19_bytes_vote_k4_sa, 4, false, 0, 117);
vote_bytes!(c19_bytes_vote_k4_sinf, 4, false, 2, 117);
vote_bytes!(c19_bytes_vote_k4_sraw, 4, false, 3, 117);
vote_bytes!(c19_bytes_vote_k5_sa, 5, false, 0, 117);

/// Datagram bound for the small messages: every vote kind inside a `ConsensusMessage`, and a
/// transaction whose payload length is symbolic in 0..=MAX_TRANSACTION_SIZE.
#[cfg_attr(kani, kani::proof)]
#[cfg_attr(kani, kani::unwind(10))]
#[cfg_attr(verif_replay, test)]
fn c19_mtu_vote_tx() {
    use wincode::SchemaWrite;
    use wincode::config::DefaultConfig;

    use crate::consensus::ConsensusMessage;
    use crate::crypto::aggsig::kani_c19_aggsig::mk_isig_zero;
    use crate::network::MTU_BYTES;
    use crate::{MAX_TRANSACTION_SIZE, Transaction};
    let kind = vs::any_below(6);
    let slot = Slot::new(vs::any_u64());
    let signer = ValidatorIndex::new(vs::any_u64());
    let tlen = vs::any_u16() as usize;
    vs::assume(tlen <= MAX_TRANSACTION_SIZE);
    let bh = || BlockHash::from(mk_hash([0u8; 32]));
    let sig = mk_isig_zero();
    let size = if kind == 5 {
        let mut data: Vec<u8> = Vec::with_capacity(MAX_TRANSACTION_SIZE);
        // SAFETY: tlen <= capacity; the bytes are never read (size_of of a byte vector is 8 + len)
        unsafe { data.set_len(tlen) };
        let t = Transaction(data);
        let r = <Transaction as SchemaWrite<DefaultConfig>>::size_of(&t);
        std::mem::forget(t);
        r
    } else {
        let v = match kind {
            0 => Vote::Notar(NotarVote { slot, block_hash: bh(), sig, signer }),
            1 => Vote::NotarFallback(NotarFallbackVote { slot, block_hash: bh(), sig, signer }),
            2 => Vote::Skip(SkipVote { slot, sig, signer }),
            3 => Vote::SkipFallback(SkipFallbackVote { slot, sig, signer }),
            _ => Vote::Final(FinalVote { slot, sig, signer }),
        };
        let m = ConsensusMessage::Vote(v);
        let r = <ConsensusMessage as SchemaWrite<DefaultConfig>>::size_of(&m);
        std::mem::forget(m);
        r
    };
    let size = match size {
        Ok(n) => n,
        Err(e) => {
            std::mem::forget(e);
            usize::MAX
        }
    };
    vcheck!(size <= MTU_BYTES, "a vote or transaction a correct node emits does not fit one datagram");
    let expect = match kind {
        0 | 1 => 4 + 4 + 8 + 32 + 96 + 8,
        2 | 3 | 4 => 4 + 4 + 8 + 96 + 8,
        _ => 8 + tlen,
    };
    vcheck!(size == expect, "vote or transaction size differs from the documented layout");
    vcover!(kind == 5 && tlen == MAX_TRANSACTION_SIZE, "the largest transaction is sized");
    vcover!(kind == 0, "a notar vote message is sized");
}
