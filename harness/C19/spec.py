NET = "network::kani_c19_net"
import os
OK_NEW = {"c19_bitvec_encdec_w2"}
AGG = "crypto::aggsig::kani_c19_aggsig"
VOTE = "consensus::vote::kani_c19_vote"
SHRED = "shredder::kani_c19_shred"
REPAIR = "repair::kani_c19_repair"
CERT = "consensus::cert::kani_c19_cert"
LOG_STUB = "log::max_level"
BLS_STUBS = [LOG_STUB, "blst::blst_p1_deserialize", "blst::blst_p1_affine_serialize", "blst::blst_p1_affine_in_g1", "blst::blst_p1_affine_is_inf"]
Q, T = ["quick", "thorough"], ["thorough"]

OVERLAYS = [
    {"src": "C19/kani_c19_net.rs", "dest": "src/network/kani_c19_net.rs", "decl_in": "src/network.rs", "decl": "pub(crate) mod kani_c19_net;"},
    {"src": "C19/kani_c19_shred.rs", "dest": "src/shredder/kani_c19_shred.rs", "decl_in": "src/shredder.rs", "decl": "pub(crate) mod kani_c19_shred;"},
    {"src": "C19/kani_c19_repair.rs", "dest": "src/repair/kani_c19_repair.rs", "decl_in": "src/repair.rs", "decl": "pub(crate) mod kani_c19_repair;"},
    {"src": "C19/kani_c19_cert.rs", "dest": "src/consensus/cert/kani_c19_cert.rs", "decl_in": "src/consensus/cert.rs", "decl": "pub(crate) mod kani_c19_cert;"},
    {"src": "C19/kani_c19_vote.rs", "dest": "src/consensus/vote/kani_c19_vote.rs", "decl_in": "src/consensus/vote.rs", "decl": "pub(crate) mod kani_c19_vote;"},
    {"src": "C19/kani_c19_aggsig.rs", "dest": "src/crypto/aggsig/kani_c19_aggsig.rs", "decl_in": "src/crypto/aggsig.rs", "decl": "pub(crate) mod kani_c19_aggsig;"},
]

CAP_Q = {"quick": 720, "thorough": 1500}
CAP_T = {"quick": 900, "thorough": 1500}


def _h(name, path, tiers, role, functions, bounds, covers, stubs=(), timeout=None):
    return {"name": name, "path": path, "tiers": tiers, "role": role, "functions": list(functions), "bounds": bounds,
            "stubs": list(stubs), "covers": covers, "timeout": timeout or (CAP_Q if tiers is Q else CAP_T), "mem_gb": 10}


def _index(kind, ty, maxv):
    return _h(f"c19_index_{kind}", NET, Q, f"arbitrary-bytes/{ty}",
              ["network::deserialize", f"<{ty} as SchemaRead>::read", f"<{ty} as SchemaWrite>::write (derive)", "crate::serialize"],
              f"every byte string of 0..=10 bytes (length and all contents symbolic) through network::deserialize::<{ty}>; accepted <=> exactly 8 bytes and value < {maxv}; decoded value = the integer; re-encoding = the input", 4)


ENC_T = (["quick", "thorough"] if "c19_bitvec_encdec_w2" in OK_NEW else (["thorough"] if os.environ.get("VERIF_EXPERIMENTAL") else []))
BITVEC_FNS = ["crypto::aggsig::read_bitvec", "crypto::aggsig::write_bitvec", "crypto::aggsig::bitvec_size", "bitvec::BitVec::{try_from_vec,truncate,as_raw_slice,len} (real)"]


def _bitvec(n, tiers):
    return _h(f"c19_bitvec_b{n}", AGG, tiers, "bitmask-codec", BITVEC_FNS,
              f"every buffer of exactly {n} bytes (num_bits, num_words and up to {(max(n, 16) - 16) // 8} payload words all symbolic) and every limit max_bits <= MAX_SIGNERS (symbolic) through read_bitvec under NetworkMessageConfig; accepted <=> well-formed; decoded value = (num_bits, supplied words); write_bitvec(decoded) = canonical form of the input byte for byte; bitvec_size = bytes written",
              7, [LOG_STUB])


def _tx(l, tiers):
    return _h(f"c19_rt_transaction_l{l}", NET, tiers, "round-trip/Transaction",
              ["<Transaction as SchemaWrite>::{size_of,write} (derive)", "<Transaction as SchemaRead>::read (derive)", "crate::serialize", "network::deserialize"],
              f"payload of exactly {l} arbitrary bytes; encode -> decode -> encode, plus one arbitrary trailing byte, plus truncation by one byte", 2)


def _sp(p, l, tiers):
    return _h(f"c19_rt_slicepayload_p{p}_l{l}", NET, tiers, "round-trip/SlicePayload",
              ["<SlicePayload as SchemaWrite/SchemaRead> (derive)", "SlicePayload::to_bytes", "<SlicePayload as TryFrom<&[u8]>>::try_from", "crate::serialize"],
              f"parent {'Some((slot, hash)) symbolic' if p else 'None'}, data of exactly {l} arbitrary bytes; decode through SlicePayload::try_from (exact, MAX_DATA_PER_SLICE preallocation cap)", 2)


def _rr(k, tiers, exact):
    kinds = {0: "LastSliceRoot", 1: "SliceRoot", 2: "Shred", 3: "unknown tag >= 3"}
    return _h(f"c19_bytes_repair_request_k{k}", REPAIR, tiers, "arbitrary-bytes/RepairRequest",
              ["network::deserialize", "<RepairRequest/RepairRequestType as SchemaRead/SchemaWrite> (derive)", "<SliceIndex as SchemaRead>::read", "<ShredIndex as SchemaRead>::read"],
              f"variant tag = {kinds[k]}; sender, slot, block hash, slice index, shred index fully symbolic (all 2^64 values each); buffer = the exact {exact}-byte encoding, one byte short, or one byte long", 4)


VOTE_FNS = ["network::deserialize", "<Vote/NotarVote/NotarFallbackVote/SkipVote/SkipFallbackVote/FinalVote as SchemaRead/SchemaWrite> (derive)",
            "<IndividualSignature as SchemaRead>::read", "<IndividualSignature as SchemaWrite>::{size_of,write}",
            "blst::min_sig::Signature::{sig_validate,from_bytes,deserialize,validate,serialize} (real Rust wrappers)"]
AGGSIG_FNS = ["network::deserialize", "<AggregateSignature as SchemaRead>::read", "<AggregateSignature as SchemaWrite>::{size_of,write}"] + BITVEC_FNS
SHRED_FNS = ["<Shred/ShredPayloadType/ShredPayload/SliceHeader/Signature/SliceProof as SchemaWrite/SchemaRead> (derive)", "<SliceIndex/ShredIndex as SchemaRead>::read", "network::deserialize"]
RESP_FNS = ["<RepairResponse/RepairRequestType as SchemaWrite/SchemaRead> (derive)", "network::deserialize"]

HARNESSES = [
    # 1. index decoders
    _index("slice", "SliceIndex", 1024), _index("shred", "ShredIndex", 64),
    _h("c19_bytes_sliceheader", NET, Q, "arbitrary-bytes/SliceHeader",
       ["network::deserialize", "<SliceHeader as SchemaRead/SchemaWrite> (derive)", "<SliceIndex as SchemaRead>::read"],
       "every byte string of 0..=18 bytes; accepted <=> exactly 17 bytes, slice index < 1024, is_last byte in {0,1}; decoded fields = encoded fields; re-encoding = the input", 4),
    # 2. bitmask codec
    _bitvec(15, T), _bitvec(16, T), _bitvec(24, Q), _bitvec(29, T), _bitvec(32, T), _bitvec(40, T),
    _h("c19_bitvec_limit_b280", AGG, Q, "bitmask-limit", [BITVEC_FNS[0], BITVEC_FNS[2], BITVEC_FNS[3]],
       "every buffer of exactly 280 bytes (room for 33 words) through read_bitvec with the production limit MAX_SIGNERS = 2048; decode only: accepted <=> well-formed, i.e. at most 32 words; length = num_bits <= 2048; bitvec_size = 16 + 8*ceil(num_bits/64)",
       2, [LOG_STUB]),
    _h("c19_bytes_isig", AGG, Q, "arbitrary-bytes/IndividualSignature",
       ["network::deserialize", "<IndividualSignature as SchemaRead>::read", "<IndividualSignature as SchemaWrite>::{size_of,write}", "blst::min_sig::Signature::{sig_validate,from_bytes,deserialize,validate,serialize} (real Rust wrappers)"],
       "signature bytes in {fixture A, fixture B, infinity, any other 96 bytes}; buffer = the exact 96 bytes, one byte short or one byte long; accepted <=> exact length and genuine non-infinity signature; re-encoding = input",
       4, BLS_STUBS),
    # more memory / time than its siblings: on the unchanged tree it needs 110 s and < 4 GB, but an encoder that inspects the
    # bits (seeded C19-m3: BitVec::last_one) needs > 10 GB before the solver can show the violation
    dict(_h("c19_bitvec_encdec_w2", AGG, ENC_T, "encode then decode/two-word bitmask, top word possibly empty", BITVEC_FNS,
            "bitmask of 65..=128 bits over two arbitrary 64-bit words, written by write_bitvec and read back with the production limit", 2),
         mem_gb=28, timeout={"quick": 1200, "thorough": 1500}),
    _h("c19_bytes_aggsig_b16", AGG, T, "arbitrary-bytes/AggregateSignature", AGGSIG_FNS,
       "96 signature bytes in {fixture A, fixture B, infinity, any other bytes (= not a point)} followed by exactly 16 arbitrary bytes; accepted <=> point encoding valid, bitmask well-formed and ending exactly at the end of the buffer; re-encoding = canonical form",
       5, BLS_STUBS),
    _h("c19_bytes_aggsig_b24", AGG, Q, "arbitrary-bytes/AggregateSignature", AGGSIG_FNS,
       "as c19_bytes_aggsig_b16 with 24 arbitrary bytes after the signature (one word; a declared word count of 0 leaves 8 trailing bytes => rejected)",
       5, BLS_STUBS),
    # 3. round trips
    _h("c19_rt_votepayload", VOTE, Q, "round-trip/VotePayload",
       ["<VotePayload as SchemaWrite/SchemaRead> (derive)", "crate::serialize (= Signable::bytes_to_sign)", "network::deserialize"],
       "all five vote kinds (symbolic), slot and block hash fully symbolic; encode -> decode -> encode, one arbitrary trailing byte, truncation by one byte; wire layout (u32 tag, u64 slot, 32 hash bytes) checked", 2),
    _h("c19_bytes_vote_k0_sa", VOTE, T, "arbitrary-bytes/Vote", VOTE_FNS,
       "variant tag = Notar; slot, block hash, signer fully symbolic; signature bytes = a genuine signature (fixture A); buffer = the exact 148-byte encoding, one byte short or one byte long; accepted <=> known tag, exact length and genuine signature; decoded fields = encoded; re-encoding = input",
       6, BLS_STUBS),
    _h("c19_bytes_vote_k0_sinf", VOTE, T, "arbitrary-bytes/Vote", VOTE_FNS,
       "variant tag = Notar; slot, block hash, signer fully symbolic; signature bytes = the infinity encoding; buffer = the exact 148-byte encoding, one byte short or one byte long; accepted <=> known tag, exact length and genuine signature; decoded fields = encoded; re-encoding = input",
       6, BLS_STUBS),
    _h("c19_bytes_vote_k0_sraw", VOTE, T, "arbitrary-bytes/Vote", VOTE_FNS,
       "variant tag = Notar; slot, block hash, signer fully symbolic; signature bytes = 96 arbitrary bytes that are not one of the fixtures (= not a point); buffer = the exact 148-byte encoding, one byte short or one byte long; accepted <=> known tag, exact length and genuine signature; decoded fields = encoded; re-encoding = input",
       6, BLS_STUBS),
    _h("c19_bytes_vote_k1_sa", VOTE, T, "arbitrary-bytes/Vote", VOTE_FNS,
       "variant tag = NotarFallback; slot, block hash, signer fully symbolic; signature bytes = a genuine signature (fixture A); buffer = the exact 148-byte encoding, one byte short or one byte long; accepted <=> known tag, exact length and genuine signature; decoded fields = encoded; re-encoding = input",
       6, BLS_STUBS),
    _h("c19_bytes_vote_k2_sa", VOTE, T, "arbitrary-bytes/Vote", VOTE_FNS,
       "variant tag = Skip; slot, signer fully symbolic; signature bytes = a genuine signature (fixture A); buffer = the exact 116-byte encoding, one byte short or one byte long; accepted <=> known tag, exact length and genuine signature; decoded fields = encoded; re-encoding = input",
       6, BLS_STUBS),
    _h("c19_bytes_vote_k3_sa", VOTE, T, "arbitrary-bytes/Vote", VOTE_FNS,
       "variant tag = SkipFallback; slot, signer fully symbolic; signature bytes = a genuine signature (fixture A); buffer = the exact 116-byte encoding, one byte short or one byte long; accepted <=> known tag, exact length and genuine signature; decoded fields = encoded; re-encoding = input",
       6, BLS_STUBS),
    _h("c19_bytes_vote_k4_sa", VOTE, T, "arbitrary-bytes/Vote", VOTE_FNS,
       "variant tag = Final; slot, signer fully symbolic; signature bytes = a genuine signature (fixture A); buffer = the exact 116-byte encoding, one byte short or one byte long; accepted <=> known tag, exact length and genuine signature; decoded fields = encoded; re-encoding = input",
       6, BLS_STUBS),
    _h("c19_bytes_vote_k4_sinf", VOTE, T, "arbitrary-bytes/Vote", VOTE_FNS,
       "variant tag = Final; slot, signer fully symbolic; signature bytes = the infinity encoding; buffer = the exact 116-byte encoding, one byte short or one byte long; accepted <=> known tag, exact length and genuine signature; decoded fields = encoded; re-encoding = input",
       6, BLS_STUBS),
    _h("c19_bytes_vote_k4_sraw", VOTE, T, "arbitrary-bytes/Vote", VOTE_FNS,
       "variant tag = Final; slot, signer fully symbolic; signature bytes = 96 arbitrary bytes that are not one of the fixtures (= not a point); buffer = the exact 116-byte encoding, one byte short or one byte long; accepted <=> known tag, exact length and genuine signature; decoded fields = encoded; re-encoding = input",
       6, BLS_STUBS),
    _h("c19_bytes_vote_k5_sa", VOTE, T, "arbitrary-bytes/Vote", VOTE_FNS,
       "variant tag = every unknown tag (symbolic u32 >= 5); slot, signer fully symbolic; signature bytes = a genuine signature (fixture A); buffer = the exact 116-byte encoding, one byte short or one byte long; accepted <=> known tag, exact length and genuine signature; decoded fields = encoded; re-encoding = input",
       6, BLS_STUBS),
    _tx(0, T), _tx(1, T), _tx(4, Q),
    _sp(0, 0, T), _sp(0, 4, Q), _sp(1, 2, T),
    _rr(0, T, 52), _rr(1, T, 60), _rr(2, Q, 68), _rr(3, T, 68),
    _h("c19_rt_shred_l0_p0", SHRED, T, "round-trip/Shred", SHRED_FNS,
       "data/coding tag, slot, slice index, is_last, shred index, 64 signature bytes symbolic; empty data, empty Merkle path; encode -> decode, all fields compared", 2),
    _h("c19_rt_shred_l1_p0", SHRED, T, "round-trip/Shred", SHRED_FNS, "as c19_rt_shred_l0_p0 with 1 arbitrary data byte", 2),
    _h("c19_rt_shredtrail_l2_p1", SHRED, T, "trailing-byte/Shred", SHRED_FNS,
       "shred with 2 data bytes and a 1-hash Merkle path, followed by one arbitrary byte: rejected", 2),
    _h("c19_rt_repair_response_nack", REPAIR, T, "round-trip/RepairResponse", RESP_FNS,
       "Nack echoing a fully symbolic shred request; encode -> decode, fields compared", 2),
    _h("c19_rt_repair_responsetrail_nack", REPAIR, T, "trailing-byte/RepairResponse", RESP_FNS,
       "Nack followed by one arbitrary byte: rejected", 2),
    _h("c19_rt_repair_response_root", REPAIR, T, "round-trip/RepairResponse", RESP_FNS,
       "SliceRoot response with symbolic root and an empty proof; encode -> decode, fields compared", 2),
    _h("c19_rt_repair_response_last", REPAIR, T, "round-trip/RepairResponse", RESP_FNS,
       "LastSliceRoot response with symbolic last index, root and an empty proof; encode -> decode, fields compared", 2),
    # 4. datagram bound
    _h("c19_mtu_cert", CERT, Q, "datagram-bound/certificates",
       ["<ConsensusMessage/Cert/NotarCert/NotarFallbackCert/SkipCert/FastFinalCert/FinalCert as SchemaWrite>::size_of (derive)", "<AggregateSignature as SchemaWrite>::size_of", "crypto::aggsig::bitvec_size", "network::MTU_BYTES"],
       "all five certificate kinds, validator count n symbolic in 1..=MAX_SIGNERS (2048), every combination of present halves (at least one); size = documented layout and <= 1500", 3),
    _h("c19_mtumax_cert", CERT, Q, "datagram-bound/certificates (extreme)",
       ["as c19_mtu_cert"], "n = MAX_SIGNERS, both halves, notar-fallback or skip certificate (light twin whose counterexample replays cheaply)", 2),
    _h("c19_mtu_shred", SHRED, Q, "datagram-bound/shreds",
       ["<Shred/ShredPayloadType/ShredPayload/SliceHeader/Signature/SliceProof as SchemaWrite>::size_of (derive)", "shredder::{MAX_DATA_PER_SHRED, TOTAL_SHREDS}", "network::MTU_BYTES"],
       "data length symbolic in 0..=MAX_DATA_PER_SHRED (1024), Merkle path length symbolic in 0..=log2(TOTAL_SHREDS) = 6, data/coding; size = documented layout and <= 1500", 2),
    _h("c19_mtumax_shred", SHRED, Q, "datagram-bound/shreds (extreme)", ["as c19_mtu_shred"], "data length 1024, path length 6 (light twin)", 2),
    _h("c19_mtu_repair", REPAIR, T, "datagram-bound/repair",
       ["<RepairRequest/RepairResponse as SchemaWrite>::size_of (derive)", "network::MTU_BYTES"],
       "request; LastSliceRoot / SliceRoot responses with double-Merkle proof length symbolic in 0..=log2(MAX_SLICES_PER_BLOCK) = 10; Shred response with data length <= 1024 and path length <= 6 symbolic; Nack; each <= 1500", 3),
    _h("c19_mtu_vote_tx", VOTE, Q, "datagram-bound/votes and transactions",
       ["<ConsensusMessage/Vote/NotarVote/NotarFallbackVote/SkipVote/SkipFallbackVote/FinalVote as SchemaWrite>::size_of (derive)", "<IndividualSignature as SchemaWrite>::size_of", "<Transaction as SchemaWrite>::size_of (derive)", "MAX_TRANSACTION_SIZE", "network::MTU_BYTES"],
       "all five vote kinds wrapped in ConsensusMessage; transaction payload length symbolic in 0..=MAX_TRANSACTION_SIZE (512); size = documented layout and <= 1500", 2),
    _h("c19_mtumax_repair", REPAIR, Q, "datagram-bound/repair (extreme)", ["as c19_mtu_repair"], "Shred response carrying the largest shred (light twin)", 2),
]

SPEC = {
    "property": "C19",
    "level_text": "Bounded symbolic verification (Kani -> CBMC -> CaDiCaL) of the real wire codecs compiled from /repo. (a) Arbitrary byte strings are pushed through network::deserialize for SliceIndex, ShredIndex, SliceHeader, RepairRequest, Vote and AggregateSignature and through read_bitvec: the solver shows over all contents that a buffer is accepted exactly when it is a well-formed encoding of exact length (so trailing bytes, truncation, out-of-range indices, unknown variant tags, non-boolean flags, oversized or inconsistent bitmasks are all rejected), that the decoded fields are the encoded ones, and that re-encoding gives the input back (for the signer bitmask: its canonical form, which is a fixed point, hence a stable encoding). (b) encode -> decode -> encode identity plus trailing-byte rejection for VotePayload, Transaction, SlicePayload, small Shreds and RepairResponses. (c) With the validator count symbolic over 1..=2048, the shred data length over 0..=1024 and proof lengths over their full ranges, the real SchemaWrite::size_of of every message kind a correct node emits is <= MTU_BYTES = 1500 (largest: shred repair response 1389 bytes, shred 1325, two-halved certificate 794). Sampling cannot enumerate 2^64 index values per field or all bitmask headers; the solver covers them inside the stated shapes. Not a proof: payloads, proofs and bitmasks in the decode harnesses are small, and BLS point validation is modelled.",
    "level_note": "Shapes are fixed per harness (variant class, payload length <= 4 bytes, bitmask <= 3 words for decode+encode / 33 words decode-only, proof length <= 1 in round trips); BLS12-381 point (de)serialisation and subgroup check (4 blst C functions) are replaced by a finite model that accepts exactly two genuine signatures and the point at infinity, log::max_level is pinned to Off; the shredder's data.len() <= MAX_DATA_PER_SHRED and proof heights are taken from the constants, not derived from the Reed-Solomon code; trusts Kani's MIR translation, CBMC, CaDiCaL; pointer-validity checks off.",
    "design_ref": "DESIGN.md §4 C19",
    "overlays": OVERLAYS,
    "functions": [
        "network::deserialize (deserialize_exact under NetworkMessageConfig), crate::serialize",
        "types::slice_index::<SliceIndex as SchemaRead>::read, shredder::shred_index::<ShredIndex as SchemaRead>::read",
        "crypto::aggsig::{read_bitvec, write_bitvec, bitvec_size, <AggregateSignature as SchemaRead/SchemaWrite>, <IndividualSignature as SchemaRead/SchemaWrite>}",
        "derive-generated SchemaRead/SchemaWrite/size_of of VotePayload, Vote and the five vote structs, Cert and the five certificate structs (size_of only), ConsensusMessage (size_of only), RepairRequest, RepairRequestType, RepairResponse, Shred, ShredPayloadType, ShredPayload, SliceHeader, SlicePayload, Transaction, Slot, Stake, ValidatorIndex, Hash, Signature, SliceProof, DoubleMerkleProof",
        "types::slice::<SlicePayload as TryFrom<&[u8]>>::try_from",
        "constants network::MTU_BYTES, crypto::aggsig::MAX_SIGNERS, shredder::{MAX_DATA_PER_SHRED, TOTAL_SHREDS}, types::slice_index::MAX_SLICES_PER_BLOCK",
    ],
    "bounds": "decode harnesses: buffers of 10..=280 bytes with the message shape (variant class, payload/proof/bitmask word count) fixed per harness and every field value symbolic; lengths exact, -1, +1 (all lengths 0..=N for the index and header decoders); payloads <= 4 bytes, bitmasks <= 3 words (<= 33 words decode-only), Merkle paths <= 1 hash. Size harnesses: validator count 1..=2048, shred data 0..=1024 bytes, Merkle path 0..=6, double-Merkle proof 0..=10, all symbolic.",
    "explanation": "Bounded symbolic verification (Kani -> CBMC -> CaDiCaL) of the real wire-format code compiled from /repo's working tree, through overlay child modules that reach private fields. 'bytes' harnesses feed attacker-chosen buffers to the production decode entry point network::deserialize (exact consumption, MTU-capped preallocation) and compare acceptance with an independent statement of the wire format written in the harness, then re-encode with the real encoder and compare with the input. 'rt' harnesses build a message, encode it with crate::serialize (the path of UdpNetwork::send), decode, compare, re-encode, and retry with a trailing byte and truncated. 'mtu' harnesses evaluate the real SchemaWrite::size_of - which is the exact buffer size crate::serialize allocates and the byte count send_serialized asserts against MTU_BYTES - on messages whose variable-size parts (signer bitmask, shred data, proofs) have symbolic length over the supported range. Stability of the non-canonical bitmask encodings: encode(decode(x)) is shown equal to canon(x) (minimal word count, same bits) for every accepted x; canon(x) is minimal and well-formed and minimal inputs re-encode to themselves, so the second decode/encode cycle sees identical bytes.",
    "assumptions": [
        "blst point handling (blst_p1_deserialize, blst_p1_affine_serialize, blst_p1_affine_in_g1, blst_p1_affine_is_inf) is a finite model: the in-memory point is its 96 wire bytes, a byte string is a valid point iff it is one of two genuine signatures (fixtures produced by the real signer) or the canonical infinity encoding; every other signature byte string is treated as an invalid encoding. The blst Rust wrappers and all alpenglow length/offset logic stay real; natively the real blst runs on the same fixtures",
        "log::max_level() returns Off (its initial value; no logger installed), so warn! formatting is not encoded",
        "a shred's data is at most MAX_DATA_PER_SHRED bytes and its Merkle path has log2(TOTAL_SHREDS) hashes, a double-Merkle proof has at most log2(MAX_SLICES_PER_BLOCK) hashes, a validator set has at most MAX_SIGNERS members: these are the configured constants (ReedSolomonCoder::shred computes shred_bytes = (len + pad)/32 <= 32768/32 for len <= MAX_DATA_PER_SLICE; that arithmetic is inline next to the Reed-Solomon encoder and was checked by hand, not by the solver)",
        "message shapes are fixed per harness (variant class, number of payload bytes / bitmask words / proof hashes); lengths outside those listed in `bounds` are not covered by the decode harnesses",
        "pointer-validity checks of CBMC are off; Rust panics, arithmetic overflow and unwinding assertions stay on",
        "for enums with dynamically sized variants crate::serialize is replaced by SchemaWrite::size_of + SchemaWrite::write into a fixed array with the check 'bytes written == size_of' (the condition under which crate::serialize neither panics nor truncates): CBMC 6.11 aborts with an internal error on the spare-capacity writer when its window length is symbolic",
    ],
    "trusted_base": [
        "the statement of the wire format written in the harnesses (offsets, tags, lengths, canonical bitmask form)",
        "blst model kani_c19_aggsig::blst_model and the two signature fixtures",
        "wincode 0.6 primitives (integers, Vec, Option, arrays, pod wrapper) and bitvec 1.1 are executed as compiled, not modelled",
    ],
    "outside": [
        "arbitrary-byte decoding of whole ConsensusMessage / Cert / Shred / RepairResponse values (two live BitVecs or symbolic-length Vec<Hash> decoding exceed the 10 GB cap); certificates are covered through AggregateSignature decoding, the derive code shared with Vote, and the size harnesses",
        "round trips of shreds with more than 1 data byte or a non-empty Merkle path compared field by field (memory cap); RepairResponse::Shred round trip (CBMC internal error); payloads > 4 bytes; bitmasks > 3 words with re-encoding",
        "a literal second decode/encode cycle of the bitmask inside one harness (memory cap); replaced by the canonical-form argument in `explanation`",
        "BLS/Ed25519 cryptographic validity beyond the finite model; Ed25519 signatures are plain 64-byte pods on the wire (no validation at decode)",
        "that the shredders never emit more than MAX_DATA_PER_SHRED bytes per shred (Reed-Solomon coder not encoded); validator sets larger than MAX_SIGNERS (AggregateSignature::new does not check num_bits <= MAX_SIGNERS: such a certificate still fits a datagram up to 4864 validators but every receiver rejects it)",
        "transaction payloads above MAX_TRANSACTION_SIZE are not rejected by the decoder (no length check in the derive code); the size claim is for payloads a correct node emits (<= 512 bytes => 520 bytes on the wire)",
        "serde/TOML codecs, UDP socket code (send_serialized's assert is the runtime form of the bound)",
    ],
    "harnesses": HARNESSES,
}
