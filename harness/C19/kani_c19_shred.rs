//! C19 harnesses, part 4 (overlay module `crate::shredder::kani_c19_shred`, child of `shredder`:
//! sees the private fields of `Shred`).
#![allow(dead_code, unused_imports, clippy::all)]

use wincode::SchemaWrite;
use wincode::config::DefaultConfig;

use super::*;
use crate::Slot;
use crate::crypto::Hash;
use crate::crypto::merkle::SliceProof;
use crate::network::MTU_BYTES;
use crate::network::kani_c19_net::{any_bytes_w, bytes_eq8, bytes_eq, encode_into, le32, le64, mk_hash, net_dec, put};
use crate::types::{SliceHeader, SliceIndex};
use crate::types::slice_index::MAX_SLICES_PER_BLOCK;
use crate::verif_std as vs;
use crate::verif_std::{vcheck, vcover};

/// Height of the Merkle tree over the `TOTAL_SHREDS` shreds of a slice = length of every
/// `merkle_path` the shredders attach (`tree.create_proof`).
pub(crate) const SLICE_PROOF_LEN: usize = TOTAL_SHREDS.trailing_zeros() as usize;
const _: () = assert!(1 << SLICE_PROOF_LEN == TOTAL_SHREDS);

pub(crate) fn any_slice_index(raw: u64) -> SliceIndex {
    vs::assume(raw < MAX_SLICES_PER_BLOCK as u64);
    match net_dec::<SliceIndex>(&raw.to_le_bytes()) {
        Some(i) => i,
        None => vs::unsupported("in-range slice index did not decode"),
    }
}
pub(crate) fn any_shred_index(raw: u64) -> ShredIndex {
    vs::assume(raw < TOTAL_SHREDS as u64);
    match ShredIndex::new(raw as usize) {
        Some(i) => i,
        None => vs::unsupported("in-range shred index rejected"),
    }
}
pub(crate) fn sig_from(b: &[u8; 64]) -> Signature {
    match net_dec::<Signature>(&b[..]) {
        Some(s) => s,
        None => vs::unsupported("64 signature bytes did not decode"),
    }
}

/// A shred with `data` and a Merkle path of `plen <= 6` hashes (all equal to `h`).
pub(crate) fn mk_shred(coding: bool, slot: u64, slice: SliceIndex, is_last: bool, shred: ShredIndex, data: Vec<u8>, sig: &[u8; 64], plen: usize, h: [u8; 32]) -> Shred {
    let payload = ShredPayload { header: SliceHeader { slot: Slot::new(slot), slice_index: slice, is_last }, shred_index: shred, data };
    let mut path: Vec<Hash> = Vec::with_capacity(SLICE_PROOF_LEN);
    let mut i = 0;
    while i < SLICE_PROOF_LEN {
        if i < plen {
            path.push(mk_hash(h));
        }
        i += 1;
    }
    Shred {
        payload_type: if coding { ShredPayloadType::Coding(payload) } else { ShredPayloadType::Data(payload) },
        slice_sig: sig_from(sig),
        merkle_path: SliceProof::from(path),
    }
}

/// A `Vec<u8>` of symbolic length `len <= MAX_DATA_PER_SHRED` for *size* computations only: one
/// concrete-size allocation whose length is then set (a symbolic-size or zero-filled allocation
/// makes the solver's counterexample run exceed the memory cap).  The contents are never read
/// (`size_of` of a byte vector is `8 + len`) and the vector is forgotten, never dropped.
pub(crate) fn sized_data(len: usize) -> Vec<u8> {
    assert!(len <= MAX_DATA_PER_SHRED);
    let mut v: Vec<u8> = Vec::with_capacity(MAX_DATA_PER_SHRED);
    // SAFETY: len <= capacity; u8 has no invalid bit patterns and the bytes are never read
    unsafe { v.set_len(len) };
    v
}

/// Datagram bound for shreds: every data length the Reed-Solomon coder is configured for
/// (`<= MAX_DATA_PER_SHRED`) and every Merkle path length `<= log2(TOTAL_SHREDS)`, both symbolic;
/// the size is the real derive-generated `SchemaWrite::size_of`.
#[cfg_attr(kani, kani::proof)]
#[cfg_attr(kani, kani::unwind(66))]
#[cfg_attr(verif_replay, test)]
fn c19_mtu_shred() {
    let coding = vs::any_bool();
    let slot = vs::any_u64();
    let slice = vs::any_u64();
    let is_last = vs::any_bool();
    let shred = vs::any_u64();
    let dlen = vs::any_u16() as usize;
    let plen = vs::any_below(SLICE_PROOF_LEN as u8 + 1) as usize;
    vs::assume(dlen <= MAX_DATA_PER_SHRED);
    let s = mk_shred(coding, slot, any_slice_index(slice), is_last, any_shred_index(shred), sized_data(dlen), &[0u8; 64], plen, [0u8; 32]);
    let size = match <Shred as SchemaWrite<DefaultConfig>>::size_of(&s) {
        Ok(n) => n,
        Err(e) => {
            std::mem::forget(e);
            usize::MAX
        }
    };
    let cv_1 = dlen == MAX_DATA_PER_SHRED && plen == SLICE_PROOF_LEN && size > 1300;
    let cv_2 = dlen == 0 && plen == 0;
    vcheck!(size <= MTU_BYTES, "a shred the shredder can produce does not fit one datagram");
    vcheck!(size == 4 + 17 + 8 + 8 + dlen + 64 + 8 + 32 * plen, "shred size differs from the documented layout");
    std::mem::forget(s);
    vcover!(cv_1, "the largest shred is sized");
    vcover!(cv_2, "the smallest shred is sized");
}

/// The same bound at the one concrete extreme (largest data, full-height path): a light harness
/// whose counterexample, should the bound ever break, replays cheaply.
#[cfg_attr(kani, kani::proof)]
#[cfg_attr(kani, kani::unwind(10))]
#[cfg_attr(verif_replay, test)]
fn c19_mtumax_shred() {
    let coding = vs::any_bool();
    let slot = vs::any_u64();
    let slice = vs::any_u64();
    let is_last = vs::any_bool();
    let shred = vs::any_u64();
    let s = mk_shred(coding, slot, any_slice_index(slice), is_last, any_shred_index(shred), vec![0u8; MAX_DATA_PER_SHRED], &[0u8; 64], SLICE_PROOF_LEN, [0u8; 32]);
    let size = match <Shred as SchemaWrite<DefaultConfig>>::size_of(&s) {
        Ok(n) => n,
        Err(e) => {
            std::mem::forget(e);
            usize::MAX
        }
    };
    vcheck!(size <= MTU_BYTES, "the largest shred the shredder can produce does not fit one datagram");
    vcheck!(size == 4 + 17 + 8 + 8 + MAX_DATA_PER_SHRED + 64 + 8 + 32 * SLICE_PROOF_LEN, "shred size differs from the documented layout");
    vcover!(coding, "a coding shred is sized");
    vcover!(!coding, "a data shred is sized");
    std::mem::forget(s);
}

/// Encode -> decode of a small shred (data `L` bytes, Merkle path `P` hashes); `TRAIL` appends
/// one arbitrary byte, which must make the decoder reject.
fn shred_rt_body<const L: usize, const P: usize, const CAP: usize, const TRAIL: bool>() {
    let coding = vs::any_bool();
    let slot = vs::any_u64();
    let slice = vs::any_u64();
    let is_last = vs::any_bool();
    let shred = vs::any_u64();
    let data = vs::any_bytes::<L>();
    let sig = any_bytes_w::<64>();
    let h = any_bytes_w::<32>();
    let trailing = vs::any_u8();
    let mut dv = Vec::with_capacity(L);
    let mut i = 0;
    while i < L {
        dv.push(data[i]);
        i += 1;
    }
    let s = mk_shred(coding, slot, any_slice_index(slice), is_last, any_shred_index(shred), dv, &sig, P, h);
    let mut buf = [0u8; CAP];
    let n = encode_into::<Shred, CAP>(&s, &mut buf);
    vcheck!(n + 1 == CAP, "shred has an unexpected encoded length");
    buf[CAP - 1] = trailing;
    let cv_3 = coding;
    let cv_4 = !coding;
    if TRAIL {
        let r = net_dec::<Shred>(&buf[..CAP]);
        vcheck!(r.is_none(), "a trailing byte after an encoded shred was accepted");
        std::mem::forget(r);
    } else {
        let r = net_dec::<Shred>(&buf[..CAP - 1]);
        vcheck!(r.is_some(), "decoding an encoded shred failed");
        if let Some(s2) = r {
            let (p, q) = (s.payload(), s2.payload());
            vcheck!(s.is_coding() == s2.is_coding(), "data/coding tag changed in the round trip");
            vcheck!(p.header.slot == q.header.slot && p.header.slice_index == q.header.slice_index && p.header.is_last == q.header.is_last && p.shred_index == q.shred_index, "shred header changed in the round trip");
            vcheck!(q.data.len() == L, "shred data length changed in the round trip");
            let mut same = true;
            let mut i = 0;
            while i < L {
                same = same && i < q.data.len() && q.data[i] == data[i];
                i += 1;
            }
            vcheck!(same, "shred data changed in the round trip");
            let path2 = s2.merkle_path.as_ref();
            vcheck!(path2.len() == P, "shred Merkle path length changed in the round trip");
            let hh = mk_hash(h);
            let mut same = true;
            let mut j = 0;
            while j < P {
                same = same && j < path2.len() && path2[j] == hh;
                j += 1;
            }
            vcheck!(same, "shred Merkle path changed in the round trip");
            let sb = crate::serialize(&s2.slice_sig);
            vcheck!(bytes_eq8(&sb, &sig), "shred signature bytes changed in the round trip");
            std::mem::forget(sb);
            std::mem::forget(s2);
        }
    }
    std::mem::forget(s);
    vcover!(cv_3, "a coding shred is encoded");
    vcover!(cv_4, "a data shred is encoded");
}
macro_rules! shred_rt {
    ($name:ident, $l:literal, $p:literal, $cap:literal, $trail:literal) => {
        #[cfg_attr(kani, kani::proof)]
        #[cfg_attr(kani, kani::unwind(12))]
        #[cfg_attr(verif_replay, test)]
        fn $name() {
            shred_rt_body::<$l, $p, $cap, $trail>()
        }
    };
}
// CAP = 4 + 17 + 8 + 8 + L + 64 + 8 + 32 P + 1
shred_rt!(c19_rt_shred_l0_p0, 0, 0, 110, false);
shred_rt!(c19_rt_shred_l1_p0, 1, 0, 111, false);
shred_rt!(c19_rt_shredtrail_l2_p1, 2, 1, 144, true);
