//! C19 harnesses, part 1 (overlay module `crate::network::kani_c19_net`).
//!
//! * `c19_index_slice` / `c19_index_shred`: arbitrary bytes through the real
//!   `network::deserialize::<SliceIndex|ShredIndex>`.
//! * shared helpers for the other C19 overlay modules (`sym_input`, `bytes_eq`, ...).
#![allow(dead_code, unused_imports, clippy::all)]

use crate::shredder::{ShredIndex, TOTAL_SHREDS};
use crate::types::SliceIndex;
use crate::types::slice_index::MAX_SLICES_PER_BLOCK;
use crate::verif_std as vs;
use crate::verif_std::{vcheck, vcover};

/// Stub for `log::max_level` (Kani only): no logger is installed, logging is off.  Natively the
/// real function returns the same value (the static's initial value `Off`).
#[cfg(kani)]
pub(crate) fn log_off() -> log::LevelFilter {
    log::LevelFilter::Off
}

/// Byte-wise equality with concrete loop bound `a.len()` (lengths are checked first).
pub(crate) fn bytes_eq(a: &[u8], b: &[u8]) -> bool {
    if a.len() != b.len() {
        return false;
    }
    let mut eq = true;
    let mut i = 0;
    while i < a.len() {
        eq = eq && a[i] == b[i];
        i += 1;
    }
    eq
}

/// Byte-wise equality in 8-byte strides (ceil(n/8)+7 loop iterations instead of n).
pub(crate) fn bytes_eq8(a: &[u8], b: &[u8]) -> bool {
    if a.len() != b.len() {
        return false;
    }
    let n = a.len();
    let mut eq = true;
    let mut i = 0;
    while i + 8 <= n {
        eq = eq && le64(a, i) == le64(b, i);
        i += 8;
    }
    while i < n {
        eq = eq && a[i] == b[i];
        i += 1;
    }
    eq
}

/// `N` arbitrary bytes drawn as `N / 8` words (`N` a multiple of 8): no `N`-iteration loop.
pub(crate) fn any_bytes_w<const N: usize>() -> [u8; N] {
    let mut out = [0u8; N];
    let mut i = 0;
    while i < N / 8 {
        let w = vs::any_u64().to_le_bytes();
        out[i * 8] = w[0];
        out[i * 8 + 1] = w[1];
        out[i * 8 + 2] = w[2];
        out[i * 8 + 3] = w[3];
        out[i * 8 + 4] = w[4];
        out[i * 8 + 5] = w[5];
        out[i * 8 + 6] = w[6];
        out[i * 8 + 7] = w[7];
        i += 1;
    }
    out
}

/// Little-endian u64 of `b[o..o + 8]`.
pub(crate) fn le64(b: &[u8], o: usize) -> u64 {
    u64::from_le_bytes([b[o], b[o + 1], b[o + 2], b[o + 3], b[o + 4], b[o + 5], b[o + 6], b[o + 7]])
}

pub(crate) fn le32(b: &[u8], o: usize) -> u32 {
    u32::from_le_bytes([b[o], b[o + 1], b[o + 2], b[o + 3]])
}

/// Copies `src` into `dst[o..]` with a concrete bound.
pub(crate) fn put(dst: &mut [u8], o: usize, src: &[u8]) {
    let mut i = 0;
    while i < src.len() {
        dst[o + i] = src[i];
        i += 1;
    }
}

macro_rules! index_harness {
    ($name:ident, $ty:ty, $max:expr, $inner:expr) => {
        #[cfg_attr(kani, kani::proof)]
        #[cfg_attr(kani, kani::unwind(12))]
        #[cfg_attr(verif_replay, test)]
        fn $name() {
            // 0..=10 arbitrary bytes: too short, exact, one and two trailing bytes
            let buf = vs::any_bytes::<10>();
            let len = vs::any_below(11) as usize;
            let input = &buf[..len];
            let r = crate::network::deserialize::<$ty>(input);
            let raw = le64(&buf, 0);
            let expect_ok = len == 8 && raw < $max as u64;
            let cv_1 = r.is_ok();
            let cv_2 = r.is_err() && len == 8;
            let cv_3 = r.is_err() && len == 9 && raw < $max as u64;
            let cv_4 = r.is_err() && len < 8;
            vcheck!(r.is_ok() || !expect_ok, "index decoder rejected an exact-length in-range encoding");
            vcheck!(r.is_err() || len == 8, "index decoder accepted a buffer that is not exactly 8 bytes");
            vcheck!(r.is_err() || raw < $max as u64, "index decoder accepted an out-of-range index");
            if let Ok(v) = r {
                let f: fn(&$ty) -> usize = $inner;
                vcheck!(f(&v) as u64 == raw, "decoded index differs from the encoded integer");
                let out = crate::serialize(&v);
                vcheck!(bytes_eq(&out, input), "re-encoding a decoded index does not reproduce the input");
                std::mem::forget(out);
            } else {
                std::mem::forget(r);
            }
            vcover!(cv_1, "some index decodes");
            vcover!(cv_2, "an exact-length index is rejected (out of range)");
            vcover!(cv_3, "an in-range index with a trailing byte is rejected");
            vcover!(cv_4, "a short buffer is rejected");
        }
    };
}

index_harness!(c19_index_slice, SliceIndex, MAX_SLICES_PER_BLOCK, |v| v.inner());
index_harness!(c19_index_shred, ShredIndex, TOTAL_SHREDS, |v| v.inner());

// ---------------------------------------------------------------------------------------
// generic encode -> decode -> encode helper
// ---------------------------------------------------------------------------------------
use wincode::config::DefaultConfig;
use wincode::{SchemaRead, SchemaWrite};

use crate::crypto::Hash;
use crate::crypto::merkle::BlockHash;
use crate::network::{MTU_BYTES, NetworkMessageConfig};
use crate::types::{SliceHeader, SlicePayload};
use crate::{Slot, Transaction};

pub(crate) fn mk_hash(b: [u8; 32]) -> Hash {
    crate::crypto::aggsig::kani_c19_aggsig::mk_hash(b)
}
pub(crate) fn hash_bytes(h: &Hash) -> [u8; 32] {
    let s: &[u8] = h.as_ref();
    let mut b = [0u8; 32];
    put(&mut b, 0, s);
    b
}

/// The checks every "value" round-trip harness makes, on the real encode path of
/// `UdpNetwork::send` (`crate::serialize`, `DefaultConfig`) and a caller-supplied decode
/// (normally `network::deserialize`, `NetworkMessageConfig`).  Returns the encoding (first
/// `n` bytes of the array) for layout checks by the caller.
pub(crate) fn roundtrip_checks<T, const CAP: usize>(
    v: &T,
    trailing: u8,
    dec: impl Fn(&[u8]) -> Option<T>,
    same: impl Fn(&T, &T) -> bool,
) -> ([u8; CAP], usize)
where
    T: SchemaWrite<DefaultConfig, Src = T>,
{
    let size = match <T as SchemaWrite<DefaultConfig>>::size_of(v) {
        Ok(s) => s,
        Err(e) => {
            std::mem::forget(e);
            usize::MAX
        }
    };
    let bytes = crate::serialize(v);
    let n = bytes.len();
    vcheck!(size == n, "size_of differs from the number of bytes the encoder writes");
    vcheck!(n <= MTU_BYTES, "an encoded message does not fit one datagram");
    if n + 1 > CAP {
        vs::unsupported("round-trip buffer too small");
    }
    let mut buf = [0u8; CAP];
    put(&mut buf, 0, &bytes);
    buf[n] = trailing;

    let r = dec(&buf[..n]);
    vcheck!(r.is_some(), "decoding an encoded message failed");
    if let Some(v2) = r {
        vcheck!(same(v, &v2), "decode(encode(v)) differs from v");
        let b2 = crate::serialize(&v2);
        vcheck!(bytes_eq(&b2, &bytes), "encode(decode(encode(v))) differs from encode(v)");
        std::mem::forget(b2);
        std::mem::forget(v2);
    }
    let r = dec(&buf[..n + 1]);
    vcheck!(r.is_none(), "a trailing byte after an encoded message was accepted");
    std::mem::forget(r);
    if n > 0 {
        let r = dec(&buf[..n - 1]);
        vcheck!(r.is_none(), "a truncated message was accepted");
        std::mem::forget(r);
    }
    std::mem::forget(bytes);
    (buf, n)
}

/// The real `SchemaWrite::size_of` and `SchemaWrite::write` of `T` on a fixed array.
/// `crate::serialize` (`wincode::serialize`) reserves exactly `size_of(v)` bytes and panics when
/// `write` needs more; here `write` gets the whole array and the byte count is compared with
/// `size_of` afterwards, which is the same condition.  (Used instead of `crate::serialize` for
/// enums with dynamically sized variants: there CBMC 6.11 aborts with an internal error when the
/// writer window has a symbolic length.)
pub(crate) fn encode_into<T, const CAP: usize>(v: &T, out: &mut [u8; CAP]) -> usize
where
    T: SchemaWrite<DefaultConfig, Src = T>,
{
    let size = match <T as SchemaWrite<DefaultConfig>>::size_of(v) {
        Ok(s) => s,
        Err(e) => {
            std::mem::forget(e);
            usize::MAX
        }
    };
    vcheck!(size != usize::MAX, "size_of failed on an in-memory message");
    let mut w: &mut [u8] = &mut out[..];
    let r = <T as SchemaWrite<DefaultConfig>>::write(&mut w, v);
    let left = w.len();
    if r.is_err() {
        vs::unsupported("encode buffer too small");
    }
    std::mem::forget(r);
    let n = CAP - left;
    vcheck!(n == size, "size_of differs from the number of bytes the encoder writes");
    vcheck!(n <= MTU_BYTES, "an encoded message does not fit one datagram");
    n
}

/// `network::deserialize` with the error forgotten (dropping `ReadError` drags in the drop glue
/// of `std::io::Error`, a `dyn` dispatch CBMC over-approximates at great cost).
pub(crate) fn net_dec<T>(b: &[u8]) -> Option<T>
where
    T: for<'de> SchemaRead<'de, NetworkMessageConfig, Dst = T>,
{
    match crate::network::deserialize::<T>(b) {
        Ok(v) => Some(v),
        Err(e) => {
            std::mem::forget(e);
            None
        }
    }
}

/// A `Vec<u8>` of symbolic length `len <= N` holding the first `len` bytes of `data`.
pub(crate) fn sym_vec<const N: usize>(data: &[u8; N], len: usize) -> Vec<u8> {
    let mut v = Vec::with_capacity(N);
    let mut i = 0;
    while i < N {
        if i < len {
            v.push(data[i]);
        }
        i += 1;
    }
    v
}

// ---------------------------------------------------------------------------------------
// VotePayload (the bytes every vote signature covers), Transaction, SlicePayload
// ---------------------------------------------------------------------------------------

/// A transaction of exactly `L` arbitrary payload bytes.
fn tx_body<const L: usize, const CAP: usize>() {
    let data = vs::any_bytes::<L>();
    let trailing = vs::any_u8();
    let v = Transaction(sym_vec(&data, L));
    let cv_5 = trailing == 0;
    let cv_6 = trailing != 0;
    let (buf, n) = roundtrip_checks::<Transaction, CAP>(&v, trailing, net_dec::<Transaction>, |a, b| a.0 == b.0);
    vcheck!(n == 8 + L && le64(&buf, 0) == L as u64, "transaction is not length-prefixed payload bytes");
    vcheck!(bytes_eq(&buf[8..n], &data[..]), "transaction payload bytes differ");
    std::mem::forget(v);
    vcover!(cv_5, "a zero trailing byte is tried");
    vcover!(cv_6, "a non-zero trailing byte is tried");
}
macro_rules! tx_harness {
    ($name:ident, $l:literal, $cap:literal) => {
        #[cfg_attr(kani, kani::proof)]
        #[cfg_attr(kani, kani::unwind(36))]
        #[cfg_attr(verif_replay, test)]
        fn $name() {
            tx_body::<$l, $cap>()
        }
    };
}
tx_harness!(c19_rt_transaction_l0, 0, 9);
tx_harness!(c19_rt_transaction_l1, 1, 10);
tx_harness!(c19_rt_transaction_l4, 4, 13);

/// A slice payload with `L` data bytes, with or without parent.
fn slicepayload_body<const PARENT: bool, const L: usize, const CAP: usize>() {
    let pslot = vs::any_u64();
    let hb = vs::any_bytes::<32>();
    let data = vs::any_bytes::<L>();
    let trailing = vs::any_u8();
    let parent = if PARENT { Some((Slot::new(pslot), BlockHash::from(mk_hash(hb)))) } else { None };
    let v = SlicePayload::new(parent, sym_vec(&data, L));
    let cv_7 = trailing == 0;
    let cv_8 = trailing != 0;
    let dec = |b: &[u8]| match SlicePayload::try_from(b) {
        Ok(p) => Some(p),
        Err(_) => None,
    };
    let (buf, n) = roundtrip_checks::<SlicePayload, CAP>(&v, trailing, dec, |a, b| a == b);
    vcheck!(n == 1 + if PARENT { 40 } else { 0 } + 8 + L, "slice payload has an unexpected encoded length");
    vcheck!(buf[0] == PARENT as u8, "slice payload option tag differs");
    std::mem::forget(v);
    vcover!(cv_7, "a zero trailing byte is tried");
    vcover!(cv_8, "a non-zero trailing byte is tried");
}
macro_rules! sp_harness {
    ($name:ident, $p:literal, $l:literal, $cap:literal) => {
        #[cfg_attr(kani, kani::proof)]
        #[cfg_attr(kani, kani::unwind(60))]
        #[cfg_attr(verif_replay, test)]
        fn $name() {
            slicepayload_body::<$p, $l, $cap>()
        }
    };
}
sp_harness!(c19_rt_slicepayload_p0_l0, false, 0, 10);
sp_harness!(c19_rt_slicepayload_p0_l4, false, 4, 14);
sp_harness!(c19_rt_slicepayload_p1_l2, true, 2, 52);

/// Arbitrary 0..=18 bytes through `network::deserialize::<SliceHeader>` (replicated in every shred).
#[cfg_attr(kani, kani::proof)]
#[cfg_attr(kani, kani::unwind(20))]
#[cfg_attr(verif_replay, test)]
fn c19_bytes_sliceheader() {
    let buf = vs::any_bytes::<18>();
    let len = vs::any_below(19) as usize;
    let input = &buf[..len];
    let r = net_dec::<SliceHeader>(input);
    let slot = le64(&buf, 0);
    let idx = le64(&buf, 8);
    let flag = buf[16];
    let expect_ok = len == 17 && idx < MAX_SLICES_PER_BLOCK as u64 && flag <= 1;
    let cv_9 = r.is_some();
    let cv_10 = r.is_none() && len == 17 && idx < MAX_SLICES_PER_BLOCK as u64;
    let cv_11 = r.is_none() && len == 17 && flag <= 1;
    let cv_12 = r.is_none() && len == 18 && idx < MAX_SLICES_PER_BLOCK as u64 && flag <= 1;
    vcheck!(r.is_some() || !expect_ok, "slice header decoder rejected a well-formed header");
    vcheck!(r.is_none() || len == 17, "slice header decoder accepted a buffer that is not exactly 17 bytes");
    vcheck!(r.is_none() || idx < MAX_SLICES_PER_BLOCK as u64, "slice header decoder accepted an out-of-range slice index");
    vcheck!(r.is_none() || flag <= 1, "slice header decoder accepted a non-boolean is_last byte");
    if let Some(h) = r {
        vcheck!(h.slot.inner() == slot && h.slice_index.inner() as u64 == idx && h.is_last == (flag == 1), "decoded slice header fields differ from the encoded ones");
        let out = crate::serialize(&h);
        vcheck!(bytes_eq(&out, input), "re-encoding a decoded slice header does not reproduce the input");
        std::mem::forget(out);
    }
    vcover!(cv_9, "some slice header decodes");
    vcover!(cv_10, "a header with a non-boolean is_last byte is rejected");
    vcover!(cv_11, "a header with an out-of-range slice index is rejected");
    vcover!(cv_12, "a header with a trailing byte is rejected");
}
