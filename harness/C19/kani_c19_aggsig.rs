//! C19 harnesses, part 2 (overlay module `crate::crypto::aggsig::kani_c19_aggsig`, child of
//! `aggsig`, so it sees `read_bitvec`, `write_bitvec`, `bitvec_size`, `MAX_SIGNERS` and the
//! private fields of the signature wrappers).
#![allow(dead_code, unused_imports, clippy::all)]

use wincode::config::DefaultConfig;

use super::*;
use crate::network::NetworkMessageConfig;
use crate::network::kani_c19_net::{any_bytes_w, bytes_eq, le64, put};
use crate::verif_std as vs;
use crate::verif_std::{vcheck, vcover};

pub(crate) const MAX_SIGNERS_C: usize = MAX_SIGNERS;
pub(crate) const SIG_BYTES: usize = UNCOMPRESSED_SIG_SIZE;

/// `Hash`'s field is `pub(super)` of `crypto`; this module is a descendant of `crypto`.
pub(crate) fn mk_hash(b: [u8; 32]) -> crate::crypto::Hash {
    crate::crypto::Hash(b)
}

/// Encodes with the real `write_bitvec` into a fixed buffer; returns the number of bytes
/// written, or `None` when the writer reported an error.
fn encode_bitvec<const CAP: usize>(bv: &BitVec, out: &mut [u8; CAP]) -> Option<usize> {
    let mut w: &mut [u8] = &mut out[..];
    let r = write_bitvec::<DefaultConfig>(&mut w, bv);
    let left = w.len();
    match r {
        Ok(()) => Some(CAP - left),
        Err(e) => {
            std::mem::forget(e);
            None
        }
    }
}

/// What the documented wire format of a bitmask says about a raw buffer: `num_bits` (u64 LE),
/// `num_words` (u64 LE), then `num_words` little-endian 64-bit words.
pub(crate) struct BitvecHeader {
    pub num_bits: u64,
    pub words: u64,
    /// the declared words are all inside the buffer
    pub fits: bool,
    /// fits, at most MAX_SIGNERS/64 words, and no more bits than the words hold
    pub well_formed: bool,
    /// number of words of the minimal encoding of `num_bits` bits
    pub min_words: u64,
}

pub(crate) fn bitvec_header(buf: &[u8], o: usize) -> BitvecHeader {
    bitvec_header_max(buf, o, MAX_SIGNERS)
}

pub(crate) fn bitvec_header_max(buf: &[u8], o: usize, max_bits: usize) -> BitvecHeader {
    let n = buf.len();
    let have_header = n >= o + 16;
    let num_bits = if have_header { le64(buf, o) } else { 0 };
    let words = if have_header { le64(buf, o + 8) } else { 0 };
    let fits = have_header && words <= ((n - o - 16) / 8) as u64;
    let max_words = (max_bits / 64 + (max_bits % 64 != 0) as usize) as u64;
    let well_formed = fits && words <= max_words && num_bits <= 64 * words;
    let min_words = num_bits / 64 + (num_bits % 64 != 0) as u64;
    BitvecHeader { num_bits, words, fits, well_formed, min_words }
}

/// `c19_bitvec_b<N>`: a buffer of exactly `N` arbitrary bytes through the real `read_bitvec`
/// with the production limit `MAX_SIGNERS`, then the real `write_bitvec` / `bitvec_size`.
///
/// Checked: accepted <=> well-formed; decoded value = (num_bits, the supplied words);
/// encode(decode(x)) = canon(x) := num_bits, ceil(num_bits/64), the first ceil(num_bits/64)
/// words of x, byte for byte.  canon(x) is itself well-formed and minimal and canon(canon(x)) =
/// canon(x), so together with "minimal x re-encodes to x" (the same check) the encoding is stable:
/// a second decode sees the very same bytes the first encode produced.
fn bitvec_body<const N: usize, const W: usize>() {
    let buf = vs::any_bytes::<N>();
    // the limit is a parameter of `read_bitvec`; production passes MAX_SIGNERS, small limits make
    // the "too many words" rejection reachable with small buffers
    let max_bits = vs::any_u16() as usize;
    vs::assume(max_bits <= MAX_SIGNERS);
    let input: &[u8] = &buf[..];
    let mut rd: &[u8] = input;
    let r = read_bitvec::<NetworkMessageConfig>(&mut rd, max_bits);
    let consumed = N - rd.len();
    let h = bitvec_header_max(input, 0, max_bits);
    let (num_bits, words) = (h.num_bits, h.words);
    let max_words = ((max_bits + 63) / 64) as u64;
    let cv_1 = N < 24 || (r.is_err() && h.fits && words > max_words && num_bits <= 64 * words);
    let cv_2 = max_bits == MAX_SIGNERS;

    let cv_3 = r.is_ok() || N < 16;
    let cv_4 = r.is_err();
    let cv_5 = (r.is_ok() && num_bits % 64 != 0) || N < 24;
    let cv_6 = (h.fits && words <= max_words && num_bits > 64 * words) || N < 16;

    let mut cv_nonmin = N < 24;
    vcheck!(r.is_ok() || !h.well_formed, "read_bitvec rejected a well-formed bitmask encoding");
    vcheck!(r.is_err() || h.well_formed, "read_bitvec accepted a malformed bitmask encoding");
    if let Ok(bv) = r {
        vcheck!(bv.len() as u64 == num_bits, "decoded bitmask length differs from the encoded bit count");
        vcheck!(bv.len() <= max_bits.next_multiple_of(64) && bv.len() <= MAX_SIGNERS, "decoded bitmask is longer than the limit (rounded up to whole words)");
        vcheck!(consumed as u64 == 16u64.wrapping_add(8u64.wrapping_mul(words)), "read_bitvec consumed a different number of bytes than the encoding declares");
        let raw = bv.as_raw_slice();
        vcheck!(raw.len() as u64 == h.min_words, "decoded bitmask does not own exactly ceil(num_bits/64) words");
        // the words are the supplied words (so every live bit is the encoded bit)
        let mut same = true;
        let mut i = 0;
        while i < W {
            if i < raw.len() {
                same = same && raw[i] as u64 == le64(&buf, 16 + 8 * i);
            }
            i += 1;
        }
        vcheck!(same, "decoded bitmask words differ from the encoded words");

        // encode(decode(x)) == canon(x)
        let mut out1 = [0u8; N];
        let n1 = encode_bitvec::<N>(&bv, &mut out1);
        vcheck!(n1.is_some(), "write_bitvec failed on a decoded bitmask");
        let n1 = n1.unwrap_or(0);
        vcheck!(n1 == bitvec_size(&bv), "bitvec_size differs from the number of bytes write_bitvec produces");
        vcheck!(n1 as u64 == 16 + 8 * h.min_words, "re-encoding is not the minimal encoding");
        cv_nonmin = cv_nonmin || words != h.min_words;
        let mut canon = [0u8; N];
        put(&mut canon, 0, &num_bits.to_le_bytes());
        put(&mut canon, 8, &h.min_words.to_le_bytes());
        let mut i = 16;
        while i < N {
            if i < n1 {
                canon[i] = buf[i];
            }
            i += 1;
        }
        vcheck!(n1 <= N && bytes_eq(&out1[..n1], &canon[..n1]), "re-encoding differs from the canonical form of the input (not stable)");
        std::mem::forget(bv);
    } else {
        std::mem::forget(r);
    }
    vcover!(cv_1, "a bitmask with more words than the limit allows is rejected");
    vcover!(cv_2, "the production limit is tried");
    vcover!(cv_3, "some buffer decodes to a bitmask");
    vcover!(cv_4, "some buffer is rejected");
    vcover!(cv_5, "a bitmask with dead bits in its last word decodes");
    vcover!(cv_6, "a bit count beyond the supplied words is seen");
    vcover!(cv_nonmin, "a non-minimal encoding (spare words) is accepted");
}

/// `c19_bitvec_encdec_w2`: the other direction for bitmasks of more than one word - a bitmask of
/// 65..=128 bits over two arbitrary words (the TOP word may be empty: no signer among the highest
/// indices) is written by the real `write_bitvec` and must then be accepted by the real
/// `read_bitvec` with the production limit, with the same length and the same live bits, consuming
/// exactly what was written; `bitvec_size` is the number of bytes written.
fn bitvec_encdec_w2_body() {
    let w0 = vs::any_u64();
    let w1 = vs::any_u64();
    let n = 65 + vs::any_below(64) as usize;
    let mut words: Vec<usize> = Vec::with_capacity(2);
    words.push(w0 as usize);
    words.push(w1 as usize);
    let mut bv = match BitVec::try_from_vec(words) {
        Ok(b) => b,
        Err(_) => {
            vcheck!(false, "two words do not make a bitmask");
            return;
        }
    };
    bv.truncate(n);
    let mut buf = [0u8; 40];
    let len = encode_bitvec::<40>(&bv, &mut buf);
    vcheck!(len.is_some(), "write_bitvec failed on a well-formed bitmask");
    let len = len.unwrap_or(0);
    vcheck!(len == bitvec_size(&bv), "bitvec_size differs from the number of bytes write_bitvec produces");
    let mut rd: &[u8] = &buf[..len];
    let r = read_bitvec::<NetworkMessageConfig>(&mut rd, MAX_SIGNERS);
    vcheck!(r.is_ok(), "a bitmask written by write_bitvec is rejected by read_bitvec");
    vcheck!(rd.is_empty(), "read_bitvec did not consume exactly what write_bitvec produced");
    if let Ok(d) = r {
        vcheck!(d.len() == n, "decoded bitmask length differs from the encoded one");
        let raw = d.as_raw_slice();
        let live = if n == 128 { u64::MAX } else { (1u64 << (n - 64)) - 1 };
        vcheck!(raw.len() == 2 && raw[0] as u64 == w0 && (raw[1] as u64 ^ w1) & live == 0, "decoded bitmask bits differ from the encoded ones");
        std::mem::forget(d);
    } else {
        std::mem::forget(r);
    }
    vcover!(w1 & (if n == 128 { u64::MAX } else { (1u64 << (n - 64)) - 1 }) == 0, "no signer in the top word");
    vcover!(w1 != 0 && n < 128, "signers in the top word, dead bits above");
    std::mem::forget(bv);
}
#[cfg_attr(kani, kani::proof)]
#[cfg_attr(kani, kani::stub(log::max_level, crate::network::kani_c19_net::log_off))]
#[cfg_attr(kani, kani::unwind(42))]
#[cfg_attr(verif_replay, test)]
fn c19_bitvec_encdec_w2() {
    bitvec_encdec_w2_body()
}

/// `c19_bitvec_limit_b<N>`: decode only, production limit, buffers big enough for 32 and 33
/// words: the `MAX_SIGNERS` rejection itself.
fn bitvec_limit_body<const N: usize>() {
    let buf = any_bytes_w::<N>();
    let mut rd: &[u8] = &buf[..];
    let r = read_bitvec::<NetworkMessageConfig>(&mut rd, MAX_SIGNERS);
    let h = bitvec_header(&buf[..], 0);
    let cv_8 = r.is_ok() && h.words == 32 && h.num_bits == 2048;
    let cv_9 = r.is_err() && h.fits && h.words == 33 && h.num_bits <= 2048;
    vcheck!(r.is_ok() || !h.well_formed, "read_bitvec rejected a well-formed bitmask encoding");
    vcheck!(r.is_err() || h.well_formed, "read_bitvec accepted a malformed bitmask encoding");
    if let Ok(bv) = r {
        vcheck!(bv.len() as u64 == h.num_bits && bv.len() <= MAX_SIGNERS, "decoded bitmask length differs from the encoded bit count or exceeds MAX_SIGNERS");
        vcheck!(bitvec_size(&bv) as u64 == 16 + 8 * h.min_words, "bitvec_size of a decoded bitmask is not 16 + 8 * ceil(num_bits / 64)");
        std::mem::forget(bv);
    } else {
        std::mem::forget(r);
    }
    vcover!(cv_8, "a full 2048-bit bitmask decodes");
    vcover!(cv_9, "a 33-word bitmask is rejected");
}
#[cfg_attr(kani, kani::proof)]
#[cfg_attr(kani, kani::stub(log::max_level, crate::network::kani_c19_net::log_off))]
#[cfg_attr(kani, kani::unwind(38))]
#[cfg_attr(verif_replay, test)]
fn c19_bitvec_limit_b280() {
    bitvec_limit_body::<280>()
}

macro_rules! bitvec_harness {
    ($name:ident, $n:literal, $w:literal, $unwind:literal) => {
        #[cfg_attr(kani, kani::proof)]
        #[cfg_attr(kani, kani::stub(log::max_level, crate::network::kani_c19_net::log_off))]
        #[cfg_attr(kani, kani::unwind($unwind))]
        #[cfg_attr(verif_replay, test)]
        fn $name() {
            bitvec_body::<$n, $w>()
        }
    };
}
bitvec_harness!(c19_bitvec_b15, 15, 0, 17);
bitvec_harness!(c19_bitvec_b16, 16, 0, 18);
bitvec_harness!(c19_bitvec_b24, 24, 1, 26);
bitvec_harness!(c19_bitvec_b29, 29, 1, 31);
bitvec_harness!(c19_bitvec_b32, 32, 2, 34);
bitvec_harness!(c19_bitvec_b40, 40, 3, 42);

// ---------------------------------------------------------------------------------------
// BLS signature bytes: fixtures and the Kani-only model of the four blst FFI entry points
// ---------------------------------------------------------------------------------------

/// Two genuine BLS12-381 G1 signatures (uncompressed), produced by the real `SecretKey::sign_bytes`
/// with the key `[7; 32]` over "c19 fixture one" / "c19 fixture two".  Natively blst accepts them
/// (on curve, in the subgroup, not infinity); under Kani the model below accepts exactly these.
pub(crate) const SIG_A: [u8; 96] = [
    2, 17, 37, 193, 150, 52, 112, 60, 210, 238, 108, 250, 229, 189, 54, 203, 221, 87, 25, 108, 4, 77, 15, 87, 193, 39, 226, 26, 156, 8, 91, 77, 46, 27,
    152, 175, 241, 169, 43, 152, 145, 105, 155, 214, 116, 71, 151, 43, 21, 173, 202, 225, 214, 206, 20, 34, 91, 66, 201, 245, 14, 24, 122, 0, 16, 77,
    218, 232, 113, 147, 116, 221, 28, 250, 53, 131, 85, 112, 63, 71, 159, 99, 235, 17, 32, 239, 160, 97, 117, 20, 247, 59, 219, 50, 133, 209,
];
pub(crate) const SIG_B: [u8; 96] = [
    5, 51, 230, 35, 94, 238, 118, 3, 45, 252, 235, 9, 82, 205, 36, 244, 176, 176, 68, 38, 150, 68, 71, 165, 30, 75, 123, 65, 238, 63, 118, 212, 10, 176,
    219, 197, 129, 91, 69, 53, 115, 226, 186, 205, 15, 252, 205, 192, 22, 191, 72, 228, 231, 85, 66, 76, 34, 178, 189, 138, 111, 79, 177, 189, 177,
    116, 217, 192, 250, 219, 157, 181, 165, 8, 32, 249, 195, 180, 205, 124, 124, 48, 192, 19, 194, 233, 53, 75, 157, 251, 156, 191, 244, 150, 78, 76,
];
/// Canonical encoding of the point at infinity: accepted by `from_bytes` (aggregate signatures),
/// rejected by `sig_validate(_, true)` (individual signatures).
pub(crate) const SIG_INF: [u8; 96] = {
    let mut b = [0u8; 96];
    b[0] = 0x40;
    b
};

pub(crate) fn eq96(a: &[u8; 96], b: &[u8; 96]) -> bool {
    let mut eq = true;
    let mut i = 0;
    while i < 96 {
        eq = eq && a[i] == b[i];
        i += 1;
    }
    eq
}

/// Signature bytes for a harness: `kind` 0 = SIG_A, 1 = SIG_B, 2 = infinity, 3 = the raw bytes
/// (which are then required to differ from the three fixtures, so that they are "not a point the
/// decoder accepts" in the model and - for every value a solver would pick - for blst).
pub(crate) fn pick_sig(kind: u8, raw: &[u8; 96]) -> [u8; 96] {
    match kind {
        0 => SIG_A,
        1 => SIG_B,
        2 => SIG_INF,
        _ => {
            vs::assume(!eq96(raw, &SIG_A) && !eq96(raw, &SIG_B) && !eq96(raw, &SIG_INF));
            *raw
        }
    }
}

/// Kani-only stand-ins for the blst C functions reached by the codecs.  The blst *Rust* wrappers
/// (`Signature::{deserialize, from_bytes, sig_validate, validate, serialize}`: length and flag-bit
/// checks, error mapping) stay real.  Model: the in-memory point *is* its 96 wire bytes (identity
/// codec); a byte string is a valid point encoding iff it is one of the fixtures.
#[cfg(kani)]
pub(crate) mod blst_model {
    use blst::{BLST_ERROR, blst_p1_affine};

    use super::{SIG_A, SIG_B, SIG_INF, eq96};

    /// The 96 bytes of the in-memory point, read field by field (no pointer casts).
    unsafe fn rd_point(p: *const blst_p1_affine) -> [u8; 96] {
        let mut b = [0u8; 96];
        let mut i = 0;
        while i < 6 {
            let x = unsafe { (*p).x.l[i] }.to_le_bytes();
            let y = unsafe { (*p).y.l[i] }.to_le_bytes();
            let mut j = 0;
            while j < 8 {
                b[i * 8 + j] = x[j];
                b[48 + i * 8 + j] = y[j];
                j += 1;
            }
            i += 1;
        }
        b
    }
    unsafe fn wr_point(p: *mut blst_p1_affine, b: &[u8; 96]) {
        let mut i = 0;
        while i < 6 {
            let o = i * 8;
            unsafe {
                (*p).x.l[i] = u64::from_le_bytes([b[o], b[o + 1], b[o + 2], b[o + 3], b[o + 4], b[o + 5], b[o + 6], b[o + 7]]);
                (*p).y.l[i] = u64::from_le_bytes([b[48 + o], b[49 + o], b[50 + o], b[51 + o], b[52 + o], b[53 + o], b[54 + o], b[55 + o]]);
            }
            i += 1;
        }
    }
    unsafe fn rd(p: *const u8) -> [u8; 96] {
        let mut b = [0u8; 96];
        let mut i = 0;
        while i < 96 {
            b[i] = unsafe { *p.add(i) };
            i += 1;
        }
        b
    }
    unsafe fn wr(p: *mut u8, b: &[u8; 96]) {
        let mut i = 0;
        while i < 96 {
            unsafe { *p.add(i) = b[i] };
            i += 1;
        }
    }
    pub(crate) unsafe extern "C" fn p1_deserialize(out: *mut blst_p1_affine, in_: *const u8) -> BLST_ERROR {
        let b = unsafe { rd(in_) };
        if eq96(&b, &SIG_A) || eq96(&b, &SIG_B) || eq96(&b, &SIG_INF) {
            unsafe { wr_point(out, &b) };
            BLST_ERROR::BLST_SUCCESS
        } else {
            BLST_ERROR::BLST_BAD_ENCODING
        }
    }
    pub(crate) unsafe extern "C" fn p1_affine_serialize(out: *mut u8, in_: *const blst_p1_affine) {
        let b = unsafe { rd_point(in_) };
        unsafe { wr(out, &b) };
    }
    pub(crate) unsafe extern "C" fn p1_affine_in_g1(p: *const blst_p1_affine) -> bool {
        let b = unsafe { rd_point(p) };
        eq96(&b, &SIG_A) || eq96(&b, &SIG_B) || eq96(&b, &SIG_INF)
    }
    pub(crate) unsafe extern "C" fn p1_affine_is_inf(p: *const blst_p1_affine) -> bool {
        let b = unsafe { rd_point(p) };
        eq96(&b, &SIG_INF)
    }
}

/// The wire bytes of a decoded individual signature (real `serialize` wrapper).
pub(crate) fn isig_bytes(s: &IndividualSignature) -> [u8; 96] {
    s.0.serialize()
}

macro_rules! bls_harness {
    ($(#[$m:meta])* fn $name:ident() $body:block) => {
        #[cfg_attr(kani, kani::proof)]
        #[cfg_attr(kani, kani::stub(log::max_level, crate::network::kani_c19_net::log_off))]
        #[cfg_attr(kani, kani::stub(blst::blst_p1_deserialize, crate::crypto::aggsig::kani_c19_aggsig::blst_model::p1_deserialize))]
        #[cfg_attr(kani, kani::stub(blst::blst_p1_affine_serialize, crate::crypto::aggsig::kani_c19_aggsig::blst_model::p1_affine_serialize))]
        #[cfg_attr(kani, kani::stub(blst::blst_p1_affine_in_g1, crate::crypto::aggsig::kani_c19_aggsig::blst_model::p1_affine_in_g1))]
        #[cfg_attr(kani, kani::stub(blst::blst_p1_affine_is_inf, crate::crypto::aggsig::kani_c19_aggsig::blst_model::p1_affine_is_inf))]
        $(#[$m])*
        #[cfg_attr(verif_replay, test)]
        fn $name() $body
    };
}
pub(crate) use bls_harness;

/// `c19_bytes_aggsig_b<NB>`: 96 signature bytes (fixture A / B / infinity / raw) followed by exactly
/// `NB` arbitrary bytes, through `network::deserialize::<AggregateSignature>` (exact: the whole
/// buffer must be consumed).  Accepted <=> the signature bytes are a point encoding, the bitmask
/// header is well-formed, and the bitmask ends exactly at the end of the buffer - so every
/// encoding followed by trailing bytes is rejected.  Re-encoding gives the canonical form.
fn aggsig_bytes_body<const NB: usize, const CAP: usize>() {
    let sig_kind = vs::any_below(4);
    let raw = vs::any_bytes::<96>();
    let bv = vs::any_bytes::<NB>();
    let sig = pick_sig(sig_kind, &raw);
    let mut buf = [0u8; CAP];
    put(&mut buf, 0, &sig);
    put(&mut buf, 96, &bv);
    let r = crate::network::kani_c19_net::net_dec::<AggregateSignature>(&buf[..]);
    let h = bitvec_header(&bv[..], 0);
    let ends_exactly = h.fits && 16 + 8 * h.words == NB as u64;
    let expect_ok = sig_kind < 3 && h.well_formed && ends_exactly;
    let cv_10 = r.is_some();
    let cv_11 = r.is_some() && sig_kind == 2;
    let cv_12 = NB < 24 || (r.is_none() && sig_kind < 3 && h.well_formed && !ends_exactly);
    let cv_13 = r.is_none() && sig_kind == 3 && h.well_formed && ends_exactly;
    let mut cv_nonmin = NB < 24;
    vcheck!(r.is_some() || !expect_ok, "aggregate signature decoder rejected a well-formed encoding");
    vcheck!(r.is_none() || sig_kind < 3, "aggregate signature decoder accepted an invalid point encoding");
    vcheck!(r.is_none() || h.well_formed, "aggregate signature decoder accepted a malformed bitmask");
    vcheck!(r.is_none() || ends_exactly, "aggregate signature decoder accepted trailing bytes");
    if let Some(a) = r {
        vcheck!(a.bitmask.len() as u64 == h.num_bits, "decoded signer bitmask length differs from the encoded bit count");
        let mut out = [0u8; CAP];
        let n = crate::network::kani_c19_net::encode_into::<AggregateSignature, CAP>(&a, &mut out);
        vcheck!(n as u64 == 96 + 16 + 8 * h.min_words, "re-encoded aggregate signature is not the minimal encoding");
        cv_nonmin = cv_nonmin || h.words != h.min_words;
        let mut canon = [0u8; CAP];
        put(&mut canon, 0, &sig);
        put(&mut canon, 96, &h.num_bits.to_le_bytes());
        put(&mut canon, 104, &h.min_words.to_le_bytes());
        let mut i = 112;
        while i < CAP {
            if i < n {
                canon[i] = buf[i];
            }
            i += 1;
        }
        vcheck!(n <= CAP && bytes_eq(&out[..n], &canon[..n]), "re-encoding differs from the canonical form of the input (not stable)");
        std::mem::forget(a);
    }
    vcover!(cv_10, "an aggregate signature decodes");
    vcover!(cv_11, "an aggregate signature with the infinity point decodes");
    vcover!(cv_12, "a well-formed aggregate signature followed by trailing bytes is rejected");
    vcover!(cv_13, "an aggregate signature with an invalid point encoding is rejected");
    vcover!(cv_nonmin, "a non-minimal aggregate signature encoding is accepted");
}
bls_harness! {
    #[cfg_attr(kani, kani::unwind(122))]
    fn c19_bytes_aggsig_b16() {
        aggsig_bytes_body::<16, 112>()
    }
}
bls_harness! {
    #[cfg_attr(kani, kani::unwind(122))]
    fn c19_bytes_aggsig_b24() {
        aggsig_bytes_body::<24, 120>()
    }
}

bls_harness! {
    #[cfg_attr(kani, kani::unwind(100))]
    /// `c19_bytes_isig`: 96 signature bytes (fixture A / B / infinity / raw), the exact buffer, one
    /// byte short or one byte long, through `network::deserialize::<IndividualSignature>`.
    fn c19_bytes_isig() {
        let sig_kind = vs::any_below(4);
        let raw = any_bytes_w::<96>();
        let tail = vs::any_u8();
        let dl = vs::any_below(3) as usize;
        let sig = pick_sig(sig_kind, &raw);
        let mut buf = [0u8; 97];
        put(&mut buf, 0, &sig);
        buf[96] = tail;
        let len = 95 + dl;
        let input = &buf[..len];
        let r = crate::network::kani_c19_net::net_dec::<IndividualSignature>(input);
        let cv_ok = r.is_some();
        let cv_inf = r.is_none() && sig_kind == 2 && len == 96;
        let cv_raw = r.is_none() && sig_kind == 3 && len == 96;
        let cv_trail = r.is_none() && sig_kind < 2 && len == 97;
        vcheck!(r.is_some() || !(sig_kind < 2 && len == 96), "signature decoder rejected a genuine signature of exact length");
        vcheck!(r.is_none() || len == 96, "signature decoder accepted a buffer that is not exactly 96 bytes");
        vcheck!(r.is_none() || sig_kind < 2, "signature decoder accepted an invalid or infinity signature");
        if let Some(s) = r {
            let mut out = [0u8; 97];
            let n = crate::network::kani_c19_net::encode_into::<IndividualSignature, 97>(&s, &mut out);
            vcheck!(n == 96 && bytes_eq(&out[..96], input), "re-encoding a decoded signature does not reproduce the input");
        }
        vcover!(cv_ok, "a genuine signature decodes");
        vcover!(cv_inf, "the infinity signature is rejected");
        vcover!(cv_raw, "an invalid point encoding is rejected");
        vcover!(cv_trail, "a genuine signature with a trailing byte is rejected");
    }
}

/// An aggregate signature over `num_bits <= MAX_SIGNERS` validators with the bitmask shape
/// `AggregateSignature::new` produces (`bitvec![0; num_bits]`: head 0, `num_bits` bits,
/// ceil(num_bits / 64) words).  Built as `bitvec![0; MAX_SIGNERS]` truncated to `num_bits`, so that
/// the allocation has a concrete size; the curve point is irrelevant for sizes (fixed 96 bytes).
pub(crate) fn mk_aggsig_bits(num_bits: usize) -> AggregateSignature {
    // SAFETY: `blst_p1_affine` is plain old data (two arrays of six u64 limbs)
    let sig: BlstSignature = unsafe { std::mem::zeroed() };
    let mut bitmask = bitvec::bitvec![0; MAX_SIGNERS];
    bitmask.truncate(num_bits);
    AggregateSignature { sig, bitmask }
}

/// An individual signature for *size* computations only (the point is irrelevant: fixed 96 bytes).
pub(crate) fn mk_isig_zero() -> IndividualSignature {
    // SAFETY: `blst_p1_affine` is plain old data (two arrays of six u64 limbs)
    IndividualSignature(unsafe { std::mem::zeroed() })
}
