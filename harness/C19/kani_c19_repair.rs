//! C19 harnesses, part 5 (overlay module `crate::repair::kani_c19_repair`, child of `repair`:
//! sees the private fields of `RepairRequest`).
#![allow(dead_code, unused_imports, clippy::all)]

use wincode::SchemaWrite;
use wincode::config::DefaultConfig;

use super::*;
use crate::Slot;
use crate::crypto::merkle::{BlockHash, MerkleRoot};
use crate::network::MTU_BYTES;
use crate::network::kani_c19_net::{any_bytes_w, bytes_eq, encode_into, le32, le64, mk_hash, net_dec, put};
use crate::shredder::kani_c19_shred::{SLICE_PROOF_LEN, any_shred_index, any_slice_index, mk_shred};
use crate::shredder::{MAX_DATA_PER_SHRED, TOTAL_SHREDS};
use crate::types::slice_index::MAX_SLICES_PER_BLOCK;
use crate::verif_std as vs;
use crate::verif_std::{vcheck, vcover};

/// Arbitrary bytes through `network::deserialize::<RepairRequest>`: sender, slot, block hash and
/// both indices fully symbolic; the variant tag is `KIND` (0, 1, 2) or any value >= 3 (`KIND` = 3);
/// the buffer is the exact encoding of the variant, one byte short, or one byte long.
fn repair_request_body<const KIND: u32, const EXACT: usize, const CAP: usize>() {
    let buf = vs::any_bytes::<CAP>();
    let dl = vs::any_below(3) as usize;
    let sender = le64(&buf, 0);
    let tag = le32(&buf, 8);
    vs::assume(if KIND < 3 { tag == KIND } else { tag >= 3 });
    let slot = le64(&buf, 12);
    let slice = if KIND >= 1 { le64(&buf, 52) } else { 0 };
    let shred = if KIND >= 2 { le64(&buf, 60) } else { 0 };
    let len = EXACT + dl - 1;
    let input = &buf[..len];
    let r = net_dec::<RepairRequest>(input);
    let in_range = slice < MAX_SLICES_PER_BLOCK as u64 && shred < TOTAL_SHREDS as u64;
    let expect_ok = KIND < 3 && len == EXACT && in_range;
    let cv_1 = KIND == 3 || r.is_some();
    let cv_2 = KIND == 0 || (r.is_none() && len == EXACT);
    let cv_3 = r.is_none() && len == EXACT + 1 && in_range;
    let cv_4 = r.is_none() && len == EXACT - 1 && in_range;
    vcheck!(r.is_some() || !expect_ok, "repair request decoder rejected a well-formed request");
    vcheck!(r.is_none() || KIND < 3, "repair request decoder accepted an unknown variant tag");
    vcheck!(r.is_none() || len == EXACT, "repair request decoder accepted a buffer of the wrong length (trailing or missing bytes)");
    vcheck!(r.is_none() || in_range, "repair request decoder accepted an out-of-range slice or shred index");
    if let Some(q) = r {
        vcheck!(q.sender.inner() == sender, "decoded repair request sender differs");
        let fields_ok = match &q.req_type {
            RepairRequestType::LastSliceRoot((s, h)) => tag == 0 && s.inner() == slot && bytes_eq(h.as_hash().as_ref(), &buf[20..52]),
            RepairRequestType::SliceRoot((s, h), i) => tag == 1 && s.inner() == slot && bytes_eq(h.as_hash().as_ref(), &buf[20..52]) && i.inner() as u64 == slice,
            RepairRequestType::Shred((s, h), i, j) => tag == 2 && s.inner() == slot && bytes_eq(h.as_hash().as_ref(), &buf[20..52]) && i.inner() as u64 == slice && j.inner() as u64 == shred,
        };
        vcheck!(fields_ok, "decoded repair request fields differ from the encoded ones");
        let mut out = [0u8; CAP];
        let n = encode_into::<RepairRequest, CAP>(&q, &mut out);
        vcheck!(bytes_eq(&out[..n], input), "re-encoding a decoded repair request does not reproduce the input");
        std::mem::forget(q);
    }
    vcover!(cv_1, "a request decodes");
    vcover!(cv_2, "an exact-length request is rejected (index out of range or unknown kind)");
    vcover!(cv_3, "a request with a trailing byte is rejected");
    vcover!(cv_4, "a truncated request is rejected");
}
macro_rules! repair_request {
    ($name:ident, $kind:literal, $exact:literal, $cap:literal) => {
        #[cfg_attr(kani, kani::proof)]
        #[cfg_attr(kani, kani::unwind(72))]
        #[cfg_attr(verif_replay, test)]
        fn $name() {
            repair_request_body::<$kind, $exact, $cap>()
        }
    };
}
repair_request!(c19_bytes_repair_request_k0, 0, 52, 53);
repair_request!(c19_bytes_repair_request_k1, 1, 60, 61);
repair_request!(c19_bytes_repair_request_k2, 2, 68, 69);
repair_request!(c19_bytes_repair_request_k3, 3, 68, 69);

fn size_of_msg<T: SchemaWrite<DefaultConfig, Src = T>>(v: &T) -> usize {
    match <T as SchemaWrite<DefaultConfig>>::size_of(v) {
        Ok(n) => n,
        Err(e) => {
            std::mem::forget(e);
            usize::MAX
        }
    }
}

/// Datagram bound for repair traffic: the request, and each response kind at its largest
/// (shred response: data length <= MAX_DATA_PER_SHRED and Merkle path <= 6, both symbolic;
/// root responses: double-Merkle proof of <= log2(MAX_SLICES_PER_BLOCK) = 10 hashes, symbolic).
#[cfg_attr(kani, kani::proof)]
#[cfg_attr(kani, kani::unwind(66))]
#[cfg_attr(verif_replay, test)]
fn c19_mtu_repair() {
    const DPROOF: usize = MAX_SLICES_PER_BLOCK.trailing_zeros() as usize;
    let kind = vs::any_below(5);
    let slice = vs::any_u64();
    let shred = vs::any_u64();
    let dlen = vs::any_u16() as usize;
    let plen = vs::any_below(SLICE_PROOF_LEN as u8 + 1) as usize;
    let dplen = vs::any_below(DPROOF as u8 + 1) as usize;
    vs::assume(dlen <= MAX_DATA_PER_SHRED);
    let si = any_slice_index(slice);
    let sh = any_shred_index(shred);
    let bid = || (Slot::new(0), BlockHash::from(mk_hash([0u8; 32])));
    let req = RepairRequestType::Shred(bid(), si, sh);
    let mut dp = Vec::with_capacity(DPROOF);
    let mut i = 0;
    while i < DPROOF {
        if i < dplen {
            dp.push(mk_hash([0u8; 32]));
        }
        i += 1;
    }
    let root = SliceRoot::from(mk_hash([0u8; 32]));
    let size = match kind {
        0 => {
            let m = RepairRequest { sender: ValidatorIndex::new(0), req_type: req };
            let n = size_of_msg(&m);
            std::mem::forget(m);
            n
        }
        1 => {
            let m = RepairResponse::LastSliceRoot(req, si, root, DoubleMerkleProof::from(dp));
            let n = size_of_msg(&m);
            std::mem::forget(m);
            n
        }
        2 => {
            let m = RepairResponse::SliceRoot(req, root, DoubleMerkleProof::from(dp));
            let n = size_of_msg(&m);
            std::mem::forget(m);
            n
        }
        3 => {
            let s = mk_shred(false, 0, si, false, sh, crate::shredder::kani_c19_shred::sized_data(dlen), &[0u8; 64], plen, [0u8; 32]);
            let m = RepairResponse::Shred(req, s);
            let n = size_of_msg(&m);
            std::mem::forget(m);
            n
        }
        _ => {
            let m = RepairResponse::Nack(req);
            let n = size_of_msg(&m);
            std::mem::forget(m);
            n
        }
    };
    let cv_5 = kind == 3 && dlen == MAX_DATA_PER_SHRED && plen == SLICE_PROOF_LEN && size > 1380;
    let cv_6 = kind == 1 && dplen == DPROOF;
    let cv_7 = kind == 0;
    vcheck!(size <= MTU_BYTES, "a repair message a correct node emits does not fit one datagram");
    vcover!(cv_5, "the largest shred response is sized");
    vcover!(cv_6, "a last-slice-root response with a full-height proof is sized");
    vcover!(cv_7, "a request is sized");
}

/// The same bound at the concrete extreme: the shred response carrying the largest shred.
#[cfg_attr(kani, kani::proof)]
#[cfg_attr(kani, kani::unwind(10))]
#[cfg_attr(verif_replay, test)]
fn c19_mtumax_repair() {
    let slice = vs::any_u64();
    let shred = vs::any_u64();
    let coding = vs::any_bool();
    let si = any_slice_index(slice);
    let sh = any_shred_index(shred);
    let req = RepairRequestType::Shred((Slot::new(0), BlockHash::from(mk_hash([0u8; 32]))), si, sh);
    let s = mk_shred(coding, 0, si, false, sh, vec![0u8; MAX_DATA_PER_SHRED], &[0u8; 64], SLICE_PROOF_LEN, [0u8; 32]);
    let m = RepairResponse::Shred(req, s);
    let size = size_of_msg(&m);
    vcheck!(size <= MTU_BYTES, "the largest repair response does not fit one datagram");
    vcheck!(size == 4 + 60 + 4 + 17 + 8 + 8 + MAX_DATA_PER_SHRED + 64 + 8 + 32 * SLICE_PROOF_LEN, "repair response size differs from the documented layout");
    vcover!(coding, "a coding shred response is sized");
    vcover!(!coding, "a data shred response is sized");
    std::mem::forget(m);
}

/// Encode -> decode of one `RepairResponse` kind (0 = Nack, 1 = SliceRoot, 2 = LastSliceRoot, both
/// with an empty proof, 3 = Shred carrying an empty shred); `TRAIL` appends one arbitrary byte,
/// which must make the decoder reject.
fn repair_response_body<const KIND: u8, const CAP: usize, const TRAIL: bool>() {
    let slot = vs::any_u64();
    let hb = any_bytes_w::<32>();
    let rb = any_bytes_w::<32>();
    let slice = vs::any_u64();
    let shred = vs::any_u64();
    let last = vs::any_u64();
    let sig = any_bytes_w::<64>();
    let trailing = vs::any_u8();
    let si = any_slice_index(slice);
    let li = any_slice_index(last);
    let sh = any_shred_index(shred);
    let mk_req = || RepairRequestType::Shred((Slot::new(slot), BlockHash::from(mk_hash(hb))), si, sh);
    let m = match KIND {
        0 => RepairResponse::Nack(mk_req()),
        1 => RepairResponse::SliceRoot(mk_req(), SliceRoot::from(mk_hash(rb)), DoubleMerkleProof::from(Vec::new())),
        2 => RepairResponse::LastSliceRoot(mk_req(), li, SliceRoot::from(mk_hash(rb)), DoubleMerkleProof::from(Vec::new())),
        _ => RepairResponse::Shred(mk_req(), mk_shred(true, slot, si, true, sh, Vec::new(), &sig, 0, hb)),
    };
    let cv_8 = trailing == 0;
    let cv_9 = trailing != 0;
    let mut buf = [0u8; CAP];
    let n = encode_into::<RepairResponse, CAP>(&m, &mut buf);
    vcheck!(n + 1 == CAP, "repair response has an unexpected encoded length");
    buf[CAP - 1] = trailing;
    if TRAIL {
        let r = net_dec::<RepairResponse>(&buf[..CAP]);
        vcheck!(r.is_none(), "a trailing byte after an encoded repair response was accepted");
        std::mem::forget(r);
    } else {
        let r = net_dec::<RepairResponse>(&buf[..CAP - 1]);
        vcheck!(r.is_some(), "decoding an encoded repair response failed");
        if let Some(m2) = r {
            vcheck!(m2.request_type() == &mk_req(), "request echoed in the response changed in the round trip");
            let same = match (&m2, KIND) {
                (RepairResponse::Nack(_), 0) => true,
                (RepairResponse::SliceRoot(_, r2, p2), 1) => *r2 == SliceRoot::from(mk_hash(rb)) && p2.as_ref().len() == 0,
                (RepairResponse::LastSliceRoot(_, l2, r2, p2), 2) => *l2 == li && *r2 == SliceRoot::from(mk_hash(rb)) && p2.as_ref().len() == 0,
                (RepairResponse::Shred(_, s2), 3) => s2.is_coding() && s2.payload().header.slot.inner() == slot && s2.payload().header.slice_index == si && s2.payload().header.is_last && s2.payload().shred_index == sh && s2.payload().data.len() == 0,
                _ => false,
            };
            vcheck!(same, "repair response changed in the round trip");
            std::mem::forget(m2);
        }
    }
    std::mem::forget(m);
    vcover!(cv_8, "a zero trailing byte is tried");
    vcover!(cv_9, "a non-zero trailing byte is tried");
}
macro_rules! repair_response {
    ($name:ident, $kind:literal, $cap:literal, $trail:literal) => {
        #[cfg_attr(kani, kani::proof)]
        #[cfg_attr(kani, kani::unwind(12))]
        #[cfg_attr(verif_replay, test)]
        fn $name() {
            repair_response_body::<$kind, $cap, $trail>()
        }
    };
}
// request echo = 4 + 40 + 8 + 8 = 60; CAP = 4 + 60 + body + 1
repair_response!(c19_rt_repair_response_nack, 0, 65, false);
repair_response!(c19_rt_repair_responsetrail_nack, 0, 65, true);
repair_response!(c19_rt_repair_response_root, 1, 105, false);
repair_response!(c19_rt_repair_response_last, 2, 113, false);
