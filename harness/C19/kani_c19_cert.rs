//! C19 harnesses, part 6 (overlay module `crate::consensus::cert::kani_c19_cert`, child of `cert`:
//! sees the private fields of the certificate structs).
#![allow(dead_code, unused_imports, clippy::all)]

use wincode::SchemaWrite;
use wincode::config::DefaultConfig;

use super::*;
use crate::consensus::ConsensusMessage;
use crate::crypto::aggsig::kani_c19_aggsig::{MAX_SIGNERS_C, mk_aggsig_bits};
use crate::network::MTU_BYTES;
use crate::network::kani_c19_net::mk_hash;
use crate::verif_std as vs;
use crate::verif_std::{vcheck, vcover};

/// Datagram bound for certificates: every certificate kind, every validator-set size
/// `1 ..= MAX_SIGNERS` (symbolic), every combination of present halves for the two-signature
/// kinds; the size is the real `SchemaWrite::size_of` of the whole `ConsensusMessage`
/// (derive code + `AggregateSignature::size_of` + `bitvec_size`).
#[cfg_attr(kani, kani::proof)]
#[cfg_attr(kani, kani::unwind(36))]
#[cfg_attr(verif_replay, test)]
fn c19_mtu_cert() {
    let kind = vs::any_below(5);
    let n = vs::any_u16() as usize;
    let has1 = vs::any_bool();
    let has2 = vs::any_bool();
    vs::assume(n >= 1 && n <= MAX_SIGNERS_C);
    // the constructors require at least one vote, i.e. at least one half
    vs::assume(has1 || has2);
    let slot = Slot::new(0);
    let bh = || BlockHash::from(mk_hash([0u8; 32]));
    let stake = Stake::new(0);
    let a1 = if has1 { Some(mk_aggsig_bits(n)) } else { None };
    let a2 = if has2 { Some(mk_aggsig_bits(n)) } else { None };
    let cert = match kind {
        0 => Cert::Notar(NotarCert { slot, block_hash: bh(), agg_sig: mk_aggsig_bits(n), stake }),
        1 => Cert::NotarFallback(NotarFallbackCert { slot, block_hash: bh(), agg_sig_notar: a1, agg_sig_notar_fallback: a2, stake }),
        2 => Cert::Skip(SkipCert { slot, agg_sig_skip: a1, agg_sig_skip_fallback: a2, stake }),
        3 => Cert::FastFinal(FastFinalCert { slot, block_hash: bh(), agg_sig: mk_aggsig_bits(n), stake }),
        _ => Cert::Final(FinalCert { slot, agg_sig: mk_aggsig_bits(n), stake }),
    };
    let msg = ConsensusMessage::Cert(cert);
    let size = match <ConsensusMessage as SchemaWrite<DefaultConfig>>::size_of(&msg) {
        Ok(s) => s,
        Err(e) => {
            std::mem::forget(e);
            usize::MAX
        }
    };
    let words = (n + 63) / 64;
    let agg = 96 + 16 + 8 * words;
    let cv_1 = kind == 1 && has1 && has2 && n == MAX_SIGNERS_C && size > 780;
    let cv_2 = kind == 4 && n == 1;
    let cv_3 = n == 65;
    vcheck!(size <= MTU_BYTES, "a certificate a correct node emits does not fit one datagram");
    let expect = 4 + 4 + 8 + 8
        + match kind {
            0 | 3 => 32 + agg,
            1 => 32 + 2 + if has1 { agg } else { 0 } + if has2 { agg } else { 0 },
            2 => 2 + if has1 { agg } else { 0 } + if has2 { agg } else { 0 },
            _ => agg,
        };
    vcheck!(size == expect, "certificate size differs from the documented layout");
    std::mem::forget(msg);
    vcover!(cv_1, "the largest certificate (both halves, 2048 validators) is sized");
    vcover!(cv_2, "the smallest certificate is sized");
    vcover!(cv_3, "a validator count just above a word boundary is sized");
}


/// The same bound at the concrete extreme (`MAX_SIGNERS` validators, both halves present): a
/// light harness whose counterexample, should the bound ever break, replays cheaply.
#[cfg_attr(kani, kani::proof)]
#[cfg_attr(kani, kani::unwind(36))]
#[cfg_attr(verif_replay, test)]
fn c19_mtumax_cert() {
    let skip = vs::any_bool();
    let slot = Slot::new(vs::any_u64());
    let stake = Stake::new(vs::any_u64());
    let a1 = Some(mk_aggsig_bits(MAX_SIGNERS_C));
    let a2 = Some(mk_aggsig_bits(MAX_SIGNERS_C));
    let cert = if skip {
        Cert::Skip(SkipCert { slot, agg_sig_skip: a1, agg_sig_skip_fallback: a2, stake })
    } else {
        Cert::NotarFallback(NotarFallbackCert { slot, block_hash: BlockHash::from(mk_hash([0u8; 32])), agg_sig_notar: a1, agg_sig_notar_fallback: a2, stake })
    };
    let msg = ConsensusMessage::Cert(cert);
    let size = match <ConsensusMessage as SchemaWrite<DefaultConfig>>::size_of(&msg) {
        Ok(s) => s,
        Err(e) => {
            std::mem::forget(e);
            usize::MAX
        }
    };
    let agg = 96 + 16 + 8 * (MAX_SIGNERS_C / 64);
    vcheck!(size <= MTU_BYTES, "the largest certificate does not fit one datagram");
    vcheck!(size == 4 + 4 + 8 + 8 + 2 + 2 * agg + if skip { 0 } else { 32 }, "certificate size differs from the documented layout");
    vcover!(skip, "a skip certificate is sized");
    vcover!(!skip, "a notar-fallback certificate is sized");
    std::mem::forget(msg);
}
