MOD = "consensus::pool::slot_state::kani_c03"
SS = "src/consensus/pool/slot_state.rs"
COLL = {"src": "verif_coll.rs", "dest": "src/verif_coll.rs", "decl_in": "src/lib.rs", "decl": "pub mod verif_coll;"}
FIX = {"src": "kani_fix.rs", "dest": "src/consensus/kani_fix.rs", "decl_in": "src/consensus.rs", "decl": "pub(crate) mod kani_fix;"}
AGG = {"src": "kani_aggstub.rs", "dest": "src/crypto/aggsig/kani_aggstub.rs", "decl_in": "src/crypto/aggsig.rs", "decl": "pub(crate) mod kani_aggstub;"}
CERT = {"src": "kani_certstub.rs", "dest": "src/consensus/cert/kani_certstub.rs", "decl_in": "src/consensus/cert.rs", "decl": "pub(crate) mod kani_certstub;"}
SLOTFIX = {"src": "kani_slotfix.rs", "dest": "src/consensus/pool/slot_state/kani_slotfix.rs", "decl_in": SS, "decl": "mod kani_slotfix;"}
KINDS = ["notar", "nfallback", "skip", "sfallback", "final"]

def redirect(file, line, repl):
    import re
    return {"file": file, "pattern": r"^" + re.escape(line) + r"$", "replacement": "#[cfg(not(kani))]\n" + line + "\n#[cfg(kani)]\n" + repl, "count": 1}

SLOT_STATE_REDIRECTS = [
    redirect(SS, "use std::collections::BTreeMap;", "use crate::verif_coll::BTreeMap;"),
    redirect(SS, "use smallvec::SmallVec;", "use crate::verif_coll::SmallVec;"),
    redirect(SS, "use super::sorted_vec::{SortedVecMap, SortedVecSet};", "use crate::verif_coll::{SortedVecMap, SortedVecSet};"),
    # std Vec (votes per validator, certificate list, collected votes) -> typed contiguous stand-in: constants propagate
    # through a typed array but not through the untyped heap block behind a std Vec
    {"file": SS, "pattern": r"^use std::sync::Arc;$", "replacement": "use std::sync::Arc;\n#[cfg(kani)]\nuse crate::verif_coll::tvec::{Vec, vec};", "count": 1, "required": True},
]
STUBS = ["consensus::pool::slot_state::SlotState::check_safe_to_notar", "crypto::aggsig::SecretKey::sign", "consensus::cert::NotarCert::new", "consensus::cert::NotarFallbackCert::new", "consensus::cert::SkipCert::new", "consensus::cert::FastFinalCert::new", "consensus::cert::FinalCert::new"]
Q, T = ["quick", "thorough"], ["thorough"]
import importlib.util, os
_g = importlib.util.spec_from_file_location("c03gen", os.path.join(os.path.dirname(__file__), "gen.py")); _gen = importlib.util.module_from_spec(_g); _g.loader.exec_module(_gen)
NTHR_OK = set()
HARNESSES = [
    {"name": n, "path": MOD, "tiers": (Q if n in _gen.QUICK else T) if k in _gen.REGISTERED_KINDS else [], "role": f"one add_vote step/{_gen.KINDS[k]} vote, holders pattern {d}", "stubs": STUBS, "covers": 1, "mem_gb": 14,
     "bounds": f"2 validators with symbolic 16-bit stakes; who already holds which vote is fixed by the pattern {d}; certificates already received symbolic", "timeout": {"quick": 420, "thorough": 1200}}
    for (n, k, own, d, allow) in _gen.names()
]
NTHR = [("c03_nthr_n_0000", 3, Q), ("c03_nthr_n_0100", 3, T), ("c03_nthr_n_0110", 3, Q), ("c03_nthr_n_1010", 2, T), ("c03_nthr_n_1110", 2, T), ("c03_nthr_n_1111", 2, T), ("c03_nthr_n_1001", 2, T), ("c03_nthr_n_1100", 2, T),
        ("c03_nthr_f_0000", 3, T), ("c03_nthr_f_0100", 3, Q), ("c03_nthr_f_0110", 3, T), ("c03_nthr_f_1110", 2, T)]
HARNESSES += [
    {"name": n, "path": MOD, "tiers": (t if os.environ.get("VERIF_EXPERIMENTAL") or n in NTHR_OK else []), "role": "threshold kernel/" + ("notar" if "_n_" in n else "notar-fallback") + " vote, certificates present " + n[-4:], "stubs": STUBS, "covers": c, "mem_gb": 14,
     "functions": ["SlotState::add_vote", "SlotState::count_notar_stake", "SlotState::count_notar_fallback_stake", "SlotState::is_notar_fallback", "SlotVotes::{notar_votes,notar_fallback_votes}"],
     "bounds": "2 validators; total stake, the voter's stake and the notar / notar-fallback counters of two competing blocks arbitrary 16-bit values (decoupled from the stored votes: only the new vote is stored); certificates present fixed by the name (notar-fallback A, notar-fallback B, notarization, fast-finalization), consistent with 'present as soon as reached'", "timeout": {"quick": 600, "thorough": 1500}}
    for (n, c, t) in NTHR
]
SPEC = {
    "property": "C03",
    "level_text": "Bounded symbolic verification of one real SlotState::add_vote step for FINAL, SKIP and SKIP-FALLBACK votes (the notar / notar-fallback step and a threshold kernel for it are written but exceed the memory cap - DESIGN.md section 9 - so the notarization, notar-fallback and fast-finalization certificates are covered by their constructors only): for 2 validators with arbitrary 16-bit stakes (the solver picks them, including stakes landing exactly on a threshold), for every enumerated pattern of who already holds which vote, and for each certificate type that is not yet present, the solver shows that the certificate is created in this call exactly when the accepted stake including the new vote reaches the type's threshold (60%, 80% for fast-finalization; notar + notar-fallback and skip + skip-fallback combined), at most once, with signers exactly the validators whose matching votes are accepted (the crossing voter included), no validator in both halves, for the right slot and block, and with signer stake that meets the threshold at a receiver. The admitted vote is on record afterwards, also when its certificate already existed. The certificate constructors of all five types (try_new: slot/block consistency, per-half signer sets, declared stake = sum) are verified separately on two votes.",
    "level_note": "Bounds: 2 validators, 2 competing blocks, one slot, one step from a pre-state whose running totals equal the sums over the held votes (the invariant add_vote maintains; C04 shows what is admitted). Holder patterns and which certificates are already present are enumerated as concrete shape discriminants (a symbolic pattern makes one Vec::collect of 112-byte votes cost ~8 M SAT variables); stakes stay symbolic. BLS signing and aggregation are opaque tokens carrying the signer set; in the step harnesses the XCert::new constructors are replaced by stubs that keep their preconditions as assertions. std BTreeMap, SmallVec, SortedVecMap/Set inside slot_state.rs are bounded stand-ins under Kani; native replay uses the real containers, constructors and BLS. Trusts Kani, CBMC, CaDiCaL.",
    "overlays": [COLL, FIX, AGG, CERT, SLOTFIX, {"src": "C03/kani_c03.rs", "dest": "src/consensus/pool/slot_state/kani_c03.rs", "decl_in": SS, "decl": "mod kani_c03;"},
                 {"src": "C03/kani_c03_trynew.rs", "dest": "src/consensus/cert/kani_c03_trynew.rs", "decl_in": "src/consensus/cert.rs", "decl": "mod kani_c03_trynew;"}],
    "redirects": SLOT_STATE_REDIRECTS,
    "coll_cap": 3,
    "functions": ["consensus::pool::slot_state::SlotState::{add_vote,count_notar_stake,count_notar_fallback_stake,count_skip_stake,count_finalize_stake,add_cert,is_notar_fallback}", "SlotVotes::{notar_votes,notar_fallback_votes,skip_votes,skip_fallback_votes,final_votes}", "consensus::cert::{NotarCert,NotarFallbackCert,SkipCert,FastFinalCert,FinalCert}::try_new"],
    "bounds": "2 validators, 16-bit stakes, 2 blocks, one add_vote step (final / skip / skip-fallback votes); holder patterns enumerated (see gen.py), one creatable certificate type per harness",
    "explanation": "One-step harnesses on the real SlotState with a reference written from the property statement (threshold reached including the new vote and not yet present <=> created; signer masks from the ghost held sets). Decided by Kani -> CBMC -> CaDiCaL over all stakes within the bound.",
    "assumptions": ["pre-state totals equal the sums over held votes; a certificate whose threshold the held votes reach is present", "new vote admissible (C04)", "BLS sign/aggregate are opaque tokens; signature validity of created certificates is outside (C09 covers the receiver side)", "bounded stand-ins for std/smallvec containers under Kani"],
    "trusted_base": ["kani_slotfix reference (Totals, masks)", "kani_certstub constructor stubs (preconditions kept as assertions)", "verif_coll stand-ins"],
    "outside": ["the notar / notar-fallback step (harnesses c03_p_notar_*, c03_p_nfallback_*, c03_nthr_*: over the memory cap)", "more than 2 validators / 2 blocks", "holder patterns not enumerated in gen.py", "PoolImpl::add_vote/add_valid_cert plumbing and the CertCreated event (async, tokio)"],
    "harnesses": HARNESSES + [
        {"name": f"c03_trynew_{k}", "path": "consensus::cert::kani_c03_trynew", "tiers": Q, "role": f"certificate constructor/{k}", "covers": 2,
         "stubs": ["crypto::aggsig::SecretKey::sign", "consensus::cert::aggsig_from_votes"],
         "functions": [f"cert::*Cert::try_new ({k})"], "bounds": "two votes (signers 0 and 2 of 3 validators, symbolic 32-bit stakes), the second vote for the same or a different slot / block"} for k in ["notar", "nfallback", "skip", "fastfinal", "final"]],
}
