//! C03 harnesses (overlay module `crate::consensus::pool::slot_state::kani_c03`).
//!
//! One step of the real `SlotState::add_vote` from an arbitrary admissible pre-state:
//! N validators with symbolic stakes and symbolic held votes (two competing blocks A, B),
//! running totals equal to the sums over the held votes, every certificate whose threshold
//! the held votes reach already present (plus any subset of certificates received from the
//! network).  Validator 0 then casts one admissible vote of the harness's kind.
//! Reference (from the property statement): a certificate of type T is created in this call
//! iff the accepted stake for T *including the new vote* reaches T's threshold and no such
//! certificate was present; its signers are exactly the validators holding matching votes,
//! each once; its stake is their sum and meets the threshold.
//! BLS aggregation is stubbed (`cert::aggsig_from_votes` → token carrying the signer mask);
//! everything else in `add_vote`, `count_*_stake`, `SlotVotes::*_votes` and the certificate
//! constructors (`try_new`: slot / hash consistency, stake sum) is the real code.
#![allow(dead_code, unused_imports, clippy::all)]

use super::kani_slotfix::*;
use super::*;
use crate::ValidatorIndex;
use crate::consensus::cert::kani_certstub::{view, CertView};
use crate::consensus::kani_fix::{block_hash, fixture, Fix};
use crate::verif_std as vs;
use crate::verif_std::{vcheck, vcover};

const N: usize = 2;

fn dummy_vote_cert(fx: &Fix, kind: u8, hash: u8) -> Cert {
    // a certificate "received from the network": the slot state only looks at type and block
    crate::consensus::cert::kani_certstub::opaque(kind, Slot::new(SLOT), block_hash(if hash == 0 { 1 } else { hash }), fx.epoch.epoch_info().validators(), &fx.sks[0])
}

struct Present {
    notar: bool,
    nf: [bool; 3],
    skip: bool,
    ff: bool,
    fin: bool,
}

/// Pattern digits.  kinds 0/1: 0 none, 1 notar A, 2 notar B, 3 notar-fallback A,
/// 4 notar B + notar-fallback A;  kinds 2/3: 0 none, 1 skip, 2 skip-fallback;  kind 4: 0 none, 1 final.
const fn pat(kind: u8, d: u8) -> Held {
    let mut h = NOTHING;
    match kind {
        0 | 1 => match d {
            1 => h.notar = 1,
            2 => h.notar = 2,
            3 => h.nf_a = true,
            4 => {
                h.notar = 2;
                h.nf_a = true
            }
            _ => {}
        },
        2 | 3 => match d {
            1 => h.skip = true,
            2 => h.sf = true,
            _ => {}
        },
        _ => {
            if d == 1 {
                h.fin = true
            }
        }
    }
    h
}

/// kind: the new vote's kind (for block A); own: which validator the node itself is;
/// d: who already holds what (CONCRETE per harness — the positions of the votes the real code
/// collects into certificate inputs are then concrete; with symbolic presence one `collect()`
/// of 112-byte votes at symbolic offsets costs ~8 M SAT variables, measured).  Stakes, and
/// which certificates were already received from the network, stay symbolic.
fn step_body(kind: u8, own: usize, d: [u8; N], allow: u8) -> usize {
    // --- symbolic world --------------------------------------------------------------------
    let stakes: [u64; N] = [vs::any_u16() as u64, vs::any_u16() as u64];
    let held: [Held; N] = [pat(kind, d[0]), pat(kind, d[1])];
    let hash = 1u8;
    let notar_cert_hash = 1 + vs::any_below(2);
    let t0 = Totals::of(&held, &stakes);
    vs::assume(t0.total > 0);
    // the new vote must be admissible (C04 decides what the filter admits)
    vs::assume(!held[0].conflicts(kind, hash) && !held[0].repeats(kind, hash));
    // `allow` (CONCRETE per harness): bit T set = no certificate of type T is present yet and the
    // held votes have not reached its threshold (so this vote may be the crossing one);
    // bit clear = a certificate of that type is already present (created earlier or received).
    // Presence is concrete so that the creation code of the other types is syntactically dead:
    // each creation collects votes into a Vec, ~100 k symex steps apiece (measured).
    let may = |t: u8| allow & (1 << t) != 0;
    if may(0) {
        vs::assume(!t0.reaches(t0.notar[1], 3) && !t0.reaches(t0.notar[2], 3));
    }
    if may(1) {
        vs::assume(!t0.reaches(t0.notar[1] + t0.nf[1], 3));
    }
    if may(2) {
        vs::assume(!t0.reaches(t0.skip + t0.sf, 3));
    }
    if may(3) {
        vs::assume(!t0.reaches(t0.notar[1], 4) && !t0.reaches(t0.notar[2], 4));
    }
    if may(4) {
        vs::assume(!t0.reaches(t0.fin, 3));
    }
    // (the notar-fallback certificate of the *other* block is present: with a symbolic one the
    // `is_notar_fallback(A)` scan over the certificate list does not fold and the creation code runs)
    let pre = Present { notar: !may(0), nf: [false, !may(1), true], skip: !may(2), ff: !may(3), fin: !may(4) };

    // --- real pre-state ----------------------------------------------------------------------
    let fx = fixture(&stakes, own);
    let mut st = SlotState::new(Slot::new(SLOT), fx.epoch.clone());
    let mut i = 0;
    while i < N {
        install(&mut st, &fx, i, &held[i]);
        i += 1;
    }
    install_totals_held(&mut st, &t0, &held);
    if pre.notar {
        st.add_cert(dummy_vote_cert(&fx, 0, notar_cert_hash));
    }
    if pre.nf[1] {
        st.add_cert(dummy_vote_cert(&fx, 1, 1));
    }
    if pre.nf[2] {
        st.add_cert(dummy_vote_cert(&fx, 1, 2));
    }
    if pre.skip {
        st.add_cert(dummy_vote_cert(&fx, 2, 0));
    }
    if pre.ff {
        st.add_cert(dummy_vote_cert(&fx, 3, notar_cert_hash));
    }
    if pre.fin {
        st.add_cert(dummy_vote_cert(&fx, 4, 0));
    }

    // safe-to-notar / safe-to-skip for this slot were already signalled (a reachable state): their
    // evaluation is C06's subject, and left symbolic it dominates the cost of a notar vote (measured)
    st.sent_safe_to_notar.insert(block_hash(1));
    st.sent_safe_to_notar.insert(block_hash(2));
    st.sent_safe_to_skip = true;

    // --- the step ------------------------------------------------------------------------------
    let vote = mk_vote(&fx, 0, kind, hash);
    let (certs, _events, _repairs) = st.add_vote(vote, Stake::new(stakes[0]));

    // the admitted vote is on record (duplicates and conflicts are decided from the record: C04), also when the
    // certificate of its class already exists
    let recorded = match kind {
        0 => st.votes.notar[0].is_some(),
        1 => st.votes.notar_fallback[0].contains_key(&block_hash(hash)),
        2 => st.votes.skip[0].is_some(),
        3 => st.votes.skip_fallback[0].is_some(),
        _ => st.votes.finalize[0].is_some(),
    };
    vcheck!(recorded, "an admitted vote was not recorded: later repeats or conflicting votes of this validator would go unnoticed");

    // --- reference -------------------------------------------------------------------------------
    let mut held1 = held;
    held1[0] = held[0].with(kind, hash);
    let t1 = Totals::of(&held1, &stakes);
    let want_nf = (kind == 0 || kind == 1) && t1.reaches(t1.notar[hash as usize] + t1.nf[hash as usize], 3) && !pre.nf[hash as usize];
    let want_notar = kind == 0 && t1.reaches(t1.notar[hash as usize], 3) && !pre.notar;
    let want_ff = kind == 0 && t1.reaches(t1.notar[hash as usize], 4) && !pre.ff;
    let want_skip = (kind == 2 || kind == 3) && t1.reaches(t1.skip + t1.sf, 3) && !pre.skip;
    let want_fin = kind == 4 && t1.reaches(t1.fin, 3) && !pre.fin;

    let m_notar = mask(&held1, |h| h.notar == hash);
    let m_nf = mask(&held1, |h| h.nf(hash));
    let m_skip = mask(&held1, |h| h.skip);
    let m_sf = mask(&held1, |h| h.sf);
    let m_fin = mask(&held1, |h| h.fin);

    let mut seen = [0u8; 5];
    for c in certs.iter() {
        let v: CertView = view(c);
        seen[v.kind as usize] += 1;
        vcheck!(v.slot == Slot::new(SLOT), "certificate for the wrong slot");
        let (e1, e2, thr): (u64, u64, u128) = match v.kind {
            0 => (m_notar, 0, 3),
            1 => (m_notar, m_nf, 3),
            2 => (m_skip, m_sf, 3),
            3 => (m_notar, 0, 4),
            _ => (m_fin, 0, 3),
        };
        if v.kind == 0 || v.kind == 1 || v.kind == 3 {
            vcheck!(v.hash == Some(block_hash(hash)), "certificate for the wrong block");
        }
        vcheck!(v.mask1.unwrap_or(0) == e1 && v.mask2.unwrap_or(0) == e2, "certificate signers are not exactly the validators whose matching votes were accepted");
        vcheck!(e1 & e2 == 0, "a validator signs both halves of a certificate");
        #[cfg(not(kani))]
        vcheck!(v.stake.inner() == stake_of(e1 | e2, &stakes), "certificate stake is not the sum over its distinct signers");
        vcheck!(t1.reaches(stake_of(v.mask1.unwrap_or(0) | v.mask2.unwrap_or(0), &stakes), thr), "created certificate does not meet its threshold at a receiver");
    }
    vcheck!(seen[1] == want_nf as u8, "notar-fallback certificate missing, unjustified or duplicated");
    vcheck!(seen[0] == want_notar as u8, "notarization certificate missing, unjustified or duplicated");
    vcheck!(seen[3] == want_ff as u8, "fast-finalization certificate missing, unjustified or duplicated");
    vcheck!(seen[2] == want_skip as u8, "skip certificate missing, unjustified or duplicated");
    vcheck!(seen[4] == want_fin as u8, "finalization certificate missing, unjustified or duplicated");

    let n_created = certs.len();
    std::mem::forget(st);
    std::mem::forget(fx);
    std::mem::forget(certs);
    std::mem::forget(_events);
    std::mem::forget(_repairs);
    n_created
}

/// a certificate type is creatable in this harness: creation must be witnessed
fn cov_created(n: usize) {
    vcover!(n > 0, "a certificate is created");
}
/// every certificate type is already present: nothing may be created
fn cov_none(n: usize) {
    vcover!(n == 0, "no certificate is created");
}

/// Stub for `SlotState::check_safe_to_notar` (Kani only): the safe-to-notar evaluation a notar vote
/// triggers is C06's subject (`c06_kernel_s2n`) and has no influence on certificate creation; left in,
/// its guard `!sent_safe_to_notar.contains(..)` is not syntactically constant for CBMC and the whole
/// evaluation is executed symbolically (measured: > 1200 s of symbolic execution for one notar vote).
#[cfg(kani)]
pub(crate) fn s2n_cut(_this: &mut SlotState, _hash: BlockHash) -> SafeToNotarStatus {
    SafeToNotarStatus::AwaitingVotes
}

macro_rules! h {
    ($name:ident, $kind:literal, $own:literal, $d:expr, $allow:literal, $cov:ident) => {
        #[cfg_attr(kani, kani::proof)]
        #[cfg_attr(kani, kani::stub(crate::consensus::pool::slot_state::SlotState::check_safe_to_notar, crate::consensus::pool::slot_state::kani_c03::s2n_cut))]
        #[cfg_attr(kani, kani::stub(crate::crypto::aggsig::SecretKey::sign, crate::consensus::kani_fix::sign_stub))]
        #[cfg_attr(kani, kani::stub(crate::consensus::cert::NotarCert::new, crate::consensus::cert::kani_certstub::notar_new_stub))]
        #[cfg_attr(kani, kani::stub(crate::consensus::cert::NotarFallbackCert::new, crate::consensus::cert::kani_certstub::nfallback_new_stub))]
        #[cfg_attr(kani, kani::stub(crate::consensus::cert::SkipCert::new, crate::consensus::cert::kani_certstub::skip_new_stub))]
        #[cfg_attr(kani, kani::stub(crate::consensus::cert::FastFinalCert::new, crate::consensus::cert::kani_certstub::fastfinal_new_stub))]
        #[cfg_attr(kani, kani::stub(crate::consensus::cert::FinalCert::new, crate::consensus::cert::kani_certstub::final_new_stub))]
        #[cfg_attr(kani, kani::unwind(6))]
        #[cfg_attr(verif_replay, test)]
        fn $name() {
            $cov(step_body($kind, $own, $d, $allow))
        }
    };
}
// GENERATED-BEGIN (harness/C03/gen.py)
h!(c03_p_notar_00_nf, 0, 1, [0, 0], 2, cov_created);
h!(c03_p_notar_00_no, 0, 1, [0, 0], 1, cov_created);
h!(c03_p_notar_00_ff, 0, 1, [0, 0], 8, cov_created);
h!(c03_p_notar_00_zz, 0, 1, [0, 0], 0, cov_none);
h!(c03_p_notar_01_nf, 0, 1, [0, 1], 2, cov_created);
h!(c03_p_notar_01_no, 0, 1, [0, 1], 1, cov_created);
h!(c03_p_notar_01_ff, 0, 1, [0, 1], 8, cov_created);
h!(c03_p_notar_01_zz, 0, 1, [0, 1], 0, cov_none);
h!(c03_p_notar_02_nf, 0, 1, [0, 2], 2, cov_created);
h!(c03_p_notar_02_no, 0, 1, [0, 2], 1, cov_created);
h!(c03_p_notar_02_ff, 0, 1, [0, 2], 8, cov_created);
h!(c03_p_notar_02_zz, 0, 1, [0, 2], 0, cov_none);
h!(c03_p_notar_03_nf, 0, 1, [0, 3], 2, cov_created);
h!(c03_p_notar_03_no, 0, 1, [0, 3], 1, cov_created);
h!(c03_p_notar_03_ff, 0, 1, [0, 3], 8, cov_created);
h!(c03_p_notar_03_zz, 0, 1, [0, 3], 0, cov_none);
h!(c03_p_notar_04_nf, 0, 1, [0, 4], 2, cov_created);
h!(c03_p_notar_04_no, 0, 1, [0, 4], 1, cov_created);
h!(c03_p_notar_04_ff, 0, 1, [0, 4], 8, cov_created);
h!(c03_p_notar_04_zz, 0, 1, [0, 4], 0, cov_none);
h!(c03_p_nfallback_00_nf, 1, 1, [0, 0], 2, cov_created);
h!(c03_p_nfallback_00_zz, 1, 1, [0, 0], 0, cov_none);
h!(c03_p_nfallback_01_nf, 1, 1, [0, 1], 2, cov_created);
h!(c03_p_nfallback_01_zz, 1, 1, [0, 1], 0, cov_none);
h!(c03_p_nfallback_03_nf, 1, 1, [0, 3], 2, cov_created);
h!(c03_p_nfallback_03_zz, 1, 1, [0, 3], 0, cov_none);
h!(c03_p_nfallback_21_nf, 1, 1, [2, 1], 2, cov_created);
h!(c03_p_nfallback_21_zz, 1, 1, [2, 1], 0, cov_none);
h!(c03_p_nfallback_23_nf, 1, 1, [2, 3], 2, cov_created);
h!(c03_p_nfallback_23_zz, 1, 1, [2, 3], 0, cov_none);
h!(c03_p_skip_00_sk, 2, 1, [0, 0], 4, cov_created);
h!(c03_p_skip_00_zz, 2, 1, [0, 0], 0, cov_none);
h!(c03_p_skip_01_sk, 2, 1, [0, 1], 4, cov_created);
h!(c03_p_skip_01_zz, 2, 1, [0, 1], 0, cov_none);
h!(c03_p_skip_02_sk, 2, 1, [0, 2], 4, cov_created);
h!(c03_p_skip_02_zz, 2, 1, [0, 2], 0, cov_none);
h!(c03_p_sfallback_00_sk, 3, 1, [0, 0], 4, cov_created);
h!(c03_p_sfallback_00_zz, 3, 1, [0, 0], 0, cov_none);
h!(c03_p_sfallback_01_sk, 3, 1, [0, 1], 4, cov_created);
h!(c03_p_sfallback_01_zz, 3, 1, [0, 1], 0, cov_none);
h!(c03_p_sfallback_02_sk, 3, 1, [0, 2], 4, cov_created);
h!(c03_p_sfallback_02_zz, 3, 1, [0, 2], 0, cov_none);
h!(c03_p_final_00_fi, 4, 1, [0, 0], 16, cov_created);
h!(c03_p_final_00_zz, 4, 1, [0, 0], 0, cov_none);
h!(c03_p_final_01_fi, 4, 1, [0, 1], 16, cov_created);
h!(c03_p_final_01_zz, 4, 1, [0, 1], 0, cov_none);
h!(c03_pown_notar_01_no, 0, 0, [0, 1], 1, cov_created);
h!(c03_pown_skip_01_sk, 2, 0, [0, 1], 4, cov_created);
// GENERATED-END

// ---------------------------------------------------------------------------------------------
// Threshold kernel for notar / notar-fallback votes (`c03_nthr_*`).
//
// The full step harness above does not fit for these two kinds (collecting the stored votes of
// both blocks into three certificate inputs: 1.2 M steps, memory cap).  Here the running totals
// the real code keeps are symbolic and *decoupled* from the stored votes: only the voter's new
// vote is stored (so every collector returns at most that vote), the per-block notar and
// notar-fallback counters of both blocks are arbitrary 16-bit values, and which certificates are
// already present is arbitrary within "a certificate whose threshold the counters reach is
// present".  One real `add_vote` of a notar (KIND 0) or notar-fallback (KIND 1) vote for block A
// must then create exactly the certificate types whose threshold is reached *including the new
// stake* and that are not present yet - notar + notar-fallback of the SAME block combined, per
// block for notar-fallback, per slot for notarization and fast-finalization - and update the
// counters.  Signer sets are not the subject here (skip / final step harnesses, c03_trynew_*);
// the stubs' "votes must not be empty" assertion still sees whether the new vote was stored
// before counting.
// ---------------------------------------------------------------------------------------------
fn nthr_body<const KIND: u8, const NF_A: bool, const NF_B: bool, const HAS_NOTAR: bool, const HAS_FF: bool>() -> (usize, bool) {
    let total = vs::any_u16() as u64;
    let stake = vs::any_u16() as u64;
    let (n_a, n_b, f_a, f_b) = (vs::any_u16() as u64, vs::any_u16() as u64, vs::any_u16() as u64, vs::any_u16() as u64);
    vs::assume(total > 0 && stake <= total);
    // the voter has not yet voted in this class: its stake is not in the counters of the class
    vs::assume(n_a + n_b + if KIND == 0 { stake } else { 0 } <= total);
    vs::assume(f_a + if KIND == 1 { stake } else { 0 } <= total && f_b <= total);
    let t = Totals { notar: [0, n_a, n_b], nf: [0, f_a, f_b], skip: 0, sf: 0, fin: 0, total };
    // "as soon as": a certificate whose threshold the counters reach is already there
    if !HAS_NOTAR {
        vs::assume(!t.reaches(n_a, 3) && !t.reaches(n_b, 3));
    }
    if !HAS_FF {
        vs::assume(!t.reaches(n_a, 4) && !t.reaches(n_b, 4));
    }
    if !NF_A {
        vs::assume(!t.reaches(n_a + f_a, 3));
    }
    if !NF_B {
        vs::assume(!t.reaches(n_b + f_b, 3));
    }
    let notar_cert_hash = 1 + vs::any_below(2);

    let stakes: [u64; N] = [stake, total - stake];
    let fx = fixture(&stakes, 1);
    let mut st = SlotState::new(Slot::new(SLOT), fx.epoch.clone());
    // counters of both blocks exist (a zero-stake voter leaves a zero counter behind)
    *st.voted_stakes.notar.get_or_insert_with(&block_hash(1), Stake::default) = Stake::new(n_a);
    *st.voted_stakes.notar.get_or_insert_with(&block_hash(2), Stake::default) = Stake::new(n_b);
    *st.voted_stakes.notar_fallback.get_or_insert_with(&block_hash(1), Stake::default) = Stake::new(f_a);
    *st.voted_stakes.notar_fallback.get_or_insert_with(&block_hash(2), Stake::default) = Stake::new(f_b);
    st.voted_stakes.notar_or_skip = Stake::new(n_a + n_b);
    st.voted_stakes.top_notar = Stake::new(if n_a > n_b { n_a } else { n_b });
    if HAS_NOTAR {
        st.add_cert(dummy_vote_cert(&fx, 0, notar_cert_hash));
    }
    if NF_A {
        st.add_cert(dummy_vote_cert(&fx, 1, 1));
    }
    if NF_B {
        st.add_cert(dummy_vote_cert(&fx, 1, 2));
    }
    if HAS_FF {
        st.add_cert(dummy_vote_cert(&fx, 3, notar_cert_hash));
    }
    st.add_cert(dummy_vote_cert(&fx, 2, 0));
    st.add_cert(dummy_vote_cert(&fx, 4, 0));
    st.sent_safe_to_notar.insert(block_hash(1));
    st.sent_safe_to_notar.insert(block_hash(2));
    st.sent_safe_to_skip = true;

    let (certs, _events, _repairs) = st.add_vote(mk_vote(&fx, 0, KIND, 1), Stake::new(stake));

    let n_a1 = n_a + if KIND == 0 { stake } else { 0 };
    let f_a1 = f_a + if KIND == 1 { stake } else { 0 };
    let want_nf = t.reaches(n_a1 + f_a1, 3) && !NF_A;
    let want_notar = KIND == 0 && t.reaches(n_a1, 3) && !HAS_NOTAR;
    let want_ff = KIND == 0 && t.reaches(n_a1, 4) && !HAS_FF;
    let mut seen = [0u8; 5];
    for c in certs.iter() {
        let v: CertView = view(c);
        seen[v.kind as usize] += 1;
        vcheck!(v.slot == Slot::new(SLOT), "certificate for the wrong slot");
        if v.kind == 0 || v.kind == 1 || v.kind == 3 {
            vcheck!(v.hash == Some(block_hash(1)), "certificate for the wrong block");
        }
    }
    vcheck!(seen[1] == want_nf as u8, "notar-fallback certificate missing, unjustified or duplicated");
    vcheck!(seen[0] == want_notar as u8, "notarization certificate missing, unjustified or duplicated");
    vcheck!(seen[3] == want_ff as u8, "fast-finalization certificate missing, unjustified or duplicated");
    vcheck!(seen[2] == 0 && seen[4] == 0, "skip / finalization certificate created by a notar(-fallback) vote");
    // counters after the step
    vcheck!(st.voted_stakes.notar.get(&block_hash(1)).copied() == Some(Stake::new(n_a1)) && st.voted_stakes.notar.get(&block_hash(2)).copied() == Some(Stake::new(n_b)), "notar stake counters wrong after the vote");
    vcheck!(st.voted_stakes.notar_fallback.get(&block_hash(1)).copied() == Some(Stake::new(f_a1)) && st.voted_stakes.notar_fallback.get(&block_hash(2)).copied() == Some(Stake::new(f_b)), "notar-fallback stake counters wrong after the vote");
    let nos1 = n_a1 + n_b;
    let top1 = if n_a1 > n_b { n_a1 } else { n_b };
    vcheck!(st.voted_stakes.notar_or_skip == Stake::new(nos1) && st.voted_stakes.top_notar == Stake::new(top1), "notar-or-skip / top-notar totals wrong after the vote");
    let n_created = certs.len();
    let other_block_ahead = n_b > n_a1;
    std::mem::forget(st);
    std::mem::forget(fx);
    std::mem::forget(certs);
    std::mem::forget(_events);
    std::mem::forget(_repairs);
    (n_created, other_block_ahead)
}
fn nthr_cov_behind(r: (usize, bool)) {
    vcover!(r.0 > 0, "a certificate is created");
    vcover!(r.0 > 0 && r.1, "a certificate is created while the competing block holds more notar stake");
    vcover!(r.0 == 0, "no certificate is created");
}
fn nthr_cov_created(r: (usize, bool)) {
    vcover!(r.0 > 0, "a certificate is created");
    vcover!(r.0 == 0, "no certificate is created");
}
fn nthr_cov_none(r: (usize, bool)) {
    vcover!(r.0 == 0 && r.1, "no certificate is created, the competing block holds more notar stake");
    vcover!(r.0 == 0 && !r.1, "no certificate is created");
}
macro_rules! nthr {
    ($name:ident, $kind:literal, $nfa:literal, $nfb:literal, $no:literal, $ff:literal, $cov:ident) => {
        #[cfg_attr(kani, kani::proof)]
        #[cfg_attr(kani, kani::stub(crate::consensus::pool::slot_state::SlotState::check_safe_to_notar, crate::consensus::pool::slot_state::kani_c03::s2n_cut))]
        #[cfg_attr(kani, kani::stub(crate::crypto::aggsig::SecretKey::sign, crate::consensus::kani_fix::sign_stub))]
        #[cfg_attr(kani, kani::stub(crate::consensus::cert::NotarCert::new, crate::consensus::cert::kani_certstub::notar_new_stub))]
        #[cfg_attr(kani, kani::stub(crate::consensus::cert::NotarFallbackCert::new, crate::consensus::cert::kani_certstub::nfallback_new_stub))]
        #[cfg_attr(kani, kani::stub(crate::consensus::cert::SkipCert::new, crate::consensus::cert::kani_certstub::skip_new_stub))]
        #[cfg_attr(kani, kani::stub(crate::consensus::cert::FastFinalCert::new, crate::consensus::cert::kani_certstub::fastfinal_new_stub))]
        #[cfg_attr(kani, kani::stub(crate::consensus::cert::FinalCert::new, crate::consensus::cert::kani_certstub::final_new_stub))]
        #[cfg_attr(kani, kani::unwind(6))]
        #[cfg_attr(verif_replay, test)]
        fn $name() {
            $cov(nthr_body::<$kind, $nfa, $nfb, $no, $ff>())
        }
    };
}
// notar vote for A; name: n|f (vote kind) _ <nf cert of A><nf cert of B><notar cert><fast-final cert> (0 absent, 1 present)
nthr!(c03_nthr_n_0000, 0, false, false, false, false, nthr_cov_behind);
nthr!(c03_nthr_n_0100, 0, false, true, false, false, nthr_cov_behind);
nthr!(c03_nthr_n_0110, 0, false, true, true, false, nthr_cov_behind);
nthr!(c03_nthr_n_1010, 0, true, false, true, false, nthr_cov_created);
nthr!(c03_nthr_n_1110, 0, true, true, true, false, nthr_cov_created);
nthr!(c03_nthr_n_1111, 0, true, true, true, true, nthr_cov_none);
nthr!(c03_nthr_n_1001, 0, true, false, false, true, nthr_cov_created);
nthr!(c03_nthr_n_1100, 0, true, true, false, false, nthr_cov_created);
// notar-fallback vote for A
nthr!(c03_nthr_f_0000, 1, false, false, false, false, nthr_cov_behind);
nthr!(c03_nthr_f_0100, 1, false, true, false, false, nthr_cov_behind);
nthr!(c03_nthr_f_0110, 1, false, true, true, false, nthr_cov_behind);
nthr!(c03_nthr_f_1110, 1, true, true, true, true, nthr_cov_none);
