//! C03, certificate constructors (overlay module `crate::consensus::cert::kani_c03_trynew`).
//!
//! The pool-level harnesses stub `XCert::new`; here the real `try_new` of all five types runs
//! on two votes (signers 0 and 2 of 3 validators, symbolic stakes; for the mixed types one
//! vote per half): the certificate carries the votes' slot and block, aggregates exactly the
//! given signers per half, declares the sum of their stakes, and votes for different slots /
//! blocks are refused.  Only the BLS aggregation (`aggsig_from_votes`) is stubbed.
#![allow(dead_code, unused_imports, clippy::all)]

use super::kani_certstub::{view, CertView};
use super::*;
use crate::consensus::kani_fix::{block_hash, fixture, Fix};
use crate::verif_std as vs;
use crate::verif_std::{vcheck, vcover};

const SLOT: u64 = 7;

/// kind: 0 notar, 1 notar-fallback (mixed), 2 skip (mixed), 3 fast-final, 4 final
fn body(kind: u8) {
    let stakes: [u64; 3] = [vs::any_u32() as u64, vs::any_u32() as u64, vs::any_u32() as u64];
    // second vote: same slot/block, or a different slot, or a different block
    let odd = vs::any_below(3);
    let fx = fixture(&stakes, 1);
    let vals = fx.epoch.epoch_info().validators();
    let s1 = Slot::new(SLOT);
    let s2 = Slot::new(if odd == 1 { SLOT + 1 } else { SLOT });
    let h1 = block_hash(1);
    let h2 = block_hash(if odd == 2 { 2 } else { 1 });
    let (i0, i2) = (ValidatorIndex::new(0), ValidatorIndex::new(2));
    let res: Result<Cert, CertError> = match kind {
        0 => NotarCert::try_new(&[NotarVote::new(s1, h1, &fx.sks[0], i0), NotarVote::new(s2, h2, &fx.sks[2], i2)], vals).map(Cert::Notar),
        1 => NotarFallbackCert::try_new(&[NotarVote::new(s1, h1, &fx.sks[0], i0)], &[NotarFallbackVote::new(s2, h2, &fx.sks[2], i2)], vals).map(Cert::NotarFallback),
        2 => SkipCert::try_new(&[SkipVote::new(s1, &fx.sks[0], i0)], &[SkipFallbackVote::new(s2, &fx.sks[2], i2)], vals).map(Cert::Skip),
        3 => FastFinalCert::try_new(&[NotarVote::new(s1, h1, &fx.sks[0], i0), NotarVote::new(s2, h2, &fx.sks[2], i2)], vals).map(Cert::FastFinal),
        _ => FinalCert::try_new(&[FinalVote::new(s1, &fx.sks[0], i0), FinalVote::new(s2, &fx.sks[2], i2)], vals).map(Cert::Final),
    };
    let has_hash = kind == 0 || kind == 1 || kind == 3;
    let want_err = odd == 1 || (odd == 2 && has_hash);
    match &res {
        Ok(c) => {
            vcheck!(!want_err, "votes for different slots or blocks were aggregated into one certificate");
            let v: CertView = view(c);
            vcheck!(v.kind == kind && v.slot == s1, "certificate has the wrong type or slot");
            if has_hash {
                vcheck!(v.hash == Some(block_hash(1)), "certificate has the wrong block hash");
            }
            let mixed = kind == 1 || kind == 2;
            let (m1, m2) = if mixed { (1u64, 4u64) } else { (5u64, 0u64) };
            vcheck!(v.mask1.unwrap_or(0) == m1 && v.mask2.unwrap_or(0) == m2, "certificate does not aggregate exactly the given signers per half");
            vcheck!(v.stake.inner() == stakes[0] + stakes[2], "declared stake is not the sum of the signers' stakes");
        }
        Err(e) => {
            vcheck!(want_err, "consistent votes refused");
            vcheck!((*e == CertError::SlotMismatch) == (odd == 1), "wrong error for inconsistent votes");
        }
    }
    vcover!(res.is_ok(), "a certificate is built");
    vcover!(res.is_err(), "inconsistent votes are refused");
    std::mem::forget(res);
    std::mem::forget(fx);
}

macro_rules! h {
    ($name:ident, $kind:literal) => {
        #[cfg_attr(kani, kani::proof)]
        #[cfg_attr(kani, kani::stub(crate::crypto::aggsig::SecretKey::sign, crate::consensus::kani_fix::sign_stub))]
        #[cfg_attr(kani, kani::stub(crate::consensus::cert::aggsig_from_votes, crate::consensus::cert::kani_certstub::aggsig_from_votes_stub))]
        #[cfg_attr(kani, kani::unwind(5))]
        #[cfg_attr(verif_replay, test)]
        fn $name() {
            body($kind)
        }
    };
}
h!(c03_trynew_notar, 0);
h!(c03_trynew_nfallback, 1);
h!(c03_trynew_skip, 2);
h!(c03_trynew_fastfinal, 3);
h!(c03_trynew_final, 4);
