#!/usr/bin/env python3
"""Generates the per-pattern harness list of kani_c03.rs; spec.py imports names()."""
import itertools, os, re
HERE = os.path.dirname(os.path.abspath(__file__))
KINDS = ["notar", "nfallback", "skip", "sfallback", "final"]
# digits of the other validators per kind, and of the voter's own earlier votes
OTHERS = {0: [0, 1, 2, 3, 4], 1: [0, 1, 2, 3, 4], 2: [0, 1, 2], 3: [0, 1, 2], 4: [0, 1]}
VOTER = {0: [0], 1: [0, 2], 2: [0], 3: [0], 4: [0]}

# which certificate types a vote of each kind can create: bit 0 notar, 1 notar-fallback, 2 skip, 3 fast-final, 4 final
ALLOW = {0: [("nf", 2), ("no", 1), ("ff", 8), ("zz", 0)], 1: [("nf", 2), ("zz", 0)], 2: [("sk", 4), ("zz", 0)], 3: [("sk", 4), ("zz", 0)], 4: [("fi", 16), ("zz", 0)]}
PATTERNS = {
    0: [(0, a) for a in (0, 1, 2, 3, 4)],
    1: [(0, a) for a in (0, 1, 3)] + [(2, 1), (2, 3)],
    2: [(0, a) for a in (0, 1, 2)],
    3: [(0, a) for a in (0, 1, 2)],
    4: [(0, a) for a in (0, 1)],
}

def names():
    out = []
    for k in range(5):
        for d in PATTERNS[k]:
            for (tag, allow) in ALLOW[k]:
                out.append((f"c03_p_{KINDS[k]}_{d[0]}{d[1]}_{tag}", k, 1, d, allow))
    # the node's own vote as the crossing vote (own = voter)
    out.append(("c03_pown_notar_01_no", 0, 0, (0, 1), 1))
    out.append(("c03_pown_skip_01_sk", 2, 0, (0, 1), 4))
    return out

QUICK = {"c03_p_final_01_fi", "c03_p_final_01_zz", "c03_p_skip_02_sk", "c03_p_sfallback_01_sk"}
# kinds whose step harness fits the caps (measured): final, skip, skip-fallback.  notar / notar-fallback steps
# (count_notar_stake with its safe-to-notar evaluation) exceed 500 s of symbolic execution and are not registered.
REGISTERED_KINDS = {2, 3, 4} | ({0, 1} if os.environ.get("VERIF_EXPERIMENTAL") else set())

if __name__ == "__main__":
    lines = [f"h!({n}, {k}, {own}, [{d[0]}, {d[1]}], {allow}, {'cov_created' if allow else 'cov_none'});" for (n, k, own, d, allow) in names()]
    p = os.path.join(HERE, "kani_c03.rs")
    s = open(p).read()
    s = re.sub(r"// GENERATED-BEGIN.*?// GENERATED-END", "// GENERATED-BEGIN (harness/C03/gen.py)\n" + "\n".join(lines) + "\n// GENERATED-END", s, flags=re.S)
    open(p, "w").write(s)
    print(len(lines), "harnesses")
