//! Bounded stand-ins for std / smallvec containers (overlay file `crate::verif_coll`).
//!
//! Kani only: selected `use std::collections::…` lines of /repo are redirected here under
//! `cfg(kani)` by the driver (spec `redirects`).  Native replay uses the real containers.
//! Fixed-capacity arrays with linear search, no allocation; exceeding the capacity is
//! `kani::assume(false)` — a stated bound ("at most CAP live entries"), never a pass by
//! truncation of behaviour inside the bound.  Only the API subset alpenglow uses.
//!
//! Shape (measured): CBMC pays for every control-flow join with one phi assignment per
//! modified scalar of the live state, and a map slot holding a 32-byte hash is ~45 scalars.
//! So every operation first computes a *scalar* position with side-effect-free reads and then
//! touches the slot array exactly once (one symbolic-index read and/or write).  An earlier
//! version that returned from inside a per-slot loop cost 16 k symex steps per insert; this
//! shape costs a few hundred.
#![allow(dead_code, unused_imports, clippy::all, unreachable_pub)]

pub const CAP: usize = 6; // VERIF-CAP (the driver may rewrite this line and the index lists below)

/// Runs `$body` once per slot index with `$i` a constant (no loop to unwind).
macro_rules! unroll {
    ($i:ident, $body:block) => {
        unroll!(@go $i, $body, [0, 1, 2, 3, 4, 5]); // VERIF-CAP-LIST
    };
    (@go $i:ident, $body:block, [$($k:literal),*]) => {
        $( { let $i: usize = $k; $body } )*
    };
}
pub(crate) use unroll;
/// `[f(0), f(1), …]` without the loop inside `std::array::from_fn`.
macro_rules! arr {
    ($f:expr) => {
        arr!(@go $f, [0, 1, 2, 3, 4, 5]) // VERIF-CAP-LIST
    };
    (@go $f:expr, [$($k:literal),*]) => {
        [$( ($f)($k) ),*]
    };
}

fn over_capacity() -> ! {
    #[cfg(kani)]
    kani::assume(false);
    panic!("VS-UNSUPPORTED: stand-in container capacity exceeded")
}

// ---------------------------------------------------------------------------------------
// ordered map
// ---------------------------------------------------------------------------------------
pub struct BTreeMap<K, V> {
    slots: [Option<(K, V)>; CAP],
}

impl<K: Clone, V: Clone> Clone for BTreeMap<K, V> {
    fn clone(&self) -> Self {
        Self { slots: arr!(|i: usize| self.slots[i].clone()) }
    }
}
impl<K: Ord, V> Default for BTreeMap<K, V> {
    fn default() -> Self {
        Self::new()
    }
}
impl<K, V> std::fmt::Debug for BTreeMap<K, V> {
    fn fmt(&self, _f: &mut std::fmt::Formatter<'_>) -> std::fmt::Result {
        Ok(())
    }
}

impl<K: Ord, V> BTreeMap<K, V> {
    pub fn new() -> Self {
        Self { slots: arr!(|_i: usize| None) }
    }
    /// Position of `k`, or `CAP`.  Reads only.
    fn pos(&self, k: &K) -> usize {
        let mut p = CAP;
        unroll!(i, {
            let hit = match &self.slots[i] {
                Some((kk, _)) => kk == k,
                None => false,
            };
            p = if p == CAP && hit { i } else { p };
        });
        p
    }
    /// First free position, or `CAP`.  Reads only.
    fn free(&self) -> usize {
        let mut p = CAP;
        unroll!(i, {
            p = if p == CAP && self.slots[i].is_none() { i } else { p };
        });
        p
    }
    pub fn len(&self) -> usize {
        let mut n = 0;
        unroll!(i, {
            n += self.slots[i].is_some() as usize;
        });
        n
    }
    pub fn is_empty(&self) -> bool {
        self.len() == 0
    }
    pub fn get(&self, k: &K) -> Option<&V> {
        let p = self.pos(k);
        // select among *concrete* element addresses: a reference with a symbolic array offset
        // makes CBMC read the whole array byte-wise (measured: 1.6 M symex steps for one lookup)
        unroll!(i, {
            if i == p {
                return self.slots[i].as_ref().map(|(_, v)| v);
            }
        });
        None
    }
    pub fn get_mut(&mut self, k: &K) -> Option<&mut V> {
        let p = self.pos(k);
        // a place projection with a constant index on the map itself: pointer arithmetic on the slot array
        // (`as_mut_ptr().add(i)`) makes CBMC access the array byte-wise, which explodes for large values
        let me: *mut Self = self;
        unroll!(i, {
            if i == p {
                // SAFETY: i < CAP is a constant index; `me` is the unique borrow of self
                return unsafe { &mut (*me).slots[i] }.as_mut().map(|(_, v)| v);
            }
        });
        None
    }
    pub fn contains_key(&self, k: &K) -> bool {
        self.pos(k) != CAP
    }
    pub fn insert(&mut self, k: K, v: V) -> Option<V> {
        let p = self.pos(&k);
        if p != CAP {
            let mut old = None;
            unroll!(i, {
                if i == p {
                    old = self.slots[i].take();
                }
            });
            self.slots[p] = Some((k, v));
            return old.map(|(_, v)| v);
        }
        let f = self.free();
        if f == CAP {
            over_capacity();
        }
        self.slots[f] = Some((k, v));
        None
    }
    pub fn remove(&mut self, k: &K) -> Option<V> {
        let p = self.pos(k);
        let mut old = None;
        unroll!(i, {
            if i == p {
                old = self.slots[i].take();
            }
        });
        old.map(|(_, v)| v)
    }
    pub fn entry(&mut self, k: K) -> btree_map::Entry<'_, K, V> {
        let p = self.pos(&k);
        if p == CAP {
            return btree_map::Entry::Vacant(btree_map::VacantEntry { map: self, key: k });
        }
        btree_map::Entry::Occupied(btree_map::OccupiedEntry { map: self, pos: p })
    }
    /// Moves every entry with key `>= k` into the returned map.
    pub fn split_off(&mut self, k: &K) -> Self {
        let mut out = Self::new();
        unroll!(i, {
            let mv = match &self.slots[i] {
                Some((kk, _)) => kk >= k,
                None => false,
            };
            if mv {
                out.slots[i] = self.slots[i].take();
            }
        });
        out
    }
    pub fn retain(&mut self, mut f: impl FnMut(&K, &mut V) -> bool) {
        unroll!(i, {
            let keep = match &mut self.slots[i] {
                Some((k, v)) => f(k, v),
                None => true,
            };
            if !keep {
                self.slots[i] = None;
            }
        });
    }
    pub fn iter(&self) -> btree_map::Iter<'_, K, V> {
        btree_map::Iter { map: self, last: None, lo: None, hi: None, done: false }
    }
    pub fn values(&self) -> impl Iterator<Item = &V> {
        self.iter().map(|(_, v)| v)
    }
    pub fn keys(&self) -> impl Iterator<Item = &K> {
        self.iter().map(|(k, _)| k)
    }
    pub fn first_key_value(&self) -> Option<(&K, &V)> {
        self.iter().next()
    }
    pub fn last_key_value(&self) -> Option<(&K, &V)> {
        let mut best = CAP;
        unroll!(i, {
            if let Some((k, _)) = &self.slots[i] {
                let mut better = best == CAP;
                unroll!(j, {
                    if j == best {
                        better = self.slots[j].as_ref().map_or(true, |(bk, _)| k > bk);
                    }
                });
                best = if better { i } else { best };
            }
        });
        unroll!(i, {
            if i == best {
                return self.slots[i].as_ref().map(|(k, v)| (k, v));
            }
        });
        None
    }
    /// Sorted iteration over the keys inside `range` (inclusive/exclusive/unbounded bounds).
    pub fn range<R: std::ops::RangeBounds<K>>(&self, range: R) -> btree_map::Iter<'_, K, V>
    where
        K: Clone,
    {
        use std::ops::Bound::*;
        let lo = match range.start_bound() {
            Included(k) => Some((k.clone(), true)),
            Excluded(k) => Some((k.clone(), false)),
            Unbounded => None,
        };
        let hi = match range.end_bound() {
            Included(k) => Some((k.clone(), true)),
            Excluded(k) => Some((k.clone(), false)),
            Unbounded => None,
        };
        btree_map::Iter { map: self, last: None, lo, hi, done: false }
    }
}

impl<'a, K: Ord, V> IntoIterator for &'a BTreeMap<K, V> {
    type Item = (&'a K, &'a V);
    type IntoIter = btree_map::Iter<'a, K, V>;
    fn into_iter(self) -> Self::IntoIter {
        self.iter()
    }
}

pub mod btree_map {
    use super::unroll;
    use super::{BTreeMap, CAP};

    pub enum Entry<'a, K, V> {
        Occupied(OccupiedEntry<'a, K, V>),
        Vacant(VacantEntry<'a, K, V>),
    }
    // Both entry kinds start with the same `map` reference and the occupied one addresses its slot by
    // position: with `Occupied { slot: &mut Option<(K, V)> }` next to `Vacant { map: &mut BTreeMap }` the two
    // references of different target types share the enum's payload bytes, CBMC then dereferences the slot
    // reference as either target, and for a large `V` (a whole `SlotState`) the byte-wise reinterpretation
    // exhausts memory (measured: `entry().or_insert_with()` on an occupied map, > 30 GB).
    #[repr(C)]
    pub struct OccupiedEntry<'a, K, V> {
        pub(super) map: &'a mut BTreeMap<K, V>,
        pub(super) pos: usize,
    }
    #[repr(C)]
    pub struct VacantEntry<'a, K, V> {
        pub(super) map: &'a mut BTreeMap<K, V>,
        pub(super) key: K,
    }
    impl<'a, K: Ord, V> OccupiedEntry<'a, K, V> {
        fn slot(&self) -> &Option<(K, V)> {
            let p = self.pos;
            unroll!(i, {
                if i == p {
                    return &self.map.slots[i];
                }
            });
            unreachable!()
        }
        fn slot_mut(&mut self) -> &mut Option<(K, V)> {
            let p = self.pos;
            let me: *mut BTreeMap<K, V> = self.map;
            unroll!(i, {
                if i == p {
                    // SAFETY: i < CAP is a constant index; `me` is the unique borrow of the map
                    return unsafe { &mut (*me).slots[i] };
                }
            });
            unreachable!()
        }
        fn into_slot(self) -> &'a mut Option<(K, V)> {
            let p = self.pos;
            let me: *mut BTreeMap<K, V> = self.map;
            unroll!(i, {
                if i == p {
                    // SAFETY: as above; the entry is consumed, the borrow lives for 'a
                    return unsafe { &mut (*me).slots[i] };
                }
            });
            unreachable!()
        }
        pub fn get(&self) -> &V {
            &self.slot().as_ref().unwrap().1
        }
        pub fn get_mut(&mut self) -> &mut V {
            &mut self.slot_mut().as_mut().unwrap().1
        }
        pub fn into_mut(self) -> &'a mut V {
            &mut self.into_slot().as_mut().unwrap().1
        }
        pub fn key(&self) -> &K {
            &self.slot().as_ref().unwrap().0
        }
        pub fn insert(&mut self, v: V) -> V {
            std::mem::replace(self.get_mut(), v)
        }
        pub fn remove(self) -> V {
            self.into_slot().take().unwrap().1
        }
    }
    impl<'a, K: Ord, V> VacantEntry<'a, K, V> {
        pub fn insert(self, v: V) -> &'a mut V {
            let VacantEntry { map, key } = self;
            let f = map.free();
            if f == CAP {
                super::over_capacity();
            }
            map.slots[f] = Some((key, v));
            let me: *mut super::BTreeMap<K, V> = map;
            unroll!(i, {
                if i == f {
                    // SAFETY: i < CAP is a constant index; `me` is the unique borrow of the map
                    return &mut unsafe { &mut (*me).slots[i] }.as_mut().unwrap().1;
                }
            });
            unreachable!()
        }
        pub fn key(&self) -> &K {
            &self.key
        }
    }
    impl<'a, K: Ord, V> Entry<'a, K, V> {
        pub fn or_insert_with(self, f: impl FnOnce() -> V) -> &'a mut V {
            match self {
                Entry::Occupied(e) => e.into_mut(),
                Entry::Vacant(e) => e.insert(f()),
            }
        }
        pub fn or_insert(self, v: V) -> &'a mut V {
            self.or_insert_with(|| v)
        }
        pub fn or_default(self) -> &'a mut V
        where
            V: Default,
        {
            self.or_insert_with(V::default)
        }
        pub fn and_modify(mut self, f: impl FnOnce(&mut V)) -> Self {
            if let Entry::Occupied(e) = &mut self {
                f(e.get_mut());
            }
            self
        }
    }

    /// Sorted iterator (selection of the next-larger key each step: O(CAP²), CAP is tiny).
    pub struct Iter<'a, K, V> {
        pub(super) map: &'a BTreeMap<K, V>,
        pub(super) last: Option<&'a K>,
        pub(super) lo: Option<(K, bool)>,
        pub(super) hi: Option<(K, bool)>,
        pub(super) done: bool,
    }
    impl<'a, K: Ord, V> Iterator for Iter<'a, K, V> {
        type Item = (&'a K, &'a V);
        fn next(&mut self) -> Option<Self::Item> {
            if self.done {
                return None;
            }
            let map = self.map;
            let mut best = CAP;
            unroll!(i, {
                if let Some((k, _)) = &map.slots[i] {
                    let mut ok = match self.last {
                        Some(l) => k > l,
                        None => true,
                    };
                    if let Some((lo, incl)) = &self.lo {
                        ok = ok && (if *incl { k >= lo } else { k > lo });
                    }
                    if let Some((hi, incl)) = &self.hi {
                        ok = ok && (if *incl { k <= hi } else { k < hi });
                    }
                    if ok {
                        let mut better = best == CAP;
                        unroll!(j, {
                            if j == best {
                                better = map.slots[j].as_ref().map_or(true, |(bk, _)| k < bk);
                            }
                        });
                        best = if better { i } else { best };
                    }
                }
            });
            unroll!(i, {
                if i == best {
                    let (k, v) = map.slots[i].as_ref().unwrap();
                    self.last = Some(k);
                    return Some((k, v));
                }
            });
            self.done = true;
            None
        }
    }
}

// ---------------------------------------------------------------------------------------
// ordered set (thin wrapper)
// ---------------------------------------------------------------------------------------
pub struct BTreeSet<T> {
    m: BTreeMap<T, ()>,
}
impl<T: Ord> Default for BTreeSet<T> {
    fn default() -> Self {
        Self::new()
    }
}
impl<T: Clone> Clone for BTreeSet<T> {
    fn clone(&self) -> Self {
        Self { m: self.m.clone() }
    }
}
impl<T> std::fmt::Debug for BTreeSet<T> {
    fn fmt(&self, _f: &mut std::fmt::Formatter<'_>) -> std::fmt::Result {
        Ok(())
    }
}
impl<T: Ord> BTreeSet<T> {
    pub fn new() -> Self {
        Self { m: BTreeMap::new() }
    }
    pub fn insert(&mut self, t: T) -> bool {
        if self.m.contains_key(&t) {
            false
        } else {
            self.m.insert(t, ());
            true
        }
    }
    pub fn contains(&self, t: &T) -> bool {
        self.m.contains_key(t)
    }
    pub fn remove(&mut self, t: &T) -> bool {
        self.m.remove(t).is_some()
    }
    pub fn len(&self) -> usize {
        self.m.len()
    }
    pub fn is_empty(&self) -> bool {
        self.m.is_empty()
    }
    pub fn iter(&self) -> impl Iterator<Item = &T> {
        self.m.iter().map(|(k, _)| k)
    }
    pub fn first(&self) -> Option<&T> {
        self.m.first_key_value().map(|(k, _)| k)
    }
}

// ---------------------------------------------------------------------------------------
// hash map: same array map (iteration order of the real HashMap is unspecified, callers
// must not rely on it; the stand-in iterates in key order)
// ---------------------------------------------------------------------------------------
pub type HashMap<K, V> = BTreeMap<K, V>;
pub mod hash_map {
    pub use super::btree_map::{Entry, OccupiedEntry, VacantEntry};
}

// ---------------------------------------------------------------------------------------
// growable vector (bounded): std Vec with a symbolic length makes every `push` explore the
// reallocation path (symbolic-size memcpy); this one never allocates.
// ---------------------------------------------------------------------------------------
pub struct Vec<T> {
    items: [Option<T>; CAP],
    len: usize,
}
impl<T> Default for Vec<T> {
    fn default() -> Self {
        Self::new()
    }
}
impl<T: Clone> Clone for Vec<T> {
    fn clone(&self) -> Self {
        Self { items: arr!(|i: usize| self.items[i].clone()), len: self.len }
    }
}
impl<T> std::fmt::Debug for Vec<T> {
    fn fmt(&self, _f: &mut std::fmt::Formatter<'_>) -> std::fmt::Result {
        Ok(())
    }
}
impl<T: PartialEq> PartialEq for Vec<T> {
    fn eq(&self, o: &Self) -> bool {
        if self.len != o.len {
            return false;
        }
        let mut eq = true;
        unroll!(i, {
            if i < self.len && self.items[i] != o.items[i] {
                eq = false;
            }
        });
        eq
    }
}
impl<T: Eq> Eq for Vec<T> {}
impl<T> Vec<T> {
    pub fn new() -> Self {
        Self { items: arr!(|_i: usize| None), len: 0 }
    }
    pub fn with_capacity(_n: usize) -> Self {
        Self::new()
    }
    pub fn len(&self) -> usize {
        self.len
    }
    pub fn is_empty(&self) -> bool {
        self.len == 0
    }
    pub fn push(&mut self, t: T) {
        if self.len >= CAP {
            over_capacity();
        }
        self.items[self.len] = Some(t);
        self.len += 1;
    }
    pub fn get(&self, idx: usize) -> Option<&T> {
        unroll!(i, {
            if i == idx && i < self.len {
                return self.items[i].as_ref();
            }
        });
        None
    }
    pub fn iter(&self) -> VecIter<'_, T> {
        VecIter { v: self, i: 0 }
    }
    pub fn contains(&self, t: &T) -> bool
    where
        T: PartialEq,
    {
        let mut c = false;
        unroll!(i, {
            if i < self.len {
                if let Some(x) = &self.items[i] {
                    c = c || x == t;
                }
            }
        });
        c
    }
    pub fn extend(&mut self, it: impl IntoIterator<Item = T>) {
        for x in it {
            self.push(x);
        }
    }
}
pub struct VecIter<'a, T> {
    v: &'a Vec<T>,
    i: usize,
}
impl<'a, T> Iterator for VecIter<'a, T> {
    type Item = &'a T;
    fn next(&mut self) -> Option<&'a T> {
        let v = self.v;
        unroll!(j, {
            if j == self.i && j < v.len {
                self.i += 1;
                return v.items[j].as_ref();
            }
        });
        None
    }
}
impl<'a, T> IntoIterator for &'a Vec<T> {
    type Item = &'a T;
    type IntoIter = VecIter<'a, T>;
    fn into_iter(self) -> VecIter<'a, T> {
        self.iter()
    }
}
pub struct VecIntoIter<T> {
    v: Vec<T>,
    i: usize,
}
impl<T> Iterator for VecIntoIter<T> {
    type Item = T;
    fn next(&mut self) -> Option<T> {
        let mut r = None;
        unroll!(j, {
            if j == self.i && j < self.v.len {
                r = self.v.items[j].take();
            }
        });
        if r.is_some() {
            self.i += 1;
        }
        r
    }
}
impl<T> IntoIterator for Vec<T> {
    type Item = T;
    type IntoIter = VecIntoIter<T>;
    fn into_iter(self) -> VecIntoIter<T> {
        VecIntoIter { v: self, i: 0 }
    }
}
impl<T> std::ops::Index<usize> for Vec<T> {
    type Output = T;
    fn index(&self, idx: usize) -> &T {
        match self.get(idx) {
            Some(t) => t,
            None => panic!("index out of bounds"),
        }
    }
}

// ---------------------------------------------------------------------------------------
// smallvec::SmallVec<[T; N]> as an output list (new / push / iterate)
// ---------------------------------------------------------------------------------------
pub trait Array {
    type Item;
}
impl<T, const N: usize> Array for [T; N] {
    type Item = T;
}
pub struct SmallVec<A: Array>(Vec<A::Item>);
impl<A: Array> Default for SmallVec<A> {
    fn default() -> Self {
        Self(Vec::new())
    }
}
impl<A: Array> Clone for SmallVec<A>
where
    A::Item: Clone,
{
    fn clone(&self) -> Self {
        Self(self.0.clone())
    }
}
impl<A: Array> std::fmt::Debug for SmallVec<A> {
    fn fmt(&self, _f: &mut std::fmt::Formatter<'_>) -> std::fmt::Result {
        Ok(())
    }
}
impl<A: Array> SmallVec<A> {
    pub fn new() -> Self {
        Self(Vec::new())
    }
    pub fn push(&mut self, t: A::Item) {
        self.0.push(t)
    }
    pub fn len(&self) -> usize {
        self.0.len()
    }
    pub fn is_empty(&self) -> bool {
        self.0.is_empty()
    }
    pub fn iter(&self) -> VecIter<'_, A::Item> {
        self.0.iter()
    }
    pub fn contains(&self, t: &A::Item) -> bool
    where
        A::Item: PartialEq,
    {
        self.0.contains(t)
    }
    pub fn extend(&mut self, it: impl IntoIterator<Item = A::Item>) {
        self.0.extend(it)
    }
    pub fn get(&self, i: usize) -> Option<&A::Item> {
        self.0.get(i)
    }
}
impl<A: Array> IntoIterator for SmallVec<A> {
    type Item = A::Item;
    type IntoIter = VecIntoIter<A::Item>;
    fn into_iter(self) -> Self::IntoIter {
        self.0.into_iter()
    }
}
impl<'a, A: Array> IntoIterator for &'a SmallVec<A> {
    type Item = &'a A::Item;
    type IntoIter = VecIter<'a, A::Item>;
    fn into_iter(self) -> Self::IntoIter {
        self.0.iter()
    }
}
impl<A: Array> std::ops::Index<usize> for SmallVec<A> {
    type Output = A::Item;
    fn index(&self, idx: usize) -> &A::Item {
        &self.0[idx]
    }
}
impl<A: Array> FromIterator<A::Item> for SmallVec<A> {
    fn from_iter<I: IntoIterator<Item = A::Item>>(it: I) -> Self {
        let mut s = Self::new();
        s.extend(it);
        s
    }
}

// ---------------------------------------------------------------------------------------
// stand-ins for consensus::pool::sorted_vec::{SortedVecMap, SortedVecSet} (sorted SmallVec
// containers of alpenglow; replaced as container plumbing, verified separately)
// ---------------------------------------------------------------------------------------
pub struct SortedVecMap<K, V>(BTreeMap<K, V>);
impl<K: Ord, V> Default for SortedVecMap<K, V> {
    fn default() -> Self {
        Self(BTreeMap::new())
    }
}
impl<K: Clone, V: Clone> Clone for SortedVecMap<K, V> {
    fn clone(&self) -> Self {
        Self(self.0.clone())
    }
}
impl<K, V> std::fmt::Debug for SortedVecMap<K, V> {
    fn fmt(&self, _f: &mut std::fmt::Formatter<'_>) -> std::fmt::Result {
        Ok(())
    }
}
impl<K: Ord, V> SortedVecMap<K, V> {
    pub fn new() -> Self {
        Self::default()
    }
    pub fn get(&self, k: &K) -> Option<&V> {
        self.0.get(k)
    }
    pub fn get_mut(&mut self, k: &K) -> Option<&mut V> {
        self.0.get_mut(k)
    }
    pub fn get_or_insert_with(&mut self, k: &K, default: impl FnOnce() -> V) -> &mut V
    where
        K: Clone,
    {
        self.0.entry(k.clone()).or_insert_with(default)
    }
}
pub struct SortedVecSet<T>(BTreeMap<T, ()>);
impl<T: Ord> Default for SortedVecSet<T> {
    fn default() -> Self {
        Self(BTreeMap::new())
    }
}
impl<T: Clone> Clone for SortedVecSet<T> {
    fn clone(&self) -> Self {
        Self(self.0.clone())
    }
}
impl<T> std::fmt::Debug for SortedVecSet<T> {
    fn fmt(&self, _f: &mut std::fmt::Formatter<'_>) -> std::fmt::Result {
        Ok(())
    }
}
impl<T: Ord> SortedVecSet<T> {
    pub fn new() -> Self {
        Self::default()
    }
    pub fn insert(&mut self, t: T) -> bool {
        if self.0.contains_key(&t) {
            false
        } else {
            self.0.insert(t, ());
            true
        }
    }
    pub fn contains(&self, t: &T) -> bool {
        self.0.contains_key(t)
    }
    pub fn remove(&mut self, t: &T) -> bool {
        self.0.remove(t).is_some()
    }
    pub fn is_empty(&self) -> bool {
        self.0.is_empty()
    }
}
impl<T: Ord + Clone> IntoIterator for SortedVecSet<T> {
    type Item = T;
    type IntoIter = VecIntoIter<T>;
    /// ascending order, like the sorted vector it stands for
    fn into_iter(self) -> Self::IntoIter {
        let mut out = Vec::new();
        for (k, _) in self.0.iter() {
            out.push(k.clone());
        }
        out.into_iter()
    }
}

// ---------------------------------------------------------------------------------------
// tokio::sync::mpsc::Sender stand-in: anything reaching tokio's mpsc is a Kani internal
// compiler error.  A never-blocking recording queue (FIFO, bounded by CAP): back-pressure
// and closed channels are outside every claim that uses it.
// ---------------------------------------------------------------------------------------
pub mod chan {
    pub struct SendError<T>(pub T);
    impl<T> std::fmt::Debug for SendError<T> {
        fn fmt(&self, _f: &mut std::fmt::Formatter<'_>) -> std::fmt::Result {
            Ok(())
        }
    }
    pub struct Sender<T> {
        q: *mut super::Vec<T>,
    }
    // SAFETY: harnesses are single-threaded; the queue outlives the sender (leaked)
    unsafe impl<T> Send for Sender<T> {}
    unsafe impl<T> Sync for Sender<T> {}
    impl<T> Clone for Sender<T> {
        fn clone(&self) -> Self {
            Self { q: self.q }
        }
    }
    impl<T> Sender<T> {
        /// Synchronous: under Kani the async plumbing of pool.rs is compiled as ordinary functions
        /// (see harness/pool_common.py), so `send(..)` is followed by no `.await`.
        pub fn send(&self, t: T) -> Result<(), SendError<T>> {
            // SAFETY: see above
            unsafe { (*self.q).push(t) };
            Ok(())
        }
    }
    /// Lets the (never executed under Kani) node start-up code that creates real tokio
    /// channels keep compiling when `pool.rs` is redirected to this sender.
    impl<T> From<tokio::sync::mpsc::Sender<T>> for Sender<T> {
        fn from(_s: tokio::sync::mpsc::Sender<T>) -> Self {
            channel().0
        }
    }
    /// The receiving side: the harness reads what was sent.
    pub struct Queue<T> {
        q: *mut super::Vec<T>,
    }
    impl<T> Queue<T> {
        pub fn len(&self) -> usize {
            // SAFETY: see above
            unsafe { (*self.q).len() }
        }
        pub fn get(&self, i: usize) -> Option<&T> {
            // SAFETY: see above
            unsafe { (*self.q).get(i) }
        }
    }
    pub fn channel<T>() -> (Sender<T>, Queue<T>) {
        let q: *mut super::Vec<T> = Box::leak(Box::new(super::Vec::new()));
        (Sender { q }, Queue { q })
    }
}

// ---------------------------------------------------------------------------------------
// contiguous bounded vector that derefs to a slice (stand-in for std Vec where the code under
// test needs `&[T]`).  Storage is a *typed* array inside the struct: CBMC propagates constants
// through it, which it cannot do through the untyped heap block behind a std Vec (measured:
// with std Vec a scan over two concretely known certificates does not fold and the creation
// code of every certificate type is executed symbolically).
// ---------------------------------------------------------------------------------------
pub mod tvec {
    use std::mem::MaybeUninit;

    pub const TCAP: usize = 4;

    pub struct Vec<T> {
        items: [MaybeUninit<T>; TCAP],
        len: usize,
    }
    impl<T> Vec<T> {
        pub const fn new() -> Self {
            Self { items: [const { MaybeUninit::uninit() }; TCAP], len: 0 }
        }
        pub fn with_capacity(_n: usize) -> Self {
            Self::new()
        }
        pub fn len(&self) -> usize {
            self.len
        }
        pub fn is_empty(&self) -> bool {
            self.len == 0
        }
        pub fn push(&mut self, t: T) {
            if self.len >= TCAP {
                super::over_capacity();
            }
            self.items[self.len] = MaybeUninit::new(t);
            self.len += 1;
        }
        pub fn as_slice(&self) -> &[T] {
            // SAFETY: the first `len` elements are initialised
            unsafe { std::slice::from_raw_parts(self.items.as_ptr() as *const T, self.len) }
        }
        pub fn as_mut_slice(&mut self) -> &mut [T] {
            // SAFETY: the first `len` elements are initialised
            unsafe { std::slice::from_raw_parts_mut(self.items.as_mut_ptr() as *mut T, self.len) }
        }
        pub fn extend(&mut self, it: impl IntoIterator<Item = T>) {
            for x in it {
                self.push(x);
            }
        }
        pub fn from_elem(t: T, n: usize) -> Self
        where
            T: Clone,
        {
            let mut v = Self::new();
            let mut i = 0;
            while i < n {
                v.push(t.clone());
                i += 1;
            }
            v
        }
    }
    impl<T> Default for Vec<T> {
        fn default() -> Self {
            Self::new()
        }
    }
    impl<T> std::ops::Deref for Vec<T> {
        type Target = [T];
        fn deref(&self) -> &[T] {
            self.as_slice()
        }
    }
    impl<T> std::ops::DerefMut for Vec<T> {
        fn deref_mut(&mut self) -> &mut [T] {
            self.as_mut_slice()
        }
    }
    impl<T: Clone> Clone for Vec<T> {
        fn clone(&self) -> Self {
            let mut v = Self::new();
            for x in self.as_slice() {
                v.push(x.clone());
            }
            v
        }
    }
    impl<T> std::fmt::Debug for Vec<T> {
        fn fmt(&self, _f: &mut std::fmt::Formatter<'_>) -> std::fmt::Result {
            Ok(())
        }
    }
    impl<T> FromIterator<T> for Vec<T> {
        fn from_iter<I: IntoIterator<Item = T>>(it: I) -> Self {
            let mut v = Self::new();
            v.extend(it);
            v
        }
    }
    impl<'a, T> IntoIterator for &'a Vec<T> {
        type Item = &'a T;
        type IntoIter = std::slice::Iter<'a, T>;
        fn into_iter(self) -> Self::IntoIter {
            self.as_slice().iter()
        }
    }
    pub struct IntoIter<T> {
        v: Vec<T>,
        i: usize,
    }
    impl<T> Iterator for IntoIter<T> {
        type Item = T;
        fn next(&mut self) -> Option<T> {
            if self.i >= self.v.len {
                return None;
            }
            // SAFETY: element i is initialised and read exactly once (the vector is forgotten)
            let t = unsafe { self.v.items[self.i].assume_init_read() };
            self.i += 1;
            Some(t)
        }
    }
    impl<T> IntoIterator for Vec<T> {
        type Item = T;
        type IntoIter = IntoIter<T>;
        fn into_iter(self) -> IntoIter<T> {
            IntoIter { v: self, i: 0 }
        }
    }
    /// `vec![x; n]` and `vec![a, b, ..]` for the stand-in
    macro_rules! tvec_macro {
        ($elem:expr; $n:expr) => {
            $crate::verif_coll::tvec::Vec::from_elem($elem, $n)
        };
        ($($x:expr),* $(,)?) => {{
            let mut v = $crate::verif_coll::tvec::Vec::new();
            $( v.push($x); )*
            v
        }};
    }
    pub(crate) use tvec_macro as vec;
}
