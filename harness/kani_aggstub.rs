//! Overlay module `crate::crypto::aggsig::kani_aggstub` (child of `aggsig`: sees the private
//! fields of `AggregateSignature`).  Opaque aggregate signatures that carry their signer set.
#![allow(dead_code, unused_imports, clippy::all)]

use super::*;

const MAGIC: u64 = 0xA66_5160_0000_0001;

/// Kani: an aggregate "signature" whose first limb is the signer bitmask (no blst, no BitVec).
#[cfg(kani)]
pub(crate) fn token_aggsig(mask: u64) -> AggregateSignature {
    let mut limbs = [0u64; 12];
    limbs[0] = mask;
    limbs[1] = MAGIC;
    // SAFETY: blst_p1_affine is a plain repr(C) struct of 12 limbs
    let sig = unsafe { std::mem::transmute::<[u64; 12], BlstSignature>(limbs) };
    AggregateSignature { sig, bitmask: BitVec::new() }
}

/// Signer set of an aggregate signature as a bitmask over validator indices < 64.
pub(crate) fn mask_of(a: &AggregateSignature) -> u64 {
    #[cfg(kani)]
    {
        // SAFETY: see token_aggsig
        let limbs = unsafe { std::mem::transmute_copy::<BlstSignature, [u64; 12]>(&a.sig) };
        assert!(limbs[1] == MAGIC, "VS-UNSUPPORTED: aggregate signature not created by the stub");
        limbs[0]
    }
    #[cfg(not(kani))]
    {
        let mut m = 0u64;
        for v in a.signers() {
            m |= 1u64 << v.as_usize();
        }
        m
    }
}
