//! Pool-level fixtures (overlay module `crate::consensus::pool::kani_poolfix`, child of `pool`).
//!
//! Under Kani `pool.rs` uses the recording `verif_coll::chan::Sender` instead of tokio's mpsc
//! sender (redirect in spec.py); natively the real tokio channels are used and drained.
#![allow(dead_code, unused_imports, clippy::all)]

use std::future::Future;
use std::pin::pin;
use std::task::{Context, Poll, Waker};

use super::*;
use crate::consensus::kani_fix::Fix;

/// Polls a future once; with the recording channels no pool operation can suspend.
pub(crate) fn block_on_ready<F: Future>(fut: F) -> F::Output {
    let w = Waker::noop();
    let mut cx = Context::from_waker(&w);
    let mut fut = pin!(fut);
    match fut.as_mut().poll(&mut cx) {
        Poll::Ready(v) => v,
        Poll::Pending => panic!("VS-UNSUPPORTED: pool operation suspended"),
    }
}

#[cfg(kani)]
pub(crate) struct Chans {
    pub events: crate::verif_coll::chan::Queue<PoolEvent>,
    pub repairs: crate::verif_coll::chan::Queue<BlockId>,
}
#[cfg(not(kani))]
pub(crate) struct Chans {
    pub events: tokio::sync::mpsc::Receiver<PoolEvent>,
    pub repairs: tokio::sync::mpsc::Receiver<BlockId>,
}

#[cfg(kani)]
pub(crate) fn mk_pool(fx: &Fix) -> (PoolImpl, Chans) {
    // effective capacities of the parent-ready stand-in lists (a stated bound): 2 certified
    // blocks per slot, 4 ready parents per window, 4 announcements per call
    crate::c07_coll::set_caps(2, 4, 4);
    let (etx, events) = crate::verif_coll::chan::channel::<PoolEvent>();
    let (rtx, repairs) = crate::verif_coll::chan::channel::<BlockId>();
    (PoolImpl::new(fx.epoch.clone(), etx, rtx), Chans { events, repairs })
}
#[cfg(not(kani))]
pub(crate) fn mk_pool(fx: &Fix) -> (PoolImpl, Chans) {
    let (etx, events) = tokio::sync::mpsc::channel::<PoolEvent>(1024);
    let (rtx, repairs) = tokio::sync::mpsc::channel::<BlockId>(1024);
    (PoolImpl::new(fx.epoch.clone(), etx, rtx), Chans { events, repairs })
}

impl Chans {
    /// All pool events sent so far, oldest first.
    #[cfg(kani)]
    pub(crate) fn drain_events(&mut self) -> std::vec::Vec<PoolEvent> {
        let mut out = std::vec::Vec::with_capacity(crate::verif_coll::CAP);
        let mut i = 0;
        while i < self.events.len() {
            out.push(self.events.get(i).unwrap().clone());
            i += 1;
        }
        out
    }
    #[cfg(not(kani))]
    pub(crate) fn drain_events(&mut self) -> std::vec::Vec<PoolEvent> {
        let mut out = std::vec::Vec::new();
        while let Ok(e) = self.events.try_recv() {
            out.push(e);
        }
        out
    }
}

/// A vote that has passed validation: natively through the real `ValidatedVote::try_new`
/// (genuine signature), under Kani wrapped directly (signature checks are C09).
pub(crate) fn validated(fx: &Fix, vote: Vote) -> ValidatedVote {
    crate::consensus::validated_vote::kani_vv::trusted(vote, fx.epoch.epoch_info())
}

/// A certificate that has passed validation (see `kani_vc::trusted`).
pub(crate) fn validated_cert(fx: &Fix, cert: Cert) -> ValidatedCert {
    crate::consensus::validated_cert::kani_vc::trusted(cert, fx.epoch.epoch_info())
}

/// Calls of the pool's public entry points: ordinary calls under Kani (async plumbing compiled
/// as plain functions), polled futures natively.
#[cfg(kani)]
pub(crate) fn p_add_vote(pool: &mut PoolImpl, v: ValidatedVote) -> Result<(), AddVoteError> {
    pool.add_vote(v)
}
#[cfg(not(kani))]
pub(crate) fn p_add_vote(pool: &mut PoolImpl, v: ValidatedVote) -> Result<(), AddVoteError> {
    block_on_ready(pool.add_vote(v))
}
#[cfg(kani)]
pub(crate) fn p_add_cert(pool: &mut PoolImpl, c: ValidatedCert) -> Result<(), AddCertError> {
    pool.add_cert(c)
}
#[cfg(not(kani))]
pub(crate) fn p_add_cert(pool: &mut PoolImpl, c: ValidatedCert) -> Result<(), AddCertError> {
    block_on_ready(pool.add_cert(c))
}
#[cfg(kani)]
pub(crate) fn p_standstill(pool: &PoolImpl) {
    pool.recover_from_standstill()
}
#[cfg(not(kani))]
pub(crate) fn p_standstill(pool: &PoolImpl) {
    block_on_ready(pool.recover_from_standstill())
}
#[cfg(kani)]
pub(crate) fn p_add_block(pool: &mut PoolImpl, b: BlockId, p: BlockId) {
    pool.add_block(b, p)
}
#[cfg(not(kani))]
pub(crate) fn p_add_block(pool: &mut PoolImpl, b: BlockId, p: BlockId) {
    block_on_ready(pool.add_block(b, p))
}
