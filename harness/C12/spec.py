import re

SH_MOD = "shredder::kani_c12"
BS_MOD = "consensus::blockstore::slot_block_data::kani_c12_bs"
SBD = "src/consensus/blockstore/slot_block_data.rs"
HASH_STUB = "crypto::hash::hash_all"
SIG_STUB = "ed25519_zebra::VerificationKey::verify"
LOG_STUB = "log::max_level"
CUT_STUB = "BlockData::try_reconstruct_slice"
# SliceCommitment == is a 49-byte memcmp
CBMC = ["--unwindset", "memcmp.0:51"]

COLL = {"src": "verif_coll.rs", "dest": "src/verif_coll.rs", "decl_in": "src/lib.rs", "decl": "pub mod verif_coll;"}
LEAKMAP = {"src": "C12/kani_c12_coll.rs", "dest": "src/verif_leakmap.rs", "decl_in": "src/lib.rs", "decl": "pub mod verif_leakmap;"}
SHARED_OVERLAYS = [
    {"src": "C15/kani_merkle.rs", "dest": "src/crypto/merkle/kani_merkle.rs", "decl_in": "src/crypto/merkle.rs", "decl": "mod kani_merkle;"},
    {"src": "C12/kani_c12_merkle.rs", "dest": "src/crypto/merkle/kani_c12_merkle.rs", "decl_in": "src/crypto/merkle.rs", "decl": "pub(crate) mod kani_c12_merkle;"},
    {"src": "C12/kani_c12_sig.rs", "dest": "src/crypto/signature/kani_c12_sig.rs", "decl_in": "src/crypto/signature.rs", "decl": "pub(crate) mod kani_c12_sig;"},
    {"src": "C12/kani_c12_idx.rs", "dest": "src/types/slice_index/kani_c12_idx.rs", "decl_in": "src/types/slice_index.rs", "decl": "pub(crate) mod kani_c12_idx;"},
]


def redirect(file, line, repl):
    return {"file": file, "pattern": r"^" + re.escape(line) + r"$",
            "replacement": "#[cfg(not(kani))]\n" + line + "\n#[cfg(kani)]\n" + repl, "count": 1}


SHREDS_FIELD = "    pub(super) shreds: BTreeMap<SliceIndex, [Option<ValidatedShred>; TOTAL_SHREDS]>,"
SHREDS_INIT = "            shreds: BTreeMap::new(),"
REDIRECTS = [
    redirect(SBD, "use std::collections::BTreeMap;", "use crate::verif_coll::BTreeMap;"),
    redirect(SBD, "use std::collections::btree_map::Entry;", "use crate::verif_coll::btree_map::Entry;"),
    # the one big-valued map of BlockData: boxed, leak-on-overwrite stand-in (see kani_c12_coll.rs)
    dict(redirect(SBD, SHREDS_FIELD, SHREDS_FIELD.replace("BTreeMap<", "crate::verif_leakmap::BoxMap<")), required=True),
    dict(redirect(SBD, SHREDS_INIT, SHREDS_INIT.replace("BTreeMap::new()", "crate::verif_leakmap::BoxMap::new()")), required=True),
]

Q, T = ["quick", "thorough"], ["thorough"]

VALIDATE_FUNCS = [
    "ValidatedShred::try_new", "ValidatedShred::{commitment,slice_root,payload}", "Shred::{slice_root,payload}", "SliceCommitment::new",
    "SliceMerkleTree::{derive_root,derive_hash_root,hash_leaf,hash_pair}", "Signature::verify_bytes",
]


def _validate(m, k, tiers):
    return {
        "name": f"c12_validate_m{m}_k{k}", "path": SH_MOD, "tiers": tiers, "role": "validation/try_new",
        "functions": VALIDATE_FUNCS,
        "bounds": f"honest slice of {m} shreds with symbolic 2-byte payloads (documented tree shape), arbitrary honest slot / slice index / last flag; shred under validation: slot any u64, slice index any < 1024, last flag, data/coding tag, shred index any position of a tree of the honest height, 2-byte payload, Merkle path of exactly {k} elements (each any honest node / empty-subtree constant / raw value); signature = key (leader / other) x 49 signed bytes (any slot, slice, flag; root honest / this shred's / raw); cached commitment absent or any such 49 bytes",
        "stubs": [HASH_STUB, SIG_STUB], "covers": 6,
        "timeout": {"quick": 420, "thorough": 1500}, "mem_gb": 10, "cbmc_args": CBMC,
    }


EQUIV_FUNCS = ["BlockData::{new,add_shred,mark_last_slice}", "ValidatedShred::{new_validated,commitment}", "SliceCommitment::{new,eq}"]


def _equiv(name, what, tiers, covers, role):
    return {
        "name": name, "path": BS_MOD, "tiers": tiers, "role": role,
        "functions": EQUIV_FUNCS,
        "bounds": f"fresh BlockData of an arbitrary slot; validated data shreds A (shred index 0) and B (shred index 1), each with arbitrary slice index < 1024, last flag and 2-byte payload (empty Merkle path, root = leaf hash), added as A then B; {what}",
        "stubs": [HASH_STUB, LOG_STUB, CUT_STUB], "covers": covers,
        "timeout": {"quick": 600, "thorough": 1500}, "mem_gb": 10, "cbmc_args": CBMC,
    }


SPEC = {
    "property": "C12",
    "level_text": "Bounded symbolic verification of the real shred validation and commitment code. (1) SliceCommitment::new has exactly the documented 49-byte layout and is injective in (slot, slice index, last flag, root). (2) One ValidatedShred::try_new on an arbitrary shred (every header field, tag, payload, position and Merkle path element attacker-chosen) against an honest slice in the documented tree shape, with an arbitrary signature and an arbitrary cached commitment: the solver shows that the shred is accepted iff an identical commitment is cached or the given leader key signed exactly slot || slice index || last flag || derived root; that Equivocation is returned iff a different commitment is cached and the leader signed this one too; that the cached path never accepts a different commitment and never skips verification otherwise; and that under the honest commitment only the honest payload at its own index with the honest header passes (replay under another slot / slice / flag / index and any alteration are rejected). (3) Two validated shreds through BlockData::add_shred in both arrival orders: conflicting commitments for one slice index are reported as Equivocation and nothing of the second is stored. The data/coding tag and the contradictory last-slice marker cases are separate harnesses (genuine findings, see known findings). Sampling cannot enumerate header/path/cache/signature combinations; the solver covers all of them inside the bounds. Not a proof: Merkle paths of at most 3 elements over slices of at most 4 shreds, 2-byte payloads.",
    "level_note": "Assumes SHA-256 is collision-free and consistent with the EMPTY_ROOTS constants (oracle stub) and Ed25519 is an ideal signature scheme (verifies iff that key signed exactly those bytes; oracle stub at ed25519_zebra::VerificationKey::verify, alpenglow's verify_bytes stays real); counterexamples are replayed with real SHA-256 and real keys. Scaled model: slices of 1..4 shreds / paths of 0..3 elements stand for 64 shreds / 6 elements, the shred index ranges over the width of the honest tree (as ShredIndex < TOTAL_SHREDS does). Blockstore harnesses: std BTreeMap of slot_block_data.rs replaced by a bounded array map (verif_coll's, values leaked instead of dropped) under Kani, log level pinned to Off, Reed-Solomon never reached (2 shreds < 32). Trusts Kani's MIR translation, CBMC, CaDiCaL; pointer-validity checks off.",
    "design_ref": "DESIGN.md §4 C12",
    "overlays": SHARED_OVERLAYS + [
        COLL, LEAKMAP,
        {"src": "C12/kani_c12.rs", "dest": "src/shredder/kani_c12.rs", "decl_in": "src/shredder.rs", "decl": "pub(crate) mod kani_c12;"},
        {"src": "C12/kani_c12_bs.rs", "dest": "src/consensus/blockstore/slot_block_data/kani_c12_bs.rs", "decl_in": SBD, "decl": "mod kani_c12_bs;"},
    ],
    "redirects": REDIRECTS,
    "coll_cap": 3,
    "functions": [
        "shredder::SliceCommitment::new", "shredder::validated_shred::ValidatedShred::{try_new,commitment,slice_root,new_validated}", "shredder::Shred::{slice_root,payload,is_data,is_coding}",
        "crypto::merkle::MerkleTree::{derive_root,derive_hash_root,hash_leaf,hash_pair} (instantiation SliceMerkleTree)", "crypto::signature::Signature::verify_bytes",
        "consensus::blockstore::slot_block_data::BlockData::{new,add_shred,mark_last_slice,try_reconstruct_slice (up to the NotEnoughShreds exit)}", "shredder::Shredder::deshred (up to the NotEnoughShreds exit)", "shredder::validated_shreds::ValidatedShreds::{try_new,shred_count}",
    ],
    "bounds": "honest slices of 1..=4 shreds with 2-byte payloads, Merkle paths of 0..=3 elements, one validation call; blockstore: two shreds (shred indices 0 and 1) of arbitrary slice indices / flags / payloads on a fresh BlockData",
    "explanation": "Bounded symbolic verification (Kani -> CBMC -> CaDiCaL) of the real code compiled from /repo's working tree. Validation harnesses: one harness per (honest slice size, path length); the reference commitment bytes and the reference root derivation are written from the documentation, the acceptance condition is the property statement. Blockstore harnesses: a symmetric pair of validated shreds added to a fresh BlockData, compared with a symmetric 'contradicts' predicate, so every arrival order is covered.",
    "assumptions": [
        "SHA-256 (crypto::hash::hash_all) is a collision-free function consistent with the EMPTY_ROOTS recurrence; raw attacker values are not hash outputs of honest nodes",
        "Ed25519 is an ideal signature scheme: verification succeeds iff the named key signed exactly the presented bytes (no forgery, no malleability that changes the message); the leader key is the one the caller passes",
        "scaled dimensions: slices of 1..=4 shreds and paths of 0..=3 elements; the shred index ranges over the width of the honest tree (in /repo: ShredIndex < 64 = width of the 64-leaf tree)",
        "payloads of exactly 2 bytes (an honest shred is never empty)",
        "blockstore harnesses: bounded array map instead of std BTreeMap inside slot_block_data.rs under Kani (<= 3 live entries), log::max_level() == Off, the RegularShredder object is never touched before the NotEnoughShreds exit",
        "pointer-validity checks of CBMC are off; Rust panics, overflow and unwinding assertions stay on",
    ],
    "trusted_base": ["hash oracle (verif_std::hash_oracle + kani_merkle::hash_all_oracle)", "Ed25519 ideal-functionality oracle (kani_c12_sig::oracle)", "RefTree / ref_derive / ref_commit_bytes written from the documentation", "bounded array map stand-in (C12/kani_c12_coll.rs: verif_coll::BTreeMap with leak-on-overwrite, capacity 3)"],
    "outside": [
        "Merkle paths longer than 3 elements, slices wider than 4 shreds (the real 64-shred / 6-element dimension)", "payload lengths other than 2 bytes",
        "deshredding after acceptance (Reed-Solomon), ValidatedShreds layout checks on >= 32 shreds", "the async Blockstore wrapper (tokio channel): InvalidBlock emission / leader_misbehaved gate",
        "Ed25519 and SHA-256 themselves",
    ],
    "harnesses": [
        {"name": "c12_commit_inj", "path": SH_MOD, "tiers": Q, "role": "commitment layout and injectivity", "functions": ["SliceCommitment::new", "SliceCommitment::as_ref", "SliceCommitment::eq"],
         "bounds": "two arbitrary (slot u64, slice index < 1024, last flag, 32-byte root) tuples", "covers": 2, "cbmc_args": CBMC},
        _validate(1, 0, Q), _validate(2, 1, Q), _validate(3, 2, Q),
        _validate(1, 1, T), _validate(2, 0, T), _validate(2, 2, T), _validate(3, 1, T), _validate(4, 2, T), _validate(3, 3, T),
        {"name": "c12_tag_m1_k0", "path": SH_MOD, "tiers": Q, "role": "data/coding tag binding", "functions": VALIDATE_FUNCS + ["Shred::{is_data,is_coding}"],
         "bounds": "the honest leader's shred at index 0 of a one-shred slice, genuine signature, no cache; tag attacker-chosen", "stubs": [HASH_STUB, SIG_STUB], "covers": 1, "cbmc_args": CBMC},
        _equiv("c12_equiv_same", "B carries A's slice index (conflicting slices); A and B symmetric, so both arrival orders of every pair are covered", Q, 3, "blockstore equivocation/same slice"),
        _equiv("c12_equiv_last", "A and B carry different slice indices (last-slice markers); A and B symmetric, so both arrival orders are covered; the class 'A not last, B last at a lower index' is excluded from the completeness direction here and checked by c12_lastorder", Q, 4, "blockstore equivocation/last-slice markers"),
        _equiv("c12_lastorder", "A not marked last, B marked last at a lower slice index (arrival order 'higher slice first')", Q, 1, "blockstore equivocation/last-slice marker below a received slice"),
        _equiv("c12_lastcache", "A marked last, B any other slice index", Q, 1, "blockstore equivocation/rejected commitment cached"),
    ],
}
