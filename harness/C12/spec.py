import re

SH_MOD = "shredder::kani_c12"
BS_MOD = "consensus::blockstore::slot_block_data::kani_c12_bs"
SBD = "src/consensus/blockstore/slot_block_data.rs"
HASH_STUB = "crypto::hash::hash_all"
SIG_STUB = "ed25519_zebra::VerificationKey::verify"
LOG_STUB = "log::max_level"
CUT_STUB = "BlockData::try_reconstruct_slice"
# SliceCommitment == is a 49-byte memcmp
CBMC = ["--unwindset", "memcmp.0:51"]

LEAKMAP = {"src": "C12/kani_c12_coll.rs", "dest": "src/verif_leakmap.rs", "decl_in": "src/lib.rs", "decl": "pub mod verif_leakmap;"}
SHARED_OVERLAYS = [
    {"src": "C15/kani_merkle.rs", "dest": "src/crypto/merkle/kani_merkle.rs", "decl_in": "src/crypto/merkle.rs", "decl": "mod kani_merkle;"},
    {"src": "C12/kani_c12_merkle.rs", "dest": "src/crypto/merkle/kani_c12_merkle.rs", "decl_in": "src/crypto/merkle.rs", "decl": "pub(crate) mod kani_c12_merkle;"},
    {"src": "C12/kani_c12_sig.rs", "dest": "src/crypto/signature/kani_c12_sig.rs", "decl_in": "src/crypto/signature.rs", "decl": "pub(crate) mod kani_c12_sig;"},
    {"src": "C12/kani_c12_idx.rs", "dest": "src/types/slice_index/kani_c12_idx.rs", "decl_in": "src/types/slice_index.rs", "decl": "pub(crate) mod kani_c12_idx;"},
]


def redirect(file, line, repl):
    return {"file": file, "pattern": r"^" + re.escape(line) + r"$",
            "replacement": "#[cfg(not(kani))]\n" + line + "\n#[cfg(kani)]\n" + repl, "count": 1}


REDIRECTS = [
    redirect(SBD, "use std::collections::BTreeMap;", "use crate::verif_leakmap::BTreeMap;"),
    redirect(SBD, "use std::collections::btree_map::Entry;", "use crate::verif_leakmap::btree_map::Entry;"),
]

Q, T = ["quick", "thorough"], ["thorough"]

VALIDATE_FUNCS = [
    "ValidatedShred::try_new", "ValidatedShred::{commitment,slice_root,payload}", "Shred::{slice_root,payload}", "SliceCommitment::new",
    "SliceMerkleTree::{derive_root,derive_hash_root,hash_leaf,hash_pair}", "Signature::verify_bytes",
]


def _validate(m, k, tiers):
    return {
        "name": f"c12_validate_m{m}_k{k}", "path": SH_MOD, "tiers": tiers, "role": "validation/try_new",
        "functions": VALIDATE_FUNCS,
        "bounds": f"honest slice of {m} shreds with symbolic 2-byte payloads (documented tree shape), arbitrary honest slot / slice index / last flag; shred under validation: slot any u64, slice index any < 1024, last flag, data/coding tag, shred index any position of a tree of the honest height, 2-byte payload, Merkle path of exactly {k} elements (each any honest node / empty-subtree constant / raw value); signature = key (leader / other) x 49 signed bytes (any slot, slice, flag; root honest / this shred's / raw); cached commitment absent or any such 49 bytes",
        "stubs": [HASH_STUB, SIG_STUB], "covers": 6,
        "timeout": {"quick": 420, "thorough": 1500}, "mem_gb": 10, "cbmc_args": CBMC,
    }


EQUIV_FUNCS = ["BlockData::{new,add_shred,mark_last_slice}", "ValidatedShred::{new_validated,commitment}", "SliceCommitment::{new,eq}"]


def _equiv(name, what, tiers, covers, role):
    return {
        "name": name, "path": BS_MOD, "tiers": tiers, "role": role,
        "functions": EQUIV_FUNCS,
        "bounds": f"fresh BlockData of an arbitrary slot; validated data shreds A (shred index 0) and B (shred index 1), each with arbitrary slice index < 1024, last flag and 2-byte payload (empty Merkle path, root = leaf hash), added as A then B; {what}",
        "stubs": [HASH_STUB, LOG_STUB, CUT_STUB], "covers": covers,
        "timeout": {"quick": 600, "thorough": 1500}, "mem_gb": 10, "cbmc_args": CBMC,
    }


import os
_c13g = {"__file__": os.path.join(os.path.dirname(os.path.dirname(os.path.abspath(__file__))), "C13", "spec.py")}
exec(compile(open(_c13g["__file__"]).read(), _c13g["__file__"], "exec"), _c13g)
_C13 = _c13g
_C13POST = [h for h in _c13g["SPEC"]["harnesses"] if h["name"] == "c13_post_equiv"][0]
SPEC = {
    "property": "C12",
    "level_text": "Bounded symbolic verification of the real shred validation and commitment code. (1) SliceCommitment::new has exactly the documented 49-byte layout and is injective in (slot, slice index, last flag, root). (2) One ValidatedShred::try_new on an arbitrary shred (every header field, tag, payload, position and Merkle path element attacker-chosen) against an honest slice in the documented tree shape, with an arbitrary signature and an arbitrary cached commitment: the solver shows that the shred is accepted iff an identical commitment is cached or the given leader key signed exactly slot || slice index || last flag || derived root; that Equivocation is returned iff a different commitment is cached and the leader signed this one too; that the cached path never accepts a different commitment and never skips verification otherwise; and that under the honest commitment only the honest payload at its own index with the honest header passes (replay under another slot / slice / flag / index and any alteration are rejected). (3) Two validated shreds through BlockData::add_shred (up to, not including, slice reconstruction) in both arrival orders: conflicting commitments for one slice index are reported as Equivocation exactly when they differ and nothing of the second is stored; for different slice indices Equivocation is reported only for contradictory last-slice markers and always then, except in one input class. Three genuine defects are isolated in harnesses of their own, which FAIL on /repo: c12_tag_m1_k0 (the data/coding tag is bound neither by the signature nor by the Merkle leaf: a tag-flipped shred of a correct leader validates and gets that leader flagged), c12_lastorder (a last-slice marker below an already received slice is not reported in the arrival order 'higher slice first': the stored slice is dropped silently and FirstShred is announced a second time), c12_lastcache (the commitment of a shred rejected as equivocation stays cached). Sampling cannot enumerate header/path/cache/signature combinations; the solver covers all of them inside the bounds. Not a proof: Merkle paths of at most 3 elements over slices of at most 4 shreds, 2-byte payloads. Equivocation after completion (c13_post_equiv, shared with C13): once the block of the slot has been assembled, a second validly signed shred is still reported as equivocation exactly when it contradicts what was accepted.",
    "level_note": "Assumes SHA-256 is collision-free and consistent with the EMPTY_ROOTS constants (oracle stub) and Ed25519 is an ideal signature scheme (verifies iff that key signed exactly those bytes; oracle stub at ed25519_zebra::VerificationKey::verify, alpenglow's verify_bytes stays real); counterexamples are replayed with real SHA-256 and real keys. Scaled model: slices of 1..4 shreds / paths of 0..3 elements stand for 64 shreds / 6 elements, the shred index ranges over the width of the honest tree (as ShredIndex < TOTAL_SHREDS does). Blockstore harnesses: std BTreeMap of slot_block_data.rs replaced by a bounded array map (capacity 3, boxed values, leaked instead of dropped) under Kani, log level pinned to Off, BlockData::try_reconstruct_slice cut to its 'not enough shreds' exit (2 shreds < 32; the real function walks the 64-entry shred array five times and alone exceeds the symbolic-execution budget: measured > 15 min). Trusts Kani's MIR translation, CBMC, CaDiCaL; pointer-validity checks off.",
    "design_ref": "DESIGN.md §4 C12",
    "overlays": SHARED_OVERLAYS + [
        LEAKMAP,
        {"src": "C12/kani_c12.rs", "dest": "src/shredder/kani_c12.rs", "decl_in": "src/shredder.rs", "decl": "pub(crate) mod kani_c12;"},
        {"src": "C12/kani_c12_bs.rs", "dest": "src/consensus/blockstore/slot_block_data/kani_c12_bs.rs", "decl_in": SBD, "decl": "mod kani_c12_bs;"},
    ],
    "redirects": REDIRECTS,
    "functions": [
        "shredder::SliceCommitment::new", "shredder::validated_shred::ValidatedShred::{try_new,commitment,slice_root,new_validated}", "shredder::Shred::{slice_root,payload,is_data,is_coding}",
        "crypto::merkle::MerkleTree::{derive_root,derive_hash_root,hash_leaf,hash_pair} (instantiation SliceMerkleTree)", "crypto::signature::Signature::verify_bytes",
        "consensus::blockstore::slot_block_data::BlockData::{new,add_shred,mark_last_slice}",
    ],
    "bounds": "honest slices of 1..=4 shreds with 2-byte payloads, Merkle paths of 0..=3 elements, one validation call; blockstore: two shreds (shred indices 0 and 1) of arbitrary slice indices / flags / payloads on a fresh BlockData",
    "explanation": "Bounded symbolic verification (Kani -> CBMC -> CaDiCaL) of the real code compiled from /repo's working tree. Validation harnesses: one harness per (honest slice size, path length); the reference commitment bytes and the reference root derivation are written from the documentation, the acceptance condition is the property statement. Blockstore harnesses: a symmetric pair of validated shreds added to a fresh BlockData, compared with a symmetric 'contradicts' predicate, so every arrival order is covered.",
    "assumptions": [
        "SHA-256 (crypto::hash::hash_all) is a collision-free function consistent with the EMPTY_ROOTS recurrence; raw attacker values are not hash outputs of honest nodes",
        "Ed25519 is an ideal signature scheme: verification succeeds iff the named key signed exactly the presented bytes (no forgery, no malleability that changes the message); the leader key is the one the caller passes",
        "scaled dimensions: slices of 1..=4 shreds and paths of 0..=3 elements; the shred index ranges over the width of the honest tree (in /repo: ShredIndex < 64 = width of the 64-leaf tree)",
        "payloads of exactly 2 bytes (an honest shred is never empty)",
        "blockstore harnesses: bounded array map instead of std BTreeMap inside slot_block_data.rs under Kani (<= 3 live entries); log::max_level() == Off; BlockData::try_reconstruct_slice replaced by its 'nothing to do / not enough shreds' exit (two well-formed data shreds stored, Reed-Solomon needs 32), the request is logged and checked; both shreds are data shreds at shred indices 0 and 1",
        "pointer-validity checks of CBMC are off; Rust panics, overflow and unwinding assertions stay on",
    ],
    "trusted_base": ["hash oracle (verif_std::hash_oracle + kani_merkle::hash_all_oracle)", "Ed25519 ideal-functionality oracle (kani_c12_sig::oracle)", "RefTree / ref_derive / ref_commit_bytes written from the documentation", "bounded array map stand-in (C12/kani_c12_coll.rs: verif_coll::BTreeMap's shape with boxed values and leak-on-overwrite, capacity 3)", "cut of BlockData::try_reconstruct_slice (kani_c12_bs::cut)"],
    "outside": [
        "Merkle paths longer than 3 elements, slices wider than 4 shreds (the real 64-shred / 6-element dimension)", "payload lengths other than 2 bytes",
        "slice reconstruction after a shred is stored: BlockData::try_reconstruct_slice, Shredder::deshred, ValidatedShreds::try_new, Reed-Solomon (the consequence of the tag defect - InvalidLayout -> InvalidShred -> leader flagged - is demonstrated natively by the test c12_demo_tag_flip in kani_c12_bs.rs, not by a solver harness)", "more than two shreds per block, coding shreds, duplicates (same shred index) in the blockstore harnesses", "the async Blockstore wrapper (tokio channel): InvalidBlock emission / leader_misbehaved gate",
        "Ed25519 and SHA-256 themselves",
    ],
    "harnesses": [
        {"name": "c12_commit_inj", "path": SH_MOD, "tiers": Q, "role": "commitment layout and injectivity", "functions": ["SliceCommitment::new", "SliceCommitment::as_ref", "SliceCommitment::eq"],
         "bounds": "two arbitrary (slot u64, slice index < 1024, last flag, 32-byte root) tuples", "covers": 2, "cbmc_args": CBMC},
        _validate(1, 0, Q), _validate(2, 1, Q), _validate(3, 2, T),
        _validate(1, 1, T), _validate(2, 0, T), _validate(2, 2, T), _validate(3, 1, T), _validate(4, 2, T), _validate(3, 3, T),
        {"name": "c12_tag_m1_k0", "path": SH_MOD, "tiers": Q, "role": "data/coding tag binding", "functions": VALIDATE_FUNCS + ["Shred::{is_data,is_coding}"],
         "bounds": "the honest leader's shred at index 0 of a one-shred slice, genuine signature, no cache; tag attacker-chosen", "stubs": [HASH_STUB, SIG_STUB], "covers": 1, "cbmc_args": CBMC},
        _equiv("c12_equiv_same", "B carries A's slice index (conflicting slices); A and B symmetric, so both arrival orders of every pair are covered", Q, 3, "blockstore equivocation/same slice"),
        _equiv("c12_equiv_last", "A and B carry different slice indices (last-slice markers); A and B symmetric, so both arrival orders are covered; the class 'A not last, B last at a lower index' is excluded from the completeness direction here and checked by c12_lastorder", Q, 4, "blockstore equivocation/last-slice markers"),
        _equiv("c12_lastorder", "A not marked last, B marked last at a lower slice index (arrival order 'higher slice first')", Q, 1, "blockstore equivocation/last-slice marker below a received slice"),
        dict(_equiv("c12_last3", "", T, 4, "blockstore equivocation/last-slice marker after two slices"),
             bounds="fresh BlockData; three validated data shreds of three different slice indices (each < 1024; payloads fixed, pairwise different): A and B unmarked, then C marked last; every relative order of the three indices",
             timeout={"quick": 900, "thorough": 2400}, mem_gb=24),
        _equiv("c12_lastcache", "A marked last, B any other slice index", T, 1, "blockstore equivocation/rejected commitment cached"),
        # equivocation after the block of the slot was assembled (harness shared with C13, built from C13's overlay set)
        dict(_C13POST, build={"overlays": _C13["OVERLAYS"], "redirects": _C13["REDIRECTS"], "coll_cap": 3}),
    ],
}
