//! Overlay module `crate::crypto::signature::kani_c12_sig` (child of `signature`, so it sees
//! the private tuple fields of `PublicKey` / `Signature` / `SecretKey`).  Shared by C12/C13.
//!
//! * the Ed25519 **verify oracle** that replaces `ed25519_zebra::VerificationKey::verify`
//!   under Kani; alpenglow's own `Signature::verify_bytes` on top of it stays real;
//! * keys and signatures that are opaque tokens under Kani and real ed25519-zebra objects in
//!   native replay.  A signature is always described *structurally*: "key `k` signed exactly
//!   these bytes".  Under Kani the oracle is the ideal signature functionality for that
//!   description (verifies iff the verifier asks with the same key and exactly the same
//!   bytes); natively the real key signs the real bytes and the real verifier runs.  Every
//!   question put to the oracle is logged (key, message bytes, signature, answer).
#![allow(dead_code, unused_imports, unused_variables, clippy::all, static_mut_refs)]

use super::*;
use crate::verif_std as vs;

/// Longest message the oracle supports (a `SliceCommitment` is 49 bytes).
pub(crate) const MAX_MSG: usize = 56;
pub(crate) const MSG_WORDS: usize = MAX_MSG / 8;

/// Key indices: `0` = the slot's leader, `1` = some other validator.
pub(crate) const K_LEADER: usize = 0;
pub(crate) const K_OTHER: usize = 1;
pub(crate) const NKEYS: usize = 2;

/// Byte every byte of key `k`'s token is filled with (Kani only; also its oracle identity).
pub(crate) const fn pk_ident(k: usize) -> u8 {
    0xA1 + k as u8
}

/// First `MAX_MSG` bytes of `d[..n]`, zero padded, as little-endian words (loop-free).
pub(crate) fn msg_words(d: &[u8], n: usize) -> [u64; MSG_WORDS] {
    let at = |i: usize| -> u8 { if i < n { d[i] } else { 0 } };
    let w = |o: usize| -> u64 { u64::from_le_bytes([at(o), at(o + 1), at(o + 2), at(o + 3), at(o + 4), at(o + 5), at(o + 6), at(o + 7)]) };
    [w(0), w(8), w(16), w(24), w(32), w(40), w(48)]
}

pub(crate) fn words_eq7(a: &[u64; MSG_WORDS], b: &[u64; MSG_WORDS]) -> bool {
    a[0] == b[0] && a[1] == b[1] && a[2] == b[2] && a[3] == b[3] && a[4] == b[4] && a[5] == b[5] && a[6] == b[6]
}

// ---------------------------------------------------------------------------------------
// the verify oracle (Kani only)
// ---------------------------------------------------------------------------------------
#[cfg(kani)]
pub(crate) mod oracle {
    use super::*;

    pub const MAXQ: usize = 2;
    /// Signature objects the harness can register (token ids `1..=MAXSIG`).
    pub const MAXSIG: usize = 2;

    #[derive(Clone, Copy)]
    pub struct Query {
        pub sig_id: u8,
        pub pk: u8,
        pub msg_len: usize,
        pub msg: [u64; MSG_WORDS],
        pub answer: bool,
    }
    pub const EMPTY: Query = Query { sig_id: 0, pk: 0, msg_len: 0, msg: [0; MSG_WORDS], answer: false };

    #[derive(Clone, Copy)]
    struct Signed {
        pk: u8,
        len: usize,
        msg: [u64; MSG_WORDS],
    }

    /// All ghost state in ONE static with a unique magic (Kani merges constant allocations
    /// by content, see harness/README.md).
    struct Ghost {
        magic: [u64; 2],
        nq: usize,
        q: [Query; MAXQ],
        signed: [Signed; MAXSIG + 1],
    }
    static mut G: Ghost = Ghost {
        magic: [0xC12_ED25_519A_0001, 0x9E37_79B9_7F4A_7C15],
        nq: 0,
        q: [EMPTY; MAXQ],
        signed: [Signed { pk: 0, len: usize::MAX, msg: [0; MSG_WORDS] }; MAXSIG + 1],
    };

    /// "Key `pk` signed exactly `msg`; the result is the signature object `sig_id`."
    pub fn register(sig_id: u8, pk: u8, msg: &[u8]) {
        if sig_id == 0 || sig_id as usize > MAXSIG || msg.len() > MAX_MSG {
            vs::unsupported("ed25519 oracle: bad registration");
        }
        unsafe { G.signed[sig_id as usize] = Signed { pk, len: msg.len(), msg: msg_words(msg, msg.len()) } }
    }
    pub fn calls() -> usize {
        unsafe { G.nq }
    }
    pub fn query(k: usize) -> Query {
        unsafe { G.q[k] }
    }

    /// Stub for `ed25519_zebra::VerificationKey::verify`: the ideal signature functionality.
    pub fn verify(vk: &ed25519_zebra::VerificationKey, signature: &ed25519_zebra::Signature, msg: &[u8]) -> Result<(), ed25519_zebra::Error> {
        let sig_id = signature.r_bytes()[0];
        let pk = vk.as_ref()[0];
        if msg.len() > MAX_MSG {
            vs::unsupported("ed25519 oracle: message longer than 56 bytes");
        }
        let words = msg_words(msg, msg.len());
        let mut answer = false;
        // unregistered ids (0 = garbage bytes) never verify
        if sig_id as usize >= 1 && sig_id as usize <= MAXSIG {
            let s = unsafe { G.signed[sig_id as usize] };
            answer = s.pk == pk && s.len == msg.len() && words_eq7(&s.msg, &words);
        }
        unsafe {
            if G.nq >= MAXQ {
                vs::unsupported("ed25519 oracle asked more than twice");
            }
            G.q[G.nq] = Query { sig_id, pk, msg_len: msg.len(), msg: words, answer };
            G.nq += 1;
        }
        if answer { Ok(()) } else { Err(ed25519_zebra::Error::InvalidSignature) }
    }
}

// ---------------------------------------------------------------------------------------
// keys and signatures: opaque tokens under Kani, real ed25519-zebra objects natively
// ---------------------------------------------------------------------------------------
pub(crate) struct Keys {
    pub pks: [PublicKey; NKEYS],
    #[cfg(not(kani))]
    sks: [SecretKey; NKEYS],
}

#[cfg(kani)]
pub(crate) fn keys() -> Keys {
    let pks = std::array::from_fn(|k| {
        // `VerificationKey` is plain data (32 key bytes + four field elements of five limbs);
        // every byte of the token is the key's identity, whatever the field order
        let mut pk: PublicKey = unsafe { std::mem::zeroed() };
        unsafe { std::ptr::write_bytes(&mut pk as *mut PublicKey as *mut u8, pk_ident(k), std::mem::size_of::<PublicKey>()) };
        pk
    });
    Keys { pks }
}

#[cfg(not(kani))]
pub(crate) fn keys() -> Keys {
    let sks: [SecretKey; NKEYS] = std::array::from_fn(|k| {
        let seed = [0x5a ^ k as u8; 32];
        SecretKey(ed25519_zebra::SigningKey::from(seed))
    });
    let pks = std::array::from_fn(|k| sks[k].to_pk());
    Keys { pks, sks }
}

/// The signature object `sig_id` (1 or 2): key `signer` signed exactly `msg`.
pub(crate) fn sign(keys: &Keys, sig_id: u8, signer: usize, msg: &[u8]) -> Signature {
    #[cfg(kani)]
    {
        oracle::register(sig_id, pk_ident(signer), msg);
        Signature(ed25519_zebra::Signature::from_components([sig_id; 32], [0u8; 32]))
    }
    #[cfg(not(kani))]
    {
        keys.sks[signer].sign_bytes(msg)
    }
}

/// 64 bytes nobody signed.
pub(crate) fn garbage_sig() -> Signature {
    Signature(ed25519_zebra::Signature::from_components([0u8; 32], [0u8; 32]))
}

/// Number of questions the oracle was asked (Kani); natively unknown (`None`).
pub(crate) fn oracle_calls() -> Option<usize> {
    #[cfg(kani)]
    {
        Some(oracle::calls())
    }
    #[cfg(not(kani))]
    {
        None
    }
}
