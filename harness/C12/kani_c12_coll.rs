//! Overlay module `crate::verif_leakmap` (C12/C13): `BoxMap`, a bounded array map in the shape of
//! `verif_coll::BTreeMap` (scalar position first, one slot access per operation, selection among
//! constant addresses) for ONE field of the blockstore: `BlockData::shreds`, whose values are
//! `[Option<ValidatedShred>; 64]` (~7000 scalars each).  Two differences to `verif_coll::BTreeMap`:
//!
//! 1. values live in a `Box`: stored inline, one `entry().or_insert()` of such an array cost
//!    1.05 M symex steps (160 s, measured) because every structural move of a slot copies the whole
//!    array; boxed, the array is moved once and the map shuffles pointers.  (The price: CBMC loses
//!    constant propagation through the heap object, so the small maps of `slot_block_data.rs` -
//!    `slices`, `commitment_cache` - stay on the inline `verif_coll::BTreeMap`.)
//! 2. a value that is overwritten or removed in place is *leaked*, never dropped (dropping such an
//!    array unrolls 64 x two `Vec` deallocations of drop glue per slot).  Leaking is invisible to
//!    the code under test: no `Drop` impl with side effects is involved.
//!
//! Exceeding the capacity is `kani::assume(false)` (a stated bound).  Only the API subset
//! `slot_block_data.rs` uses on that field.  Kani only; native replay uses the real std `BTreeMap`.
#![allow(dead_code, unused_imports, clippy::all, unreachable_pub)]

pub const CAP: usize = 3;

/// Runs `$body` once per slot index with `$i` a constant (no loop to unwind).
macro_rules! unroll {
    ($i:ident, $body:block) => {
        unroll!(@go $i, $body, [0, 1, 2]);
    };
    (@go $i:ident, $body:block, [$($k:literal),*]) => {
        $( { let $i: usize = $k; $body } )*
    };
}
pub(crate) use unroll;

type Slot<K, V> = Option<(K, Box<V>)>;

/// Overwrites `*dst` without dropping the old value (leak, see module documentation).
#[inline(always)]
fn put<T>(dst: &mut T, v: T) {
    // SAFETY: dst is a valid, aligned, initialised location; the old value is leaked on purpose
    unsafe { std::ptr::write(dst as *mut T, v) }
}
/// `Option::take` without drop glue on the slot.
#[inline(always)]
fn take_leak<T>(dst: &mut Option<T>) -> Option<T> {
    // SAFETY: reads the value out and overwrites the slot with None; nothing is duplicated
    unsafe {
        let old = std::ptr::read(dst as *const Option<T>);
        std::ptr::write(dst as *mut Option<T>, None);
        old
    }
}
/// Moves the value out of its box (the allocation is leaked).
#[inline(always)]
fn unbox<K, V>(old: Option<(K, Box<V>)>) -> Option<V> {
    match old {
        Some((k, b)) => {
            std::mem::forget(k);
            // SAFETY: the box is forgotten right after the read, the value is not duplicated
            let v = unsafe { std::ptr::read(&*b as *const V) };
            std::mem::forget(b);
            Some(v)
        }
        None => None,
    }
}

fn over_capacity() -> ! {
    #[cfg(kani)]
    kani::assume(false);
    panic!("VS-UNSUPPORTED: stand-in container capacity exceeded")
}

pub struct BoxMap<K, V> {
    slots: [Slot<K, V>; CAP],
}

impl<K: Ord, V> Default for BoxMap<K, V> {
    fn default() -> Self {
        Self::new()
    }
}
impl<K, V> std::fmt::Debug for BoxMap<K, V> {
    fn fmt(&self, _f: &mut std::fmt::Formatter<'_>) -> std::fmt::Result {
        Ok(())
    }
}

impl<K: Ord, V> BoxMap<K, V> {
    pub fn new() -> Self {
        Self { slots: [None, None, None] }
    }
    /// Position of `k`, or `CAP`.  Reads only.
    fn pos(&self, k: &K) -> usize {
        let mut p = CAP;
        unroll!(i, {
            let hit = match &self.slots[i] {
                Some((kk, _)) => kk == k,
                None => false,
            };
            p = if p == CAP && hit { i } else { p };
        });
        p
    }
    /// First free position, or `CAP`.  Reads only.
    fn free(&self) -> usize {
        let mut p = CAP;
        unroll!(i, {
            p = if p == CAP && self.slots[i].is_none() { i } else { p };
        });
        p
    }
    /// Stores `(k, v)` at the free position `f` (one move of `v`, into its box).
    fn store(&mut self, f: usize, k: K, v: V) {
        if f >= CAP {
            over_capacity();
        }
        let mut nv = Some((k, Box::new(v)));
        unroll!(i, {
            if i == f {
                put(&mut self.slots[i], nv.take());
            }
        });
        std::mem::forget(nv);
    }
    pub fn len(&self) -> usize {
        let mut n = 0;
        unroll!(i, {
            n += self.slots[i].is_some() as usize;
        });
        n
    }
    pub fn is_empty(&self) -> bool {
        self.len() == 0
    }
    pub fn get(&self, k: &K) -> Option<&V> {
        let p = self.pos(k);
        unroll!(i, {
            if i == p {
                return match &self.slots[i] {
                    Some((_, b)) => Some(&**b),
                    None => None,
                };
            }
        });
        None
    }
    pub fn get_mut(&mut self, k: &K) -> Option<&mut V> {
        let p = self.pos(k);
        let base = self.slots.as_mut_ptr();
        unroll!(i, {
            if i == p {
                // SAFETY: i < CAP is a constant index
                return match unsafe { &mut *base.add(i) } {
                    Some((_, b)) => Some(&mut **b),
                    None => None,
                };
            }
        });
        None
    }
    pub fn contains_key(&self, k: &K) -> bool {
        self.pos(k) != CAP
    }
    pub fn insert(&mut self, k: K, v: V) -> Option<V> {
        let p = self.pos(&k);
        if p != CAP {
            let mut old = None;
            unroll!(i, {
                if i == p {
                    old = take_leak(&mut self.slots[i]);
                }
            });
            self.store(p, k, v);
            return unbox(old);
        }
        let f = self.free();
        self.store(f, k, v);
        None
    }
    pub fn remove(&mut self, k: &K) -> Option<V> {
        let p = self.pos(k);
        let mut old = None;
        unroll!(i, {
            if i == p {
                old = take_leak(&mut self.slots[i]);
            }
        });
        unbox(old)
    }
    pub fn entry(&mut self, k: K) -> box_map::Entry<'_, K, V> {
        let p = self.pos(&k);
        if p == CAP {
            return box_map::Entry::Vacant(box_map::VacantEntry { map: self, key: k });
        }
        let base = self.slots.as_mut_ptr();
        unroll!(i, {
            if i == p {
                // SAFETY: i < CAP is a constant index
                return box_map::Entry::Occupied(box_map::OccupiedEntry { slot: unsafe { &mut *base.add(i) } });
            }
        });
        unreachable!()
    }
    pub fn retain(&mut self, mut f: impl FnMut(&K, &mut V) -> bool) {
        unroll!(i, {
            let keep = match &mut self.slots[i] {
                Some((k, b)) => f(k, &mut **b),
                None => true,
            };
            if !keep {
                put(&mut self.slots[i], None);
            }
        });
    }
    pub fn iter(&self) -> box_map::Iter<'_, K, V> {
        box_map::Iter { map: self, last: None, done: false }
    }
    pub fn values(&self) -> impl Iterator<Item = &V> {
        self.iter().map(|(_, v)| v)
    }
    pub fn keys(&self) -> impl Iterator<Item = &K> {
        self.iter().map(|(k, _)| k)
    }
    pub fn first_key_value(&self) -> Option<(&K, &V)> {
        self.iter().next()
    }
}

impl<'a, K: Ord, V> IntoIterator for &'a BoxMap<K, V> {
    type Item = (&'a K, &'a V);
    type IntoIter = box_map::Iter<'a, K, V>;
    fn into_iter(self) -> Self::IntoIter {
        self.iter()
    }
}

pub mod box_map {
    use super::unroll;
    use super::{BoxMap, CAP, Slot};

    pub enum Entry<'a, K, V> {
        Occupied(OccupiedEntry<'a, K, V>),
        Vacant(VacantEntry<'a, K, V>),
    }
    pub struct OccupiedEntry<'a, K, V> {
        pub(super) slot: &'a mut Slot<K, V>,
    }
    pub struct VacantEntry<'a, K, V> {
        pub(super) map: &'a mut BoxMap<K, V>,
        pub(super) key: K,
    }
    impl<'a, K: Ord, V> OccupiedEntry<'a, K, V> {
        pub fn get(&self) -> &V {
            match &*self.slot {
                Some((_, b)) => &**b,
                None => unreachable!(),
            }
        }
        pub fn get_mut(&mut self) -> &mut V {
            match &mut *self.slot {
                Some((_, b)) => &mut **b,
                None => unreachable!(),
            }
        }
        pub fn into_mut(self) -> &'a mut V {
            match self.slot {
                Some((_, b)) => &mut **b,
                None => unreachable!(),
            }
        }
        pub fn key(&self) -> &K {
            match &*self.slot {
                Some((k, _)) => k,
                None => unreachable!(),
            }
        }
        pub fn insert(&mut self, v: V) -> V {
            std::mem::replace(self.get_mut(), v)
        }
        pub fn remove(self) -> V {
            match super::unbox(super::take_leak(self.slot)) {
                Some(v) => v,
                None => unreachable!(),
            }
        }
    }
    impl<'a, K: Ord, V> VacantEntry<'a, K, V> {
        pub fn insert(self, v: V) -> &'a mut V {
            let VacantEntry { map, key } = self;
            let f = map.free();
            map.store(f, key, v);
            let base = map.slots.as_mut_ptr();
            unroll!(i, {
                if i == f {
                    // SAFETY: i < CAP is a constant index
                    return match unsafe { &mut *base.add(i) } {
                        Some((_, b)) => &mut **b,
                        None => unreachable!(),
                    };
                }
            });
            unreachable!()
        }
        pub fn key(&self) -> &K {
            &self.key
        }
    }
    impl<'a, K: Ord, V> Entry<'a, K, V> {
        pub fn or_insert_with(self, f: impl FnOnce() -> V) -> &'a mut V {
            match self {
                Entry::Occupied(e) => e.into_mut(),
                Entry::Vacant(e) => e.insert(f()),
            }
        }
        /// The unused default of an occupied entry is leaked, not dropped.
        pub fn or_insert(self, v: V) -> &'a mut V {
            match self {
                Entry::Occupied(e) => {
                    std::mem::forget(v);
                    e.into_mut()
                }
                Entry::Vacant(e) => e.insert(v),
            }
        }
        pub fn or_default(self) -> &'a mut V
        where
            V: Default,
        {
            self.or_insert_with(V::default)
        }
        pub fn and_modify(mut self, f: impl FnOnce(&mut V)) -> Self {
            if let Entry::Occupied(e) = &mut self {
                f(e.get_mut());
            }
            self
        }
    }

    /// Sorted iterator (selection of the next-larger key each step: O(CAP^2), CAP is tiny).
    pub struct Iter<'a, K, V> {
        pub(super) map: &'a BoxMap<K, V>,
        pub(super) last: Option<&'a K>,
        pub(super) done: bool,
    }
    impl<'a, K: Ord, V> Iterator for Iter<'a, K, V> {
        type Item = (&'a K, &'a V);
        fn next(&mut self) -> Option<Self::Item> {
            if self.done {
                return None;
            }
            let map = self.map;
            let mut best = CAP;
            unroll!(i, {
                if let Some((k, _)) = &map.slots[i] {
                    let ok = match self.last {
                        Some(l) => k > l,
                        None => true,
                    };
                    if ok {
                        let mut better = best == CAP;
                        unroll!(j, {
                            if j == best {
                                better = match &map.slots[j] {
                                    Some((bk, _)) => k < bk,
                                    None => true,
                                };
                            }
                        });
                        best = if better { i } else { best };
                    }
                }
            });
            unroll!(i, {
                if i == best {
                    return match &map.slots[i] {
                        Some((k, b)) => {
                            self.last = Some(k);
                            Some((k, &**b))
                        }
                        None => unreachable!(),
                    };
                }
            });
            self.done = true;
            None
        }
    }
}

/// The same map under the names `slot_block_data.rs` imports (C12 redirects all three maps of
/// `BlockData` here: with the inline `verif_coll::BTreeMap` for the small ones the solver input of
/// the two-shred harnesses exceeds the memory cap, measured).
pub type BTreeMap<K, V> = BoxMap<K, V>;
pub mod btree_map {
    pub use super::box_map::{Entry, OccupiedEntry, VacantEntry};
}
