//! Overlay module `crate::crypto::merkle::kani_c12_merkle` (child of `merkle`): crate-visible
//! access to the shared Merkle helpers of `kani_merkle` (which is a private module) plus the
//! reference root derivation for `SliceMerkleTree`, written from the module documentation.
//! Shared by C12/C13.
#![allow(dead_code, unused_imports, clippy::all)]

use super::*;
pub(crate) use super::kani_merkle::{RefTree, any_raw_hash, empty_root, h2w, init_oracle, w2h};
use crate::verif_std as vs;

/// Stub target for `crate::crypto::hash::hash_all` (Kani only): the shared hash oracle.
#[cfg(kani)]
pub(crate) fn hash_all_oracle(data: &[&[u8]]) -> Hash {
    super::kani_merkle::hash_all_oracle(data)
}

/// Stub target for `log::max_level` (Kani only): no logger is installed, logging is off
/// (natively the real function returns the same value, the static's initial `Off`).
#[cfg(kani)]
pub(crate) fn log_off() -> log::LevelFilter {
    log::LevelFilter::Off
}

type ST = SliceMerkleTree;
type DT = DoubleMerkleTree;

/// Leaf hash of a shred payload in the per-slice tree.
pub(crate) fn slice_leaf_hash(data: &Vec<u8>) -> Hash {
    ST::hash_leaf(data)
}
/// Leaf hash of a slice root in the double-Merkle tree.
pub(crate) fn double_leaf_hash(r: &SliceRoot) -> Hash {
    DT::hash_leaf(r)
}
pub(crate) fn pair(l: &Hash, r: &Hash) -> Hash {
    ST::hash_pair(l, r)
}
pub(crate) fn slice_root_of(h: Hash) -> SliceRoot {
    SliceRoot(h)
}
pub(crate) fn block_hash_of(h: Hash) -> BlockHash {
    DoubleMerkleRoot(h)
}
pub(crate) fn root_words(r: &SliceRoot) -> [u64; 4] {
    h2w(&r.0)
}
pub(crate) fn block_hash_words(r: &BlockHash) -> [u64; 4] {
    h2w(&r.0)
}
pub(crate) fn root_bytes(r: &SliceRoot) -> [u8; 32] {
    r.0.0
}

/// Reference derivation, from the documentation of the tree: the leaf sits at position
/// `index`; at level `l` it is the left child iff bit `l` of `index` is 0, and the `l`-th proof
/// element is its sibling.
pub(crate) fn ref_derive<const K: usize>(leaf_hash: Hash, index: usize, proof: &[Hash; K]) -> Hash {
    let mut node = leaf_hash;
    let mut l = 0;
    while l < K {
        node = if (index >> l) & 1 == 0 { pair(&node, &proof[l]) } else { pair(&proof[l], &node) };
        l += 1;
    }
    node
}
