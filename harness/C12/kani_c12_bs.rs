//! C12 harnesses, part 2 (overlay module
//! `crate::consensus::blockstore::slot_block_data::kani_c12_bs`, child of `slot_block_data`:
//! sees the private `BlockData::add_shred`).
//!
//! Two validated shreds A (shred index 0) and B (shred index 1) of one slot, arbitrary slice
//! indices, last-slice flags and payloads, added to a fresh `BlockData` as A then B.  A and B
//! range over the same symbolic domain, so the pair (A, B) covers both arrival orders of every
//! two shreds; the expected verdict is the *symmetric* predicate `contradicts(A, B)`:
//!
//! `c12_equiv_same`  same slice index: Equivocation iff the commitments differ; nothing of B stored.
//! `c12_equiv_last`  different slice indices: Equivocation only if the last-slice markers contradict
//!                   (two last slices, or a slice beyond the one marked last), and always then -
//!                   except for the input class of `c12_lastorder`; nothing of a rejected shred is
//!                   stored in the shred table, the marker is unchanged.
//! `c12_lastorder`   the remaining class: A not last, B marked last at a lower slice index (the
//!                   order "higher slice first"): must be Equivocation too.  FAILS on /repo (finding).
//! `c12_lastcache`   A marked last, B another slice: when B is rejected as equivocation its
//!                   commitment must not stay cached.  FAILS on /repo (finding).
//!
//! Cut: `BlockData::try_reconstruct_slice` (-> Reed-Solomon) is replaced by its "not enough
//! shreds" exit, see `cut`.
#![allow(dead_code, unused_imports, unused_variables, clippy::all)]

use super::*;
use crate::crypto::merkle::kani_c12_merkle as km;
use crate::shredder::kani_c12 as sh;
use crate::verif_std as vs;
use crate::verif_std::{vcheck, vcover};

struct Sh {
    slice: SliceIndex,
    last: bool,
    data: [u8; sh::D],
}
fn any_sh() -> Sh {
    Sh { slice: sh::any_slice_index(), last: vs::any_bool(), data: vs::any_bytes::<{ sh::D }>() }
}

/// The shredder handed to `add_shred`.  With fewer than `DATA_SHREDS` shreds stored the real
/// code never touches it; under Kani it is therefore left uninitialised (building the real
/// Reed-Solomon tables is out of reach), natively it is the real `RegularShredder`.
struct ShredderBox {
    #[cfg(kani)]
    mu: std::mem::MaybeUninit<RegularShredder>,
    #[cfg(not(kani))]
    real: RegularShredder,
}
impl ShredderBox {
    fn new() -> Self {
        #[cfg(kani)]
        {
            Self { mu: std::mem::MaybeUninit::uninit() }
        }
        #[cfg(not(kani))]
        {
            Self { real: RegularShredder::default() }
        }
    }
    fn get(&mut self) -> &mut RegularShredder {
        #[cfg(kani)]
        {
            unsafe { &mut *self.mu.as_mut_ptr() }
        }
        #[cfg(not(kani))]
        {
            &mut self.real
        }
    }
}

/// Stub for `BlockData::try_reconstruct_slice` (Kani only): the cut "up to, not including,
/// Reed-Solomon reconstruction".  With fewer than `DATA_SHREDS` well-formed shreds stored the
/// real function leaves through `Shredder::deshred`'s `NotEnoughShreds` exit without touching
/// any state; the stub returns that result and records the request.  (The real function walks
/// the 64-entry shred array five times, which alone exceeds the symbolic-execution budget;
/// natively the real function runs.)
#[cfg(kani)]
pub(crate) mod cut {
    use super::*;
    struct Ghost {
        magic: [u64; 2],
        calls: usize,
        index: usize,
    }
    static mut G: Ghost = Ghost { magic: [0xC12_B10C_5707_0001, 0x9E37_79B9_7F4A_7C15], calls: 0, index: usize::MAX };
    pub fn calls() -> usize {
        unsafe { G.calls }
    }
    pub fn index() -> usize {
        unsafe { G.index }
    }
    pub fn try_reconstruct_slice(this: &mut BlockData, index: SliceIndex, _shredder: &mut RegularShredder) -> ReconstructSliceResult {
        unsafe {
            G.calls += 1;
            G.index = index.inner();
        }
        if this.completed.is_some() || this.slices.contains_key(&index) {
            return ReconstructSliceResult::NoAction;
        }
        if this.shreds.get(&index).is_none() {
            panic!("caller must insert at least one shred before reconstructing");
        }
        ReconstructSliceResult::NoAction
    }
}

fn is_equivocation(r: &Result<Option<BlockstoreEvent>, AddShredError>) -> bool {
    matches!(r, Err(AddShredError::Equivocation))
}

fn stored(bd: &BlockData, slice: SliceIndex, idx: usize) -> bool {
    match bd.shreds.get(&slice) {
        Some(arr) => arr[idx].is_some(),
        None => false,
    }
}

fn cache_is(bd: &BlockData, slice: SliceIndex, c: &SliceCommitment) -> bool {
    match bd.commitment_cache.get(&slice) {
        Some(x) => sh::commit_eq(&sh::commitment_bytes(x), &sh::commitment_bytes(c)),
        None => false,
    }
}

/// Everything the checks of one mode look at.
struct Ctx {
    a_slice: SliceIndex,
    a_last: bool,
    b_slice: SliceIndex,
    b_last: bool,
    differ: bool,
    equiv: bool,
    accepted_silently: bool,
    first_again: bool,
    b_stored: bool,
    a_kept: bool,
    b_cached: bool,
    b_cache_is_b: bool,
    last_after_a: Option<SliceIndex>,
    last_after_b: Option<SliceIndex>,
}
impl Ctx {
    /// What the property calls a contradiction between two validly signed shreds of different
    /// slices; symmetric in (A, B).
    fn markers_contradict(&self) -> bool {
        (self.a_last && self.b_last) || (self.a_last && self.b_slice > self.a_slice) || (self.b_last && self.a_slice > self.b_slice)
    }
    /// The input class handled by `c12_lastorder`.
    fn higher_slice_first(&self) -> bool {
        !self.a_last && self.b_last && self.a_slice > self.b_slice
    }
    fn check_rejected_left_no_trace(&self) {
        vcheck!(!self.b_stored, "a shred rejected as equivocation was stored");
        vcheck!(self.a_kept, "the earlier shred or its commitment was dropped on equivocation");
        vcheck!(self.last_after_b == self.last_after_a, "a shred rejected as equivocation changed the last-slice marker");
    }
    fn check_consistent_stored(&self) {
        vcheck!(self.accepted_silently, "a consistent second shred was not accepted silently");
        vcheck!(self.b_stored && self.b_cache_is_b, "a consistent second shred or its commitment is not stored");
        vcheck!(self.a_kept, "a consistent second shred displaced the first");
        let want_last = if self.a_last { Some(self.a_slice) } else if self.b_last { Some(self.b_slice) } else { None };
        vcheck!(self.last_after_b == want_last, "last-slice marker differs from the flags seen");
    }
}

trait Mode {
    const SAME: bool;
    /// Narrows the drawn pair to the mode's input class (flags made concrete where the class fixes them).
    fn narrow(a: &mut Sh, b: &mut Sh);
    fn checks(c: &Ctx);
    fn covers(c: &Ctx);
}

struct SameSlice;
impl Mode for SameSlice {
    const SAME: bool = true;
    fn narrow(a: &mut Sh, b: &mut Sh) {
        b.slice = a.slice;
    }
    fn checks(c: &Ctx) {
        vcheck!(c.equiv == c.differ, "conflicting commitments for one slice index: Equivocation not reported exactly when they differ");
        vcheck!(c.equiv || c.accepted_silently, "the second shred was neither accepted silently nor reported as equivocation");
        if c.equiv {
            c.check_rejected_left_no_trace();
            vcheck!(!c.b_cache_is_b, "the second commitment replaced the cached one");
        } else {
            c.check_consistent_stored();
        }
    }
    fn covers(c: &Ctx) {
        vcover!(c.equiv && c.a_last == c.b_last, "equivocation by payload");
        vcover!(c.equiv && c.a_last != c.b_last, "equivocation by last-slice flag");
        vcover!(!c.equiv, "identical commitment stored");
    }
}

struct OtherSlice;
impl Mode for OtherSlice {
    const SAME: bool = false;
    fn narrow(a: &mut Sh, b: &mut Sh) {
        vs::assume(a.slice != b.slice);
    }
    fn checks(c: &Ctx) {
        vcheck!(!c.equiv || c.markers_contradict(), "Equivocation reported for consistent last-slice markers");
        // the class `higher_slice_first` is checked by c12_lastorder
        vcheck!(c.equiv || !c.markers_contradict() || c.higher_slice_first(), "contradictory last-slice markers are not reported as Equivocation");
        vcheck!(c.equiv || c.accepted_silently || c.higher_slice_first(), "the second shred was neither accepted silently nor reported as equivocation");
        if c.equiv {
            c.check_rejected_left_no_trace();
        } else if !c.markers_contradict() {
            c.check_consistent_stored();
        }
    }
    fn covers(c: &Ctx) {
        vcover!(c.equiv && c.a_last && c.b_last, "two last slices");
        vcover!(c.equiv && c.a_last && !c.b_last, "slice beyond the one marked last");
        vcover!(!c.equiv && !c.markers_contradict() && c.b_last, "consistent: second shred marks the last slice");
        vcover!(!c.equiv && !c.markers_contradict() && c.a_last, "consistent: slice below the one marked last");
    }
}

struct HigherSliceFirst;
impl Mode for HigherSliceFirst {
    const SAME: bool = false;
    fn narrow(a: &mut Sh, b: &mut Sh) {
        a.last = false;
        b.last = true;
        vs::assume(b.slice < a.slice);
    }
    fn checks(c: &Ctx) {
        vcheck!(c.equiv, "a last-slice marker below an already received slice is not reported as Equivocation (arrival order: higher slice first)");
        vcheck!(!c.first_again, "FirstShred announced a second time for the slot");
        vcheck!(c.a_kept || c.equiv, "an already stored slice was dropped silently");
    }
    fn covers(c: &Ctx) {
        vcover!(c.markers_contradict() && c.higher_slice_first(), "higher slice first, then a lower slice marked last");
    }
}

struct LastThenOther;
impl Mode for LastThenOther {
    const SAME: bool = false;
    fn narrow(a: &mut Sh, b: &mut Sh) {
        a.last = true;
        vs::assume(a.slice != b.slice);
    }
    fn checks(c: &Ctx) {
        if c.equiv {
            vcheck!(!c.b_cached, "the commitment of a shred rejected as equivocation was cached");
        }
    }
    fn covers(c: &Ctx) {
        vcover!(c.equiv, "second shred rejected as equivocation");
    }
}

fn equiv_body<M: Mode>() {
    km::init_oracle(4, 8);
    let slot = vs::any_u64();
    let mut a = any_sh();
    let mut b = any_sh();
    M::narrow(&mut a, &mut b);
    let va = sh::mk_validated::<0>(false, sh::mk_header(slot, a.slice, a.last), 0, a.data, &[]);
    let vb = sh::mk_validated::<0>(false, sh::mk_header(slot, b.slice, b.last), 1, b.data, &[]);
    let ca = va.commitment();
    let cb = vb.commitment();
    let differ = !sh::commit_eq(&sh::commitment_bytes(&ca), &sh::commitment_bytes(&cb));

    let mut bd = BlockData::new(Slot::new(slot));
    let mut shredder = ShredderBox::new();

    let r1 = bd.add_shred(va, shredder.get());
    let first_ok = matches!(&r1, Ok(Some(BlockstoreEvent::FirstShred(s))) if s.inner() == slot);
    vcheck!(first_ok, "the first shred of a block is not announced as FirstShred");
    vcheck!(cache_is(&bd, a.slice, &ca) && stored(&bd, a.slice, 0), "the first shred or its commitment is not stored");
    let last_after_a = bd.last_slice;
    vcheck!(last_after_a == if a.last { Some(a.slice) } else { None }, "last-slice marker differs from the first shred's flag");

    let r2 = bd.add_shred(vb, shredder.get());

    let c = Ctx {
        a_slice: a.slice,
        a_last: a.last,
        b_slice: b.slice,
        b_last: b.last,
        differ,
        equiv: is_equivocation(&r2),
        accepted_silently: matches!(r2, Ok(None)),
        first_again: matches!(r2, Ok(Some(BlockstoreEvent::FirstShred(_)))),
        b_stored: stored(&bd, b.slice, 1),
        a_kept: stored(&bd, a.slice, 0) && cache_is(&bd, a.slice, &ca),
        b_cached: bd.commitment_cache.get(&b.slice).is_some(),
        b_cache_is_b: cache_is(&bd, b.slice, &cb),
        last_after_a,
        last_after_b: bd.last_slice,
    };
    M::checks(&c);
    vcheck!(bd.completed.is_none() && bd.slices.is_empty(), "a block or slice appeared out of two shreds");
    #[cfg(kani)]
    {
        // the first shred of a block returns before any reconstruction attempt
        let stored_b = !c.equiv && !c.first_again;
        vcheck!(cut::calls() == if stored_b { 1 } else { 0 }, "slice reconstruction not attempted exactly when the second shred was stored");
        vcheck!(!stored_b || cut::index() == b.slice.inner(), "slice reconstruction attempted for a slice other than the stored shred's");
    }
    std::mem::forget(r1);
    std::mem::forget(r2);
    std::mem::forget(bd);
    M::covers(&c);
}

macro_rules! equiv {
    ($name:ident, $mode:ty) => {
        #[cfg_attr(kani, kani::proof)]
        #[cfg_attr(kani, kani::stub(crate::crypto::hash::hash_all, crate::crypto::merkle::kani_c12_merkle::hash_all_oracle))]
        #[cfg_attr(kani, kani::stub(log::max_level, crate::crypto::merkle::kani_c12_merkle::log_off))]
        #[cfg_attr(kani, kani::stub(crate::consensus::blockstore::slot_block_data::BlockData::try_reconstruct_slice, crate::consensus::blockstore::slot_block_data::kani_c12_bs::cut::try_reconstruct_slice))]
        #[cfg_attr(kani, kani::unwind(34))]
        #[cfg_attr(verif_replay, test)]
        fn $name() {
            equiv_body::<$mode>()
        }
    };
}
equiv!(c12_equiv_same, SameSlice);
equiv!(c12_equiv_last, OtherSlice);
equiv!(c12_lastorder, HigherSliceFirst);
equiv!(c12_lastcache, LastThenOther);

/// Three shreds of three different slices: A and B unmarked, then C marked last.  C contradicts
/// the shreds already accepted iff one of them lies beyond it - whichever of the two it is (the
/// lowest or the highest slice received so far).
fn three_body() {
    km::init_oracle(4, 12);
    let slot = vs::any_u64();
    let mut a = any_sh();
    let mut b = any_sh();
    let mut c = any_sh();
    a.last = false;
    b.last = false;
    c.last = true;
    // the marker logic does not look at payloads (c12_equiv_* vary them): fixed here
    a.data = [1; sh::D];
    b.data = [2; sh::D];
    c.data = [3; sh::D];
    vs::assume(a.slice != b.slice && a.slice != c.slice && b.slice != c.slice);
    let va = sh::mk_validated::<0>(false, sh::mk_header(slot, a.slice, a.last), 0, a.data, &[]);
    let vb = sh::mk_validated::<0>(false, sh::mk_header(slot, b.slice, b.last), 1, b.data, &[]);
    let vc = sh::mk_validated::<0>(false, sh::mk_header(slot, c.slice, c.last), 2, c.data, &[]);
    let (ca, cb) = (va.commitment(), vb.commitment());

    let mut bd = BlockData::new(Slot::new(slot));
    let mut shredder = ShredderBox::new();
    let r1 = bd.add_shred(va, shredder.get());
    let r2 = bd.add_shred(vb, shredder.get());
    vcheck!(matches!(r1, Ok(Some(BlockstoreEvent::FirstShred(_)))) && matches!(r2, Ok(None)), "two unmarked shreds of different slices were not accepted");
    vcheck!(bd.last_slice.is_none(), "a last-slice marker appeared without a marked shred");
    let r3 = bd.add_shred(vc, shredder.get());

    let beyond = a.slice > c.slice || b.slice > c.slice;
    let equiv = is_equivocation(&r3);
    vcheck!(equiv == beyond, "a last-slice marker is not reported as Equivocation exactly when a slice beyond it was already received");
    vcheck!(equiv || matches!(r3, Ok(None)), "the third shred was neither accepted silently nor reported as equivocation");
    vcheck!(stored(&bd, a.slice, 0) && cache_is(&bd, a.slice, &ca) && stored(&bd, b.slice, 1) && cache_is(&bd, b.slice, &cb), "an earlier shred or its commitment was dropped");
    if equiv {
        vcheck!(!stored(&bd, c.slice, 2) && bd.last_slice.is_none() && bd.commitment_cache.get(&c.slice).is_none(), "a shred rejected as equivocation left a trace");
    } else {
        vcheck!(stored(&bd, c.slice, 2) && bd.last_slice == Some(c.slice), "a consistent last slice was not stored / marked");
    }
    std::mem::forget(r1);
    std::mem::forget(r2);
    std::mem::forget(r3);
    std::mem::forget(bd);
    vcover!(equiv && a.slice < c.slice, "only the later-received higher slice lies beyond the marker");
    vcover!(equiv && b.slice < c.slice, "only the first-received slice lies beyond the marker");
    vcover!(equiv && a.slice > c.slice && b.slice > c.slice, "both lie beyond the marker");
    vcover!(!equiv, "marker above everything received");
}

#[cfg_attr(kani, kani::proof)]
#[cfg_attr(kani, kani::stub(crate::crypto::hash::hash_all, crate::crypto::merkle::kani_c12_merkle::hash_all_oracle))]
#[cfg_attr(kani, kani::stub(log::max_level, crate::crypto::merkle::kani_c12_merkle::log_off))]
#[cfg_attr(kani, kani::stub(crate::consensus::blockstore::slot_block_data::BlockData::try_reconstruct_slice, crate::consensus::blockstore::slot_block_data::kani_c12_bs::cut::try_reconstruct_slice))]
#[cfg_attr(kani, kani::unwind(34))]
#[cfg_attr(verif_replay, test)]
fn c12_last3() {
    three_body()
}

// ---------------------------------------------------------------------------------------
// Native demonstration of the c12_tag finding on the real objects (real RegularShredder, real
// Ed25519 and SHA-256, real async BlockstoreImpl): `cargo test --lib c12_demo_tag_flip` in the
// native overlay build.  Not a Kani harness.
// ---------------------------------------------------------------------------------------
#[cfg(all(verif_replay, not(kani), test))]
mod demo {
    use tokio::sync::mpsc;

    use super::*;
    use crate::consensus::blockstore::{Blockstore, BlockstoreImpl};
    use crate::crypto::signature::SecretKey;
    use crate::shredder::{DATA_SHREDS, Shredder};
    use crate::test_utils::create_random_block;

    /// A relay flips the data/coding tag of ONE shred of a correct leader's slice.  The shred still
    /// validates under the leader's key (signature and Merkle path do not cover the tag), a correct
    /// node stores it, the next honest shred then fails the layout check of reconstruction, the
    /// *correct* leader is flagged (InvalidBlock) and the node refuses every further shred of the
    /// slot from dissemination: the block is never reconstructed.
    #[tokio::test]
    async fn c12_demo_tag_flip() {
        let sk = SecretKey::new(&mut rand::rng());
        let pk = sk.to_pk();
        let slot = Slot::new(5);
        let slices = create_random_block(slot, 1);
        let shreds = RegularShredder::default().shred(&slices[0], &sk).unwrap();
        assert!(shreds[0].is_data());

        // the attacker's copy of data shred 0, tag flipped to "coding"
        let flipped = sh::flip_tag(shreds[0].clone().into_shred());
        let v = ValidatedShred::try_new(flipped.clone(), None, &pk).expect("tag-flipped shred passes full validation");
        assert!(v.is_coding() && *v.payload().shred_index == 0 && 0 < DATA_SHREDS);
        assert_eq!(v.commitment(), shreds[1].commitment());
        // also through the cached-commitment shortcut
        assert!(ValidatedShred::try_new(flipped, Some(&shreds[1].commitment()), &pk).is_ok());

        // a correct follower
        let (tx, mut rx) = mpsc::channel(1000);
        let mut bs = BlockstoreImpl::new(tx);
        assert_eq!(bs.add_shred_from_dissemination(v).await, Ok(None));
        assert!(matches!(rx.try_recv(), Ok(BlockstoreEvent::FirstShred(s)) if s == slot));
        // ... it is stored (and served) as coding shred 0
        let stored = bs.slot_data(slot).and_then(|d| d.disseminated.shreds.get(&SliceIndex::first())).and_then(|a| a[0].as_ref());
        assert!(matches!(stored, Some(s) if s.is_coding()));
        // the next honest shred of the correct leader
        assert_eq!(bs.add_shred_from_dissemination(shreds[1].clone()).await, Err(AddShredError::InvalidShred));
        assert!(matches!(rx.try_recv(), Ok(BlockstoreEvent::InvalidBlock(s)) if s == slot));
        // every further honest shred is refused, the block is never reconstructed from dissemination
        for s in shreds.iter().skip(2) {
            assert_eq!(bs.add_shred_from_dissemination(s.clone()).await, Err(AddShredError::InvalidShred));
        }
        assert!(bs.disseminated_block_hash(slot).is_none());
        assert!(rx.try_recv().is_err());
    }
}
