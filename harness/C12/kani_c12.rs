//! C12 harnesses, part 1 (overlay module `crate::shredder::kani_c12`, child of `shredder`: sees
//! the private fields of `Shred` and `SliceCommitment` and `ValidatedShred::new_validated`).
//!
//! `c12_commit_inj`        `SliceCommitment::new` has the documented byte layout and is injective.
//! `c12_validate_m<M>_k<K>` one `ValidatedShred::try_new` on an arbitrary shred against an honest
//!                         slice of M shreds (documented tree shape), a Merkle path of K elements,
//!                         an arbitrary signature ("key k signed exactly these bytes") and an
//!                         arbitrary cached commitment (none / any).
//! `c12_tag_m1_k0`         the data/coding tag of an accepted shred matches its index class.
//!
//! SHA-256 is the shared collision-free oracle, Ed25519 verification the ideal signature
//! functionality of `kani_c12_sig`; natively both are real.
#![allow(dead_code, unused_imports, unused_variables, clippy::all)]

use super::*;
use crate::Slot;
use crate::crypto::Hash;
use crate::crypto::merkle::kani_c12_merkle as km;
use crate::crypto::merkle::kani_c12_merkle::RefTree;
use crate::crypto::signature::kani_c12_sig as ks;
use crate::types::SliceIndex;
use crate::types::slice_index::MAX_SLICES_PER_BLOCK;
use crate::types::slice_index::kani_c12_idx::slice_index;
use crate::verif_std as vs;
use crate::verif_std::{vcheck, vcover};

pub(crate) const CLEN: usize = SLICE_COMMITMENT_LEN;
const _: () = assert!(CLEN == 49 && CLEN <= ks::MAX_MSG);

/// Payload bytes per shred in these harnesses.
pub(crate) const D: usize = 2;

// ---------------------------------------------------------------------------------------
// reference layout of the signed commitment, from the documentation:
// `slot` (u64 LE) || `slice_index` (u64 LE) || `is_last` (u8) || `slice_root` (32 B)
// ---------------------------------------------------------------------------------------
pub(crate) fn ref_commit_bytes(slot: u64, slice: u64, is_last: bool, root: &[u8; 32]) -> [u8; CLEN] {
    let mut b = [0u8; CLEN];
    let s = slot.to_le_bytes();
    let i = slice.to_le_bytes();
    let mut k = 0;
    while k < 8 {
        b[k] = s[k];
        b[8 + k] = i[k];
        k += 1;
    }
    b[16] = if is_last { 1 } else { 0 };
    let mut k = 0;
    while k < 32 {
        b[17 + k] = root[k];
        k += 1;
    }
    b
}

/// 49-byte equality as seven words.
pub(crate) fn commit_eq(a: &[u8; CLEN], b: &[u8; CLEN]) -> bool {
    ks::words_eq7(&ks::msg_words(a, CLEN), &ks::msg_words(b, CLEN))
}

pub(crate) fn commitment_bytes(c: &SliceCommitment) -> [u8; CLEN] {
    c.0
}
pub(crate) fn commitment_from_bytes(b: [u8; CLEN]) -> SliceCommitment {
    SliceCommitment(b)
}

pub(crate) fn any_slice_index() -> SliceIndex {
    let v = vs::any_u16() as usize;
    vs::assume(v < MAX_SLICES_PER_BLOCK);
    slice_index(v)
}

pub(crate) fn mk_header(slot: u64, slice: SliceIndex, is_last: bool) -> SliceHeader {
    SliceHeader { slot: Slot::new(slot), slice_index: slice, is_last }
}

pub(crate) fn mk_data(d: [u8; D]) -> Vec<u8> {
    let mut v: Vec<u8> = Vec::with_capacity(D);
    let mut i = 0;
    while i < D {
        v.push(d[i]);
        i += 1;
    }
    v
}

pub(crate) fn mk_shred<const K: usize>(coding: bool, header: SliceHeader, shred_index: usize, data: [u8; D], sig: crate::crypto::signature::Signature, proof: &[Hash; K]) -> Shred {
    let shred_index = match ShredIndex::new(shred_index) {
        Some(i) => i,
        None => vs::unsupported("shred index out of range requested by a harness"),
    };
    let payload = ShredPayload { header, shred_index, data: mk_data(data) };
    let mut path: Vec<Hash> = Vec::with_capacity(K);
    let mut i = 0;
    while i < K {
        path.push(proof[i].clone());
        i += 1;
    }
    Shred {
        payload_type: if coding { ShredPayloadType::Coding(payload) } else { ShredPayloadType::Data(payload) },
        slice_sig: sig,
        merkle_path: crate::crypto::merkle::SliceProof::from(path),
    }
}

/// A shred that went through validation earlier (for the blockstore harnesses): wrapped by
/// the real `new_validated` with the root the real code derives from it.
pub(crate) fn mk_validated<const K: usize>(coding: bool, header: SliceHeader, shred_index: usize, data: [u8; D], proof: &[Hash; K]) -> ValidatedShred {
    let shred = mk_shred::<K>(coding, header, shred_index, data, ks::garbage_sig(), proof);
    let root = shred.slice_root();
    ValidatedShred::new_validated(shred, root)
}

/// The same shred with its data/coding tag flipped (what any relay can do to a shred in transit).
pub(crate) fn flip_tag(s: Shred) -> Shred {
    let Shred { payload_type, slice_sig, merkle_path } = s;
    let payload_type = match payload_type {
        ShredPayloadType::Data(p) => ShredPayloadType::Coding(p),
        ShredPayloadType::Coding(p) => ShredPayloadType::Data(p),
    };
    Shred { payload_type, slice_sig, merkle_path }
}

// ---------------------------------------------------------------------------------------
// c12_commit_inj
// ---------------------------------------------------------------------------------------
#[cfg_attr(kani, kani::proof)]
#[cfg_attr(kani, kani::unwind(34))]
#[cfg_attr(verif_replay, test)]
fn c12_commit_inj() {
    let (s1, s2) = (vs::any_u64(), vs::any_u64());
    let (i1, i2) = (any_slice_index(), any_slice_index());
    let (l1, l2) = (vs::any_bool(), vs::any_bool());
    let (r1, r2) = (vs::any_words(), vs::any_words());
    let root1 = km::slice_root_of(km::w2h(r1));
    let root2 = km::slice_root_of(km::w2h(r2));
    let c1 = SliceCommitment::new(&mk_header(s1, i1, l1), &root1);
    let c2 = SliceCommitment::new(&mk_header(s2, i2, l2), &root2);
    let same_inputs = s1 == s2 && i1 == i2 && l1 == l2 && vs::words_eq(&r1, &r2);
    let eq = c1 == c2;
    vcheck!(commit_eq(&c1.0, &ref_commit_bytes(s1, i1.inner() as u64, l1, &vs::words_to_bytes(r1))), "commitment bytes differ from the documented layout");
    vcheck!(!eq || same_inputs, "two different (slot, slice index, last flag, root) tuples have the same commitment");
    vcheck!(eq || !same_inputs, "the same (slot, slice index, last flag, root) gives two different commitments");
    vcheck!(commit_eq(c1.as_ref().try_into().unwrap(), &c1.0), "the signed bytes are not the commitment bytes");
    vcover!(eq, "equal commitments");
    vcover!(!eq && s1 == s2 && i1 == i2 && l1 != l2 && vs::words_eq(&r1, &r2), "commitments differing only in the last-slice flag");
}

// ---------------------------------------------------------------------------------------
// c12_validate
// ---------------------------------------------------------------------------------------

/// Height of the padded tree over `m` leaves.
pub(crate) const fn height_of(m: usize) -> usize {
    let mut h = 0;
    while (1usize << h) < m {
        h += 1;
    }
    h
}

/// Attacker's choice of one 32-byte proof element: any honest node, any empty-subtree
/// constant, or a raw value.
fn any_proof_elem<const M: usize>(t: &RefTree<M>) -> Hash {
    let kind = vs::any_below(3);
    let h = vs::any_below(4) as usize;
    let i = vs::any_below(M as u8) as usize;
    let raw = km::any_raw_hash();
    match kind {
        0 => {
            vs::assume(h <= t.height);
            t.node(h, i)
        }
        1 => km::empty_root(h),
        _ => raw,
    }
}

/// Description of 49 commitment bytes somebody signed / cached: arbitrary header fields and a
/// root that is the honest slice root, the root this shred derives to, or a raw value.
struct CommitDesc {
    slot: u64,
    slice: u64,
    last: bool,
    rootsel: u8,
    raw: Hash,
}
fn any_commit_desc() -> CommitDesc {
    CommitDesc { slot: vs::any_u64(), slice: vs::any_u64(), last: vs::any_bool(), rootsel: vs::any_below(3), raw: km::any_raw_hash() }
}
impl CommitDesc {
    fn bytes(&self, honest_root: &Hash, derived: &Hash) -> [u8; CLEN] {
        let r = match self.rootsel {
            0 => honest_root,
            1 => derived,
            _ => &self.raw,
        };
        ref_commit_bytes(self.slot, self.slice, self.last, &vs::words_to_bytes(km::h2w(r)))
    }
}

struct HonestSlice<const M: usize> {
    slot: u64,
    slice: SliceIndex,
    last: bool,
    leaves: [[u8; D]; M],
    tree: RefTree<M>,
}
fn any_honest_slice<const M: usize>() -> HonestSlice<M> {
    let slot = vs::any_u64();
    let slice = any_slice_index();
    let last = vs::any_bool();
    let leaves: [[u8; D]; M] = std::array::from_fn(|_| vs::any_bytes::<D>());
    let lh: [Hash; M] = std::array::from_fn(|i| km::slice_leaf_hash(&mk_data(leaves[i])));
    let tree = RefTree::build::<Vec<u8>, crate::crypto::merkle::SliceRoot, crate::crypto::merkle::SliceProof>(&lh);
    HonestSlice { slot, slice, last, leaves, tree }
}

fn data_eq(v: &Vec<u8>, d: &[u8; D]) -> bool {
    v.len() == D && v[0] == d[0] && v[1] == d[1]
}

fn validate_body<const M: usize, const K: usize>() {
    // oracle calls: M leaves + inner nodes (< M + 3) of the honest tree, (1 + K) reference, (1 + K) real
    km::init_oracle(4, 2 * M + 3 + 2 * (K + 1));
    let keys = ks::keys();
    // ---- the honest leader's slice
    let hs = any_honest_slice::<M>();
    let rstar = hs.tree.root();
    // ---- the shred under validation: every field attacker-chosen; the shred index ranges over
    //      the positions of a tree of the honest height (ShredIndex < TOTAL_SHREDS = tree width)
    let slot = vs::any_u64();
    let slice = any_slice_index();
    let is_last = vs::any_bool();
    let coding = vs::any_bool();
    let sidx = vs::any_below(1u8 << height_of(M)) as usize;
    let data = vs::any_bytes::<D>();
    let proof: [Hash; K] = std::array::from_fn(|_| any_proof_elem(&hs.tree));
    // ---- the signature it carries: key `signer` signed exactly `signed`
    let signer = vs::any_below(ks::NKEYS as u8) as usize;
    let signed_desc = any_commit_desc();
    // ---- the commitment cached for the slice, if any
    let have_cache = vs::any_bool();
    let cache_desc = any_commit_desc();

    // reference: root this shred derives to, and the commitment it therefore stands for
    let derived = km::ref_derive::<K>(km::slice_leaf_hash(&mk_data(data)), sidx, &proof);
    let expect = ref_commit_bytes(slot, slice.inner() as u64, is_last, &vs::words_to_bytes(km::h2w(&derived)));
    let honest = ref_commit_bytes(hs.slot, hs.slice.inner() as u64, hs.last, &vs::words_to_bytes(km::h2w(&rstar)));
    let signed = signed_desc.bytes(&rstar, &derived);
    let cached = cache_desc.bytes(&rstar, &derived);
    let sig_ok = signer == ks::K_LEADER && commit_eq(&signed, &expect);
    let cache_eq = have_cache && commit_eq(&cached, &expect);

    let sig = ks::sign(&keys, 1, signer, &signed);
    let shred = mk_shred::<K>(coding, mk_header(slot, slice, is_last), sidx, data, sig, &proof);
    let cache = if have_cache { Some(commitment_from_bytes(cached)) } else { None };

    let res = ValidatedShred::try_new(shred, cache.as_ref(), &keys.pks[ks::K_LEADER]);

    let accepted = res.is_ok();
    let mut cv_honest = false;
    match &res {
        Ok(v) => {
            vcheck!(cache_eq || sig_ok, "shred accepted without an identical cached commitment and without the leader's signature over exactly its commitment");
            vcheck!(cache_eq || !have_cache, "the cached path accepted a commitment different from the cached one");
            vcheck!(commit_eq(&v.commitment().0, &expect), "validated shred reports a commitment other than that of its header and derived root");
            vcheck!(vs::words_eq(&km::root_words(v.slice_root()), &km::h2w(&derived)), "validated shred caches a root other than the one its payload, index and path derive to");
            vcheck!(v.payload().header.slot.inner() == slot && v.payload().header.slice_index == slice && v.payload().header.is_last == is_last && *v.payload().shred_index == sidx && data_eq(&v.payload().data, &data), "validation changed the shred");
            // the root binds payload and position (honest slice): Merkle soundness on SliceMerkleTree
            if vs::words_eq(&km::root_words(v.slice_root()), &km::h2w(&rstar)) {
                vcheck!(K == hs.tree.height, "a path of the wrong length derives to the honest slice root");
                vcheck!(sidx < M && data_eq(&v.payload().data, &hs.leaves[if sidx < M { sidx } else { 0 }]), "a payload that is not the honest shred at that index derives to the honest slice root");
            }
            // end to end: under the leader's signature over the honest commitment, and no cache,
            // only the honest shreds of exactly that slot / slice / flag pass
            if !have_cache && commit_eq(&signed, &honest) {
                let same_hdr = slot == hs.slot && slice == hs.slice && is_last == hs.last;
                vcheck!(same_hdr, "a shred replayed under another slot, slice index or last-slice flag was accepted under the honest commitment's signature");
                vcheck!(sidx < M && data_eq(&v.payload().data, &hs.leaves[if sidx < M { sidx } else { 0 }]), "an altered payload or position was accepted under the honest commitment's signature");
                cv_honest = true;
            }
        }
        Err(e) => {
            vcheck!(!cache_eq, "a shred whose commitment is identical to the cached one was rejected");
            vcheck!(have_cache || !sig_ok, "a shred carrying the leader's signature over exactly its commitment was rejected");
            vcheck!((*e == ShredValidationError::Equivocation) == (have_cache && sig_ok), "equivocation verdict differs from: cached commitment present, different, and the leader signed this one too");
        }
    }
    // what the verifier was asked (Kani: the oracle's log)
    #[cfg(kani)]
    {
        if cache_eq {
            vcheck!(ks::oracle::calls() == 0, "signature verified although an identical commitment was cached");
        } else {
            vcheck!(ks::oracle::calls() == 1, "signature not verified exactly once on the uncached path");
            let q = ks::oracle::query(0);
            vcheck!(q.pk == ks::pk_ident(ks::K_LEADER), "signature verified under a key other than the given leader key");
            vcheck!(q.sig_id == 1, "a signature other than the shred's own was verified");
            vcheck!(q.msg_len == CLEN && ks::words_eq7(&q.msg, &ks::msg_words(&expect, CLEN)), "signature verified over bytes other than slot, slice index, last flag and derived root");
            vcheck!(q.answer == sig_ok, "oracle answer differs from the ideal functionality");
        }
    }
    let equivocation = matches!(res, Err(ShredValidationError::Equivocation));
    std::mem::forget(res);
    vcover!(accepted && !have_cache, "accepted by signature");
    vcover!(accepted && have_cache, "accepted by identical cached commitment");
    // with a path of the honest height: the honest shred passes; otherwise: something still passes by signature
    let cv_sig = if K == height_of(M) { cv_honest } else { accepted && !have_cache && signed_desc.rootsel == 1 };
    vcover!(cv_sig, "honest shred accepted under the honest commitment (path of another length: a shred accepted under a signature over its own commitment)");
    vcover!(equivocation, "equivocation reported");
    vcover!(!accepted && !equivocation && have_cache, "invalid signature with a cache present");
    vcover!(!accepted && !have_cache, "invalid signature without a cache");
}

macro_rules! validate {
    ($name:ident, $m:literal, $k:literal) => {
        #[cfg_attr(kani, kani::proof)]
        #[cfg_attr(kani, kani::stub(crate::crypto::hash::hash_all, crate::crypto::merkle::kani_c12_merkle::hash_all_oracle))]
        #[cfg_attr(kani, kani::stub(ed25519_zebra::VerificationKey::verify, crate::crypto::signature::kani_c12_sig::oracle::verify))]
        #[cfg_attr(kani, kani::unwind(34))]
        #[cfg_attr(verif_replay, test)]
        fn $name() {
            validate_body::<$m, $k>()
        }
    };
}
validate!(c12_validate_m1_k0, 1, 0);
validate!(c12_validate_m1_k1, 1, 1);
validate!(c12_validate_m2_k0, 2, 0);
validate!(c12_validate_m2_k1, 2, 1);
validate!(c12_validate_m2_k2, 2, 2);
validate!(c12_validate_m3_k1, 3, 1);
validate!(c12_validate_m3_k2, 3, 2);
validate!(c12_validate_m4_k2, 4, 2);
validate!(c12_validate_m3_k3, 3, 3);

// ---------------------------------------------------------------------------------------
// c12_tag: the data/coding tag of an accepted shred
// ---------------------------------------------------------------------------------------

/// The honest leader's shred at index 0 of a one-shred slice (a data shred in the
/// `RegularShredder` layout: indices below `DATA_OUTPUT_SHREDS` are data), genuine signature,
/// no cache; only the tag is attacker-chosen.
#[cfg_attr(kani, kani::proof)]
#[cfg_attr(kani, kani::stub(crate::crypto::hash::hash_all, crate::crypto::merkle::kani_c12_merkle::hash_all_oracle))]
#[cfg_attr(kani, kani::stub(ed25519_zebra::VerificationKey::verify, crate::crypto::signature::kani_c12_sig::oracle::verify))]
#[cfg_attr(kani, kani::unwind(34))]
#[cfg_attr(verif_replay, test)]
fn c12_tag_m1_k0() {
    km::init_oracle(4, 4);
    let keys = ks::keys();
    let hs = any_honest_slice::<1>();
    let coding = vs::any_bool();
    let rstar = hs.tree.root();
    let honest = ref_commit_bytes(hs.slot, hs.slice.inner() as u64, hs.last, &vs::words_to_bytes(km::h2w(&rstar)));
    let sig = ks::sign(&keys, 1, ks::K_LEADER, &honest);
    let shred = mk_shred::<0>(coding, mk_header(hs.slot, hs.slice, hs.last), 0, hs.leaves[0], sig, &[]);
    let res = ValidatedShred::try_new(shred, None, &keys.pks[ks::K_LEADER]);
    let accepted = res.is_ok();
    let data_class = 0 < <RegularShredder as Shredder>::DATA_OUTPUT_SHREDS;
    vcheck!(accepted || coding, "the honest leader's own shred was rejected");
    if let Ok(v) = &res {
        vcheck!(v.is_data() == data_class && v.is_coding() != data_class, "accepted a shred whose data/coding tag does not match the class of its index in the shredder layout");
    }
    std::mem::forget(res);
    vcover!(accepted && !coding, "honest data shred accepted");
}
