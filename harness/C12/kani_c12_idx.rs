//! Overlay module `crate::types::slice_index::kani_c12_idx` (child of `slice_index`): the
//! private checked constructor of `SliceIndex`, for harnesses elsewhere.  Shared by C12/C13.
#![allow(dead_code, unused_imports, clippy::all)]

use super::*;
use crate::verif_std as vs;

/// The slice index `v` as the deserialiser would produce it (`v < MAX_SLICES_PER_BLOCK`).
pub(crate) fn slice_index(v: usize) -> SliceIndex {
    match SliceIndex::new(v) {
        Some(i) => i,
        None => vs::unsupported("slice index out of range requested by a harness"),
    }
}
