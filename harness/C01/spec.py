MOD = "consensus::epoch_info::kani_c01"
F = ["EpochInfo::is_weakest_quorum", "EpochInfo::is_weak_quorum", "EpochInfo::is_quorum", "EpochInfo::is_strong_quorum", "Fraction::is_met", "Stake arithmetic"]
def _h(name, role, covers, bounds="8 Venn regions of (X, Y, Byzantine) with arbitrary u64 stakes whose sum fits u64 (covers every validator count / stake distribution)"):
    return {"name": name, "path": MOD, "role": role, "functions": F, "bounds": bounds, "covers": covers, "timeout": {"quick": 420, "thorough": 1200}}
SPEC = {
    "property": "C01",
    "level_text": "Agreement of N concurrently running nodes cannot be executed symbolically. What is decided here, over the real threshold code and for every stake distribution, are the quorum-intersection facts the paper's safety argument rests on: two 60% certificates always share a correct voter when Byzantine stake is <20%; against an 80% fast-finalization quorum neither 40% nor 60% can be assembled from the remaining + Byzantine stake; against a 60% finalization quorum no conflicting 60% certificate can be assembled. The per-node obligations that make these facts applicable are decided separately (C04 one countable vote per validator, C05 own votes obey the rules, C06 fallback events only when safe, C08 finality tracking). The composition of these into agreement is the paper's proof and is trusted, not checked.",
    "level_note": "Bounded only by u64 stake sums; validators abstracted into 8 Venn regions (exact for predicates that depend on sums only). Trusted: the composition argument (Alpenglow white paper, safety lemmas), Kani/CBMC/CaDiCaL.",
    "overlays": [{"src": "C01/kani_c01.rs", "dest": "src/consensus/epoch_info/kani_c01.rs", "decl_in": "src/consensus/epoch_info.rs", "decl": "mod kani_c01;"}],
    "functions": F,
    "bounds": "quick: region stakes < 2^16; thorough: < 2^32 for all three lemmas and full 64-bit for the plain intersection lemma (the other two exceed the time cap at 64 bits: pure 128-bit multiplication UNSAT proofs are hard for a SAT back end; measured 940 s and > 1200 s)",
    "explanation": "Bounded symbolic verification (Kani -> CBMC -> CaDiCaL) of quorum-intersection lemmas over the real EpochInfo::is_*quorum / Fraction::is_met code with symbolic 64-bit stakes.",
    "assumptions": ["total stake fits u64 and is non-zero (EpochInfo::new)", "composition of the local obligations into multi-node agreement is trusted (paper proof)"],
    "trusted_base": ["Venn-region abstraction of validator sets"],
    "outside": ["the multi-node composition itself", "network behaviour, leader rotation, epochs"],
    "harnesses": [
        _h("c01_thresholds_exact_w64", "threshold predicates are exact k/5 comparisons", 2, "all u64 stake/total pairs"),
    ] + [
        dict(_h(f"c01_{n}_w{w}", role, 1, f"8 Venn regions of (X, Y, Byzantine), each an arbitrary stake below 2^{w} (sum fits u64)"), tiers=(["quick", "thorough"] if w == 16 else ["thorough"]))
        for (n, role) in [("quorum_intersection", "two quorums intersect in a correct voter"),
                          ("fast_final_excludes_fallback", "80% quorum excludes 40%/60% elsewhere"),
                          ("final_excludes_conflicting_cert", "60% final quorum excludes conflicting 60%")]
        for w in (16, 32, 64)
        # full 64-bit stakes: only the plain intersection lemma finishes inside the 20 min cap (371 s); the other two
        # need 940 s / > 1200 s of SAT time and would make the thorough tier flaky, so they are checked up to 32 bits
        if not (w == 64 and n != "quorum_intersection")
    ],
}
