//! C01-a: quorum-intersection arithmetic over the *real* threshold predicates
//! (overlay module `crate::consensus::epoch_info::kani_c01`).
//!
//! Validators are abstracted into the 8 Venn regions of three sets X, Y, Byz; each region
//! carries an arbitrary u64 stake (only region sums enter the predicates, so this covers
//! every validator count and stake distribution whose total fits u64).
#![allow(dead_code, unused_imports, clippy::all)]

use super::*;
use crate::verif_std as vs;
use crate::verif_std::{vcheck, vcover};

struct Regions {
    r: [u64; 8],
    total: u64,
}

/// bit0 = member of X, bit1 = member of Y, bit2 = Byzantine
fn regions(bits: u32) -> Regions {
    let mask: u64 = if bits >= 64 { u64::MAX } else { (1u64 << bits) - 1 };
    let mut r = [0u64; 8];
    let mut total: u64 = 0;
    let mut i = 0;
    while i < 8 {
        r[i] = vs::any_u64() & mask;
        let (t, o) = total.overflowing_add(r[i]);
        vs::assume(!o); // EpochInfo::new sums stakes in u64; an overflowing validator set cannot be built
        total = t;
        i += 1;
    }
    vs::assume(total > 0);
    Regions { r, total }
}

impl Regions {
    fn sum(&self, f: impl Fn(usize) -> bool) -> Stake {
        let mut s: u64 = 0;
        let mut i = 0;
        while i < 8 {
            if f(i) {
                s += self.r[i];
            }
            i += 1;
        }
        Stake::new(s)
    }
    fn epoch(&self) -> EpochInfo {
        EpochInfo { validators: Vec::new(), total_stake: Stake::new(self.total) }
    }
}

fn in_x(i: usize) -> bool {
    i & 1 != 0
}
fn in_y(i: usize) -> bool {
    i & 2 != 0
}
fn byz(i: usize) -> bool {
    i & 4 != 0
}

/// Two 60 % certificates share a correct voter (notar(b) vs notar(b'), final vs skip,
/// notar vs skip …) whenever Byzantine stake is below 20 %.
fn quorum_intersection(bits: u32) {
    let g = regions(bits);
    let e = g.epoch();
    let x = g.sum(in_x);
    let y = g.sum(in_y);
    let b = g.sum(byz);
    let both_correct = g.sum(|i| in_x(i) && in_y(i) && !byz(i));
    let pre = e.is_quorum(x) && e.is_quorum(y) && !e.is_weakest_quorum(b);
    vcover!(pre, "two quorums with <20% Byzantine exist");
    if pre {
        vcheck!(both_correct.inner() > 0, "two 60% quorums without a common correct voter");
    }
    std::mem::forget(e);
}

/// After an 80 % fast-finalization quorum X for block b, the voters that can be counted for
/// any other block or for skip (everyone outside X plus Byzantine members of X) stay below
/// 40 % — so neither safe-to-notar branch (40 %, or 20 % + 60 % with skip) nor a conflicting
/// 60 % certificate is reachable.
fn fast_final_excludes_fallback(bits: u32) {
    let g = regions(bits);
    let e = g.epoch();
    let x = g.sum(in_x);
    let b = g.sum(byz);
    // Y ⊆ ¬X ∪ Byz
    let y = g.sum(|i| in_y(i) && (!in_x(i) || byz(i)));
    let pre = e.is_strong_quorum(x) && !e.is_weakest_quorum(b);
    vcover!(pre, "a strong quorum with <20% Byzantine exists");
    if pre {
        vcheck!(!e.is_weak_quorum(y), "40% reachable against an 80% quorum");
        vcheck!(!e.is_quorum(y), "60% reachable against an 80% quorum");
    }
    std::mem::forget(e);
}

/// After a 60 % finalization quorum F (correct members voted notar(b), never skip /
/// skip-fallback / notar-fallback), the stake that can back a conflicting 60 % certificate
/// (skip, or notar-fallback for b' ≠ b) comes from outside F plus Byzantine members of F
/// and stays below 60 %.
fn final_excludes_conflicting_cert(bits: u32) {
    let g = regions(bits);
    let e = g.epoch();
    let f = g.sum(in_x);
    let b = g.sum(byz);
    let y = g.sum(|i| in_y(i) && (!in_x(i) || byz(i)));
    let pre = e.is_quorum(f) && !e.is_weakest_quorum(b);
    vcover!(pre, "a quorum with <20% Byzantine exists");
    if pre {
        vcheck!(!e.is_quorum(y), "conflicting 60% certificate reachable against a finalization quorum");
    }
    std::mem::forget(e);
}

/// The four predicates are the exact rational comparisons stake/total ≥ k/5, monotone and nested.
fn thresholds_exact(bits: u32) {
    let mask: u64 = if bits >= 64 { u64::MAX } else { (1u64 << bits) - 1 };
    let total = vs::any_u64() & mask;
    let s = vs::any_u64() & mask;
    vs::assume(total > 0 && s <= total);
    let e = EpochInfo { validators: Vec::new(), total_stake: Stake::new(total) };
    let st = Stake::new(s);
    let spec = |k: u128| (s as u128) * 5 >= (total as u128) * k;
    vcheck!(e.is_weakest_quorum(st) == spec(1), "20% threshold is not stake*5 >= total*1");
    vcheck!(e.is_weak_quorum(st) == spec(2), "40% threshold is not stake*5 >= total*2");
    vcheck!(e.is_quorum(st) == spec(3), "60% threshold is not stake*5 >= total*3");
    vcheck!(e.is_strong_quorum(st) == spec(4), "80% threshold is not stake*5 >= total*4");
    vcover!(e.is_quorum(st) && !e.is_strong_quorum(st), "between 60% and 80%");
    vcover!(s as u128 * 5 == total as u128 * 3, "exactly on the 60% boundary");
    std::mem::forget(e);
}

macro_rules! h {
    ($name:ident, $body:ident, $bits:literal) => {
        #[cfg_attr(kani, kani::proof)]
        #[cfg_attr(kani, kani::unwind(10))]
        #[cfg_attr(verif_replay, test)]
        fn $name() {
            $body($bits)
        }
    };
}
h!(c01_quorum_intersection_w16, quorum_intersection, 16);
h!(c01_quorum_intersection_w32, quorum_intersection, 32);
h!(c01_quorum_intersection_w64, quorum_intersection, 64);
h!(c01_fast_final_excludes_fallback_w16, fast_final_excludes_fallback, 16);
h!(c01_fast_final_excludes_fallback_w32, fast_final_excludes_fallback, 32);
h!(c01_fast_final_excludes_fallback_w64, fast_final_excludes_fallback, 64);
h!(c01_final_excludes_conflicting_cert_w16, final_excludes_conflicting_cert, 16);
h!(c01_final_excludes_conflicting_cert_w32, final_excludes_conflicting_cert, 32);
h!(c01_final_excludes_conflicting_cert_w64, final_excludes_conflicting_cert, 64);
h!(c01_thresholds_exact_w64, thresholds_exact, 64);
