import os, re

MOD = "consensus::pool::parent_ready_tracker::kani_c07"
PT = "src/consensus/pool/parent_ready_tracker.rs"
PS = "src/consensus/pool/parent_ready_tracker/parent_ready_state.rs"
COLL = {"src": "C07/c07_coll.rs", "dest": "src/c07_coll.rs", "decl_in": "src/lib.rs", "decl": "pub mod c07_coll;"}

def redirect(file, line, repl):
    return {"file": file, "pattern": r"^" + re.escape(line) + r"$",
            "replacement": "#[cfg(not(kani))]\n" + line + "\n#[cfg(kani)]\n" + repl, "count": 1, "required": True}

REDIRECTS = [
    redirect(PT, "use std::collections::HashMap;", "use crate::c07_coll::HashMap;"),
    redirect(PT, "use smallvec::SmallVec;", "use crate::c07_coll::SmallVec;"),
    redirect(PS, "use smallvec::{SmallVec, smallvec};", "use crate::c07_coll::{SmallVec, smallvec};"),
    # the real tokio oneshot compiles under Kani but the (infeasible) "a waiter is registered" arm of
    # add_to_ready drags tokio's send path and the warn! machinery into every harness (measured: time cap).
    # The channel type is part of the Pool interface, so every module naming it is redirected.
    redirect(PT, "use tokio::sync::oneshot;", "use crate::c07_coll::oneshot;"),
    redirect(PS, "use tokio::sync::oneshot;", "use crate::c07_coll::oneshot;"),
    redirect("src/consensus/pool.rs", "use tokio::sync::{RwLock, oneshot};", "use tokio::sync::RwLock;\n#[cfg(kani)]\nuse crate::c07_coll::oneshot;"),
    redirect("src/consensus/block_producer.rs", "use tokio::sync::oneshot;", "use crate::c07_coll::oneshot;"),
]
# 32-byte hashes as whole arrays (not 32 scalar symbols each); the stand-ins' own arrays (<= 16 elements) stay expanded
CBMC = ["--unwindset", "memcmp.0:34", "--max-field-sensitivity-array-size", "16"]

T_FUNCS = ["ParentReadyTracker::default", "ParentReadyTracker::mark_notar_fallback", "ParentReadyTracker::mark_skipped", "ParentReadyTracker::parents_ready", "ParentReadyTracker::slot_state"]
S_FUNCS = ["ParentReadyState::{default,genesis,mark_skip,is_skip_certified,mark_notar_fallback,notar_fallback_blocks,add_to_ready,ready_block_ids}"]

# harnesses of the quick tier (everything else: thorough only)
QUICK = {
    "c07_hist_w1_s3_s3", "c07_hist_w1_s3_s2_s1", "c07_hist_w1_s1_s2_s3", "c07_hist_x4_s3_s4_s5", "c07_hist_x4_s4_s3_s2",
    "c07_hist_w2_s7_s6_s5", "c07_hist_x8_s8_s4_s7", "c07_hist_2b_s3_s3_s3",
    "c07_step_nf_s3", "c07_step_nf_s6", "c07_step_skip_r4_s7", "c07_step_prune",
    "c07_fin_s4_p3", "c07_fin_s3_p2_two_windows", "c07_prune_r4_late3", "c07_prune_r5_then67",
    "c07_wait_before_w4", "c07_wait_after_w4", "c07_commute_s2_s3", "c07_commute_s3_s4",
}

FAMILIES = {
    "hist": ("bounded history from the fresh tracker", T_FUNCS + S_FUNCS, 2,
             "fresh tracker; the concrete prefix written in the harness, then 2-3 operations whose KIND (mark_notar_fallback / mark_skipped) is symbolic, on the slots named in the harness (sN); slots 0..11, window starts 4, 8, 12; one block per slot (2b: two competing blocks)"),
    "stepm": ("inductive step from F(G)", T_FUNCS + S_FUNCS, None,
              "tracker state F(G) for a symbolic ghost G: skip / certified flags of slots 1..8 (s8 harnesses: 5..11 with 1..4 skipped; step2b: slots 1..4, two blocks per slot) symbolic, at most 3 certified blocks besides genesis, list order ascending or descending, default state objects present or not, pruning root symbolic (nf) or fixed (skip: 0 or rN); then ONE operation of the kind and slot in the harness name"),
    "fin": ("finalization event", T_FUNCS + S_FUNCS + ["ParentReadyTracker::handle_finalization"], None,
            "fresh tracker, concrete prefix, 2 operations of symbolic kind, then one hand-built FinalizationEvent (finalized block, one implicitly finalized block, 0-2 implicitly skipped slots) as written in the harness"),
    "prune": ("pruning and late calls", T_FUNCS + S_FUNCS + ["ParentReadyTracker::prune"], None,
              "fresh tracker, concrete prefix, 1 operation of symbolic kind, the root block is certified, prune(root), then 2 operations of symbolic kind for slots below and above the root"),
    "wait": ("waiter", T_FUNCS + S_FUNCS + ["ParentReadyTracker::wait_for_parent_ready", "ParentReadyState::wait_for_parent_ready"], 2,
             "fresh tracker, concrete prefix; a waiter for window start 4 or 8 registered before or after 3 operations of symbolic kind; one waiter per slot"),
    "commute": ("order independence", T_FUNCS + S_FUNCS, 2,
                "two fresh trackers after the same concrete prefix; two operations of symbolic kind applied in both orders"),
}

def _harnesses():
    src = open(os.path.join(os.path.dirname(os.path.abspath(__file__)), "kani_c07.rs")).read()
    out = []
    for m in re.finditer(r"^(hist|stepm|fin|prune|wait|commute)!\((c07_\w+),(.*)\);$", src, re.M):
        fam, name, rest = m.groups()
        role, funcs, covers, bounds = FAMILIES[fam]
        tags = re.search(r"\[([a-z, ]*)\]$", rest)
        if covers is None:
            covers = len([x for x in tags.group(1).split(",") if x.strip()])
        heavy = fam == "stepm"
        out.append({"name": name, "path": MOD, "tiers": ["quick", "thorough"] if name in QUICK else ["thorough"], "role": role, "functions": funcs,
                    "bounds": bounds, "covers": covers, "timeout": {"quick": 600, "thorough": 1500} if heavy else {"quick": 400, "thorough": 1200},
                    "mem_gb": 10 if heavy else 8, "cbmc_args": CBMC})
    out.append({"name": "c07_step_prune", "path": MOD, "tiers": ["quick", "thorough"], "role": "inductive step from F(G)", "functions": ["ParentReadyTracker::prune", "ParentReadyTracker::parents_ready"] + S_FUNCS,
                "bounds": "tracker state F(G) for a symbolic ghost over slots 1..8 (at most 4 certified blocks besides genesis) with symbolic root, then prune(new_root) for a symbolic finalized new_root >= root",
                "covers": 2, "timeout": {"quick": 600, "thorough": 1500}, "mem_gb": 10, "cbmc_args": CBMC})
    missing = QUICK - {h["name"] for h in out}
    assert not missing, f"quick-tier names without harness: {missing}"
    return out

SPEC = {
    "property": "C07",
    "level_text": "TODO",
    "level_note": "TODO",
    "overlays": [COLL, {"src": "C07/kani_c07.rs", "dest": "src/consensus/pool/parent_ready_tracker/kani_c07.rs", "decl_in": PT, "decl": "mod kani_c07;"}],
    "redirects": REDIRECTS,
    "functions": ["consensus::pool::parent_ready_tracker::ParentReadyTracker::{default,mark_notar_fallback,mark_skipped,handle_finalization,parents_ready,wait_for_parent_ready,prune,slot_state}",
                  "consensus::pool::parent_ready_tracker::parent_ready_state::ParentReadyState::{default,genesis,mark_skip,is_skip_certified,mark_notar_fallback,notar_fallback_blocks,add_to_ready,ready_block_ids,wait_for_parent_ready}"],
    "bounds": "TODO",
    "explanation": "TODO",
    "assumptions": [],
    "trusted_base": [],
    "outside": [],
    "harnesses": _harnesses(),
}
