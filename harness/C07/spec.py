import os, re

MOD = "consensus::pool::parent_ready_tracker::kani_c07"
PT = "src/consensus/pool/parent_ready_tracker.rs"
PS = "src/consensus/pool/parent_ready_tracker/parent_ready_state.rs"
COLL = {"src": "C07/c07_coll.rs", "dest": "src/c07_coll.rs", "decl_in": "src/lib.rs", "decl": "pub mod c07_coll;"}

def redirect(file, line, repl):
    return {"file": file, "pattern": r"^" + re.escape(line) + r"$",
            "replacement": "#[cfg(not(kani))]\n" + line + "\n#[cfg(kani)]\n" + repl, "count": 1, "required": True}

REDIRECTS = [
    redirect(PT, "use std::collections::HashMap;", "use crate::c07_coll::HashMap;"),
    redirect(PT, "use smallvec::SmallVec;", "use crate::c07_coll::SmallVec;"),
    redirect(PS, "use smallvec::{SmallVec, smallvec};", "use crate::c07_coll::{SmallVec, smallvec};"),
    # the real tokio oneshot compiles under Kani but the (infeasible) "a waiter is registered" arm of
    # add_to_ready drags tokio's send path and the warn! machinery into every harness (measured: time cap).
    # The channel type is part of the Pool interface, so every module naming it is redirected.
    redirect(PT, "use tokio::sync::oneshot;", "use crate::c07_coll::oneshot;"),
    redirect(PS, "use tokio::sync::oneshot;", "use crate::c07_coll::oneshot;"),
    redirect("src/consensus/pool.rs", "use tokio::sync::{RwLock, oneshot};", "use tokio::sync::RwLock;\n#[cfg(kani)]\nuse crate::c07_coll::oneshot;"),
    redirect("src/consensus/block_producer.rs", "use tokio::sync::oneshot;", "use crate::c07_coll::oneshot;"),
]
# 32-byte hashes as whole arrays (not 32 scalar symbols each); the stand-ins' own arrays (<= 16 elements) stay expanded
CBMC = ["--unwindset", "memcmp.0:34", "--max-field-sensitivity-array-size", "16"]

T_FUNCS = ["ParentReadyTracker::default", "ParentReadyTracker::mark_notar_fallback", "ParentReadyTracker::mark_skipped", "ParentReadyTracker::parents_ready", "ParentReadyTracker::slot_state"]
S_FUNCS = ["ParentReadyState::{default,genesis,mark_skip,is_skip_certified,mark_notar_fallback,notar_fallback_blocks,add_to_ready,ready_block_ids}"]

# harnesses of the quick tier (everything else: thorough only)
QUICK = {
    "c07_hist_w1_s3_s3", "c07_hist_w1_s3_s2_s1", "c07_hist_x4_s4_s3_s2", "c07_hist_w2_s7_s6_s5", "c07_hist_x8_s8_s4_s7", "c07_hist_2b_s3_s3_s3",
    "c07_step_nf_s3", "c07_step_nf_s6", "c07_step_skip_r5_s7", "c07_step_prune",
    "c07_fin_s4_p3", "c07_fin_s3_p2_two_windows", "c07_prune_r4_late3", "c07_prune_r5_then67",
    "c07_wait_before_w4", "c07_wait_after_w4", "c07_commute_s2_s3",
    "c07_step_skip_s4",   # promoted in session 4: catches seeded C07-m2 (198 s alone, hence the longer quick cap below)
}
QUICK_SLOW = {"c07_step_skip_s4"}

FAMILIES = {
    "hist": ("bounded history from the fresh tracker", T_FUNCS + S_FUNCS, 2,
             "fresh tracker; the concrete prefix written in the harness, then 2-3 operations whose KIND (mark_notar_fallback / mark_skipped) is symbolic, on the slots named in the harness (sN); slots 0..11, window starts 4, 8, 12; one block per slot (2b: two competing blocks)"),
    "stepm": ("inductive step from F(G)", T_FUNCS + S_FUNCS, None,
              "tracker state F(G) for a symbolic ghost G: skip / certified flags of slots 1..8 (s8 harnesses: 5..11 with 1..4 skipped; step2b: slots 1..4, two blocks per slot) symbolic, at most 3 certified blocks besides genesis, list order ascending or descending, default state objects present or not, pruning root symbolic (nf) or fixed (skip: 0 or rN); then ONE operation of the kind and slot in the harness name"),
    "fin": ("finalization event", T_FUNCS + S_FUNCS + ["ParentReadyTracker::handle_finalization"], None,
            "fresh tracker, concrete prefix, 2 operations of symbolic kind, then one hand-built FinalizationEvent (finalized block, one implicitly finalized block, 0-2 implicitly skipped slots) as written in the harness"),
    "prune": ("pruning and late calls", T_FUNCS + S_FUNCS + ["ParentReadyTracker::prune"], None,
              "fresh tracker, concrete prefix, 1 operation of symbolic kind, the root block is certified, prune(root), then 2 operations of symbolic kind for slots below and above the root"),
    "wait": ("waiter", T_FUNCS + S_FUNCS + ["ParentReadyTracker::wait_for_parent_ready", "ParentReadyState::wait_for_parent_ready"], 2,
             "fresh tracker, concrete prefix; a waiter for window start 4 or 8 registered before or after 3 operations of symbolic kind; one waiter per slot"),
    "commute": ("order independence", T_FUNCS + S_FUNCS, 2,
                "two fresh trackers after the same concrete prefix; two operations of symbolic kind applied in both orders"),
}

def _harnesses():
    src = open(os.path.join(os.path.dirname(os.path.abspath(__file__)), "kani_c07.rs")).read()
    out = []
    for m in re.finditer(r"^(hist|stepm|fin|prune|wait|commute)!\((c07_\w+),(.*)\);$", src, re.M):
        fam, name, rest = m.groups()
        role, funcs, covers, bounds = FAMILIES[fam]
        tags = re.search(r"\[([a-z, ]*)\]$", rest)
        if covers is None:
            covers = len([x for x in tags.group(1).split(",") if x.strip()])
        heavy = fam == "stepm"
        out.append({"name": name, "path": MOD, "tiers": ["quick", "thorough"] if name in QUICK else ["thorough"], "role": role, "functions": funcs,
                    "bounds": bounds, "covers": covers, "timeout": {"quick": 600, "thorough": 1500} if heavy else {"quick": 1200 if name in QUICK_SLOW else 400, "thorough": 1200},
                    "mem_gb": 10 if heavy else 8, "cbmc_args": CBMC})
    out.append({"name": "c07_step_prune", "path": MOD, "tiers": ["quick", "thorough"], "role": "inductive step from F(G)", "functions": ["ParentReadyTracker::prune", "ParentReadyTracker::parents_ready"] + S_FUNCS,
                "bounds": "tracker state F(G) for a symbolic ghost over slots 1..8 (at most 4 certified blocks besides genesis) with symbolic root, then prune(new_root) for a symbolic finalized new_root >= root",
                "covers": 2, "timeout": {"quick": 600, "thorough": 1500}, "mem_gb": 10, "cbmc_args": CBMC})
    missing = QUICK - {h["name"] for h in out}
    assert not missing, f"quick-tier names without harness: {missing}"
    return out

SPEC = {
    "property": "C07",
    "level_text": "Bounded symbolic verification of the real ParentReadyTracker / ParentReadyState against a reference function R written from the property statement (the ready parents of a window start s are the certified blocks (t, b), t < s, with every slot strictly between t and s skipped). Two complementary families are decided by the solver. (1) Inductive step: for EVERY ghost G over slots 1..8 (all 2^8 skip patterns, any <= 3 certified blocks, any pruning root consistent with a finalized root slot) the tracker is put into the state F(G) it holds after being told G, ONE mark_notar_fallback / mark_skipped / prune is applied, and the post-state is shown to be F(G'), parents_ready(s) = R(G', s) as a duplicate-free set for s in {4, 8, 12}, and the returned announcements exactly R(G') \\ R(G), each once, with no reachable panic (the duplicate assertion of add_to_ready). With the base case (fresh tracker = F(genesis)) this covers every order of arrival within the bound. (2) Bounded histories on the fresh tracker (2-3 operations of symbolic kind after a concrete prefix; real list orders) for: both operations across the window boundaries 4 and 8, two competing blocks in one slot, handle_finalization events, prune followed by late calls below the root, a waiter registered before / after readiness, and two operations in both orders on two trackers (same ready sets, same set of announcements). Counterexamples are replayed on the real std HashMap, smallvec::SmallVec and tokio oneshot channel.",
    "level_note": "Bounds: slots 0..11, window starts 4, 8, 12; 1 block per slot (2 in the 2b harnesses), all blocks carry one of two hash constants; step family: at most 3 certified blocks besides genesis (lists of at most 5 entries), list order ascending or descending only; histories: 2-3 symbolic-kind operations. Under Kani the HashMap, SmallVec and oneshot channel inside the two files are replaced by stand-ins (slot-indexed array map, packed bounded list, one-cell channel; harness/C07/c07_coll.rs); native replay uses the real ones. handle_finalization is checked against its documented contract (at most one announcement, of the highest window), which is narrower than 'every pair is announced'. Assumes (as the pool guarantees) that prune is called with a finalized slot whose block was marked before and which never receives a skip certificate, and one waiter per slot. Trusts Kani, CBMC, CaDiCaL.",
    "overlays": [COLL, {"src": "C07/kani_c07.rs", "dest": "src/consensus/pool/parent_ready_tracker/kani_c07.rs", "decl_in": PT, "decl": "mod kani_c07;"}],
    "redirects": REDIRECTS,
    "functions": ["consensus::pool::parent_ready_tracker::ParentReadyTracker::{default,mark_notar_fallback,mark_skipped,handle_finalization,parents_ready,wait_for_parent_ready,prune,slot_state}",
                  "consensus::pool::parent_ready_tracker::parent_ready_state::ParentReadyState::{default,genesis,mark_skip,is_skip_certified,mark_notar_fallback,notar_fallback_blocks,add_to_ready,ready_block_ids,wait_for_parent_ready}"],
    "bounds": "slots 0..11 (operations on 1..11), window starts 4/8/12, 1-2 blocks per slot; step family: all skip patterns over 8 slots x any <= 3 certified blocks x root, one operation; history families: concrete prefix + 2-3 operations of symbolic kind",
    "explanation": "Ghost G = (certified blocks per slot incl. genesis, skipped slots, root) holds what the tracker accepted; marks for slots below the root are ignored by tracker and ghost alike. R(G, s) is a 10-line loop written from the property statement. Every harness compares, after every operation, parents_ready(s) as a multiset with R(G', s) (missing / unjustified / duplicate entries are separate checks) and the returned announcements with R(G') \\ R(G); history harnesses also check at the end that every pair was announced exactly once iff it is ready; step harnesses compare the whole per-slot state (skip flag, certified blocks, ready list, absence of state below the root) with F(G'). Decided by Kani -> CBMC -> CaDiCaL over all symbolic inputs within the bound; every harness carries reachability witnesses (an announcement happens, several at once, nothing is announced, a late call is ignored, a waiter is woken / kept waiting).",
    "assumptions": [
        "prune(root) is called only with a finalized slot: a block of that slot has been marked (handle_finalization runs before Pool::prune) and no skip certificate for the root slot is ever delivered (a finalized slot cannot be skip-certified with < 20 % Byzantine stake); without this a parent reaching a later window through a skipped root would be lost",
        "marks for slots below the root are ignored (documented contract of prune): the reference function is evaluated over the accepted marks only",
        "one waiter per window start at a time (a second wait_for_parent_ready for a slot with a pending waiter hits assert!(maybe_waiter.is_none()); the block producer asks once per window)",
        "handle_finalization returns at most one of the pairs that became ready, one of the highest window (documented: 'keep only highest slot ParentReady'); the other pairs are recorded and served by the query but never announced",
        "at most 1 (2b: 2) certified blocks per slot, all slots' blocks carry the same two hash constants (block identity = slot + constant index)",
        "under Kani: slot-indexed array map for HashMap<Slot, _>, packed bounded list for SmallVec (elements restricted to slots < 64 and the two hash constants, anything else is reported as unsupported), one-cell stand-in for tokio::sync::oneshot (send never fails: receivers are kept alive); native replay runs the real containers",
    ],
    "trusted_base": ["reference function Ghost::ready / state function build() in kani_c07.rs", "stand-ins in harness/C07/c07_coll.rs (HashMap, SmallVec incl. the order-preserving packing, oneshot)", "--max-field-sensitivity-array-size 16 (CBMC option; 32-byte hashes kept as whole arrays)"],
    "outside": [
        "histories longer than one step from F(G) in which the ready lists are in an order other than ascending / descending (the tracker's results do not depend on list order except the minimum returned to a waiter, which is checked on real orders in the wait harnesses)",
        "more than 3 certified blocks besides genesis in the step family, more than 2 competing blocks per slot, slots >= 12",
        "hash mix-ups between different slots (all blocks share two hash constants)",
        "a waiter whose receiver was dropped (send error path, warn!), two waiters for one slot, wait_for_parent_ready for a slot below the root (re-creates pruned state; not part of the property)",
        "PoolImpl::add_cert / handle_finalization / prune call order (async, tokio mpsc), FinalityTracker producing the events (C08)",
        "pairs suppressed by handle_finalization are not announced at all: the literal reading 'every ready pair is announced' does not hold for them (they belong to windows made moot by the finalization)",
    ],
    "harnesses": _harnesses(),
}
