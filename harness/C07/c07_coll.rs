//! Container stand-ins for the C07 harnesses (overlay file `crate::c07_coll`).
//!
//! Active under Kani only: `use std::collections::HashMap`, `use smallvec::…` and
//! `use tokio::sync::oneshot` inside `parent_ready_tracker.rs` / `parent_ready_state.rs` are
//! redirected here under `cfg(kani)` (spec `redirects`).  Native replay runs the real
//! `std::collections::HashMap`, `smallvec::SmallVec` and `tokio::sync::oneshot`.
//!
//! * `HashMap<Slot, V>`: a map whose key space is `Slot(0) .. Slot(NSLOT-1)`, stored as an
//!   array indexed by the slot number.  With the concrete slot numbers of the harnesses every
//!   access is a constant-index access (no search, no symbolic fill position).  A key outside
//!   the key space is reported as `VS-UNSUPPORTED` (inconclusive), never cut silently.
//! * `SmallVec<[T; N]>`: `len` + CAP *packed* elements (see `Elem`), with the API subset the two
//!   files use; dereferences to a slice of real values like the real one (materialised into a
//!   fresh buffer).  Exceeding the capacity is `VS-UNSUPPORTED`.
//! * `oneshot`: one shared `Option<T>` cell; `send` never fails (the receiver is kept alive by
//!   the harnesses), `try_recv` takes the value.
#![allow(dead_code, unused_imports, unused_macros, clippy::all, unreachable_pub, static_mut_refs)]

use std::marker::PhantomData;
use std::mem::MaybeUninit;

fn unsupported(what: &'static str) -> ! {
    panic!("VS-UNSUPPORTED: {}", what)
}

// ---------------------------------------------------------------------------------------
// slot-indexed map
// ---------------------------------------------------------------------------------------
/// Number of keys of the slot-indexed map (`Slot(0) ..= Slot(NSLOT-1)`).
pub const NSLOT: usize = 14;

macro_rules! unroll_slots {
    ($i:ident, $body:block) => {
        unroll_slots!(@go $i, $body, [0, 1, 2, 3, 4, 5, 6, 7, 8, 9, 10, 11, 12, 13]);
    };
    (@go $i:ident, $body:block, [$($k:literal),*]) => {
        $( { let $i: usize = $k; $body } )*
    };
}

/// Keys that are small numbers.
pub trait SlotKey: Sized {
    fn index(&self) -> usize;
    fn from_index(i: usize) -> Self;
}
impl SlotKey for crate::Slot {
    fn index(&self) -> usize {
        let i = self.inner();
        if i >= NSLOT as u64 {
            unsupported("slot outside the key space of the stand-in map");
        }
        i as usize
    }
    fn from_index(i: usize) -> Self {
        crate::Slot::new(i as u64)
    }
}

/// Every cell holds a value from the start (`V::default()` while the key is absent): the content
/// of an absent key is then a *constant* for symbolic execution, not an unconstrained payload,
/// so e.g. "is the next slot skip-certified" is decided syntactically for untouched slots.
pub struct HashMap<K, V> {
    present: [bool; NSLOT],
    vals: [V; NSLOT],
    _k: PhantomData<K>,
}

impl<K: SlotKey, V: Default> HashMap<K, V> {
    pub fn new() -> Self {
        Self { present: [false; NSLOT], vals: [V::default(), V::default(), V::default(), V::default(), V::default(), V::default(), V::default(), V::default(), V::default(), V::default(), V::default(), V::default(), V::default(), V::default()], _k: PhantomData }
    }
    /// `&mut` to the value cell of index `i`, selected among constant element addresses (a
    /// reference with a symbolic array offset makes CBMC read the whole array byte-wise).
    fn cell_mut(&mut self, i: usize) -> &mut V {
        let base = self.vals.as_mut_ptr();
        unroll_slots!(j, {
            if j == i {
                // SAFETY: j < NSLOT is a constant index
                return unsafe { &mut *base.add(j) };
            }
        });
        unsupported("slot outside the key space of the stand-in map")
    }
    fn cell(&self, i: usize) -> &V {
        unroll_slots!(j, {
            if j == i {
                return &self.vals[j];
            }
        });
        unsupported("slot outside the key space of the stand-in map")
    }
    pub fn len(&self) -> usize {
        let mut n = 0;
        unroll_slots!(j, {
            n += self.present[j] as usize;
        });
        n
    }
    pub fn is_empty(&self) -> bool {
        self.len() == 0
    }
    pub fn get(&self, k: &K) -> Option<&V> {
        let i = k.index();
        if self.present[i] { Some(self.cell(i)) } else { None }
    }
    pub fn get_mut(&mut self, k: &K) -> Option<&mut V> {
        let i = k.index();
        if self.present[i] { Some(self.cell_mut(i)) } else { None }
    }
    pub fn contains_key(&self, k: &K) -> bool {
        self.present[k.index()]
    }
    pub fn insert(&mut self, k: K, v: V) -> Option<V> {
        let i = k.index();
        let was = self.present[i];
        self.present[i] = true;
        let old = std::mem::replace(self.cell_mut(i), v);
        if was { Some(old) } else { None }
    }
    pub fn remove(&mut self, k: &K) -> Option<V> {
        let i = k.index();
        let was = self.present[i];
        self.present[i] = false;
        let old = std::mem::take(self.cell_mut(i));
        if was { Some(old) } else { None }
    }
    pub fn entry(&mut self, k: K) -> Entry<'_, K, V> {
        let i = k.index();
        let base = self.present.as_mut_ptr();
        // SAFETY: i < NSLOT (checked by `index`); `present` and `vals` are disjoint fields
        let present = unsafe { &mut *base.add(i) };
        Entry { present, cell: self.cell_mut(i), _k: PhantomData }
    }
    pub fn retain(&mut self, mut f: impl FnMut(&K, &mut V) -> bool) {
        unroll_slots!(j, {
            if self.present[j] && !f(&K::from_index(j), &mut self.vals[j]) {
                self.present[j] = false;
                self.vals[j] = V::default();
            }
        });
    }
}
impl<K: SlotKey, V: Default> Default for HashMap<K, V> {
    fn default() -> Self {
        Self::new()
    }
}

pub struct Entry<'a, K, V> {
    present: &'a mut bool,
    cell: &'a mut V,
    _k: PhantomData<K>,
}
impl<'a, K, V> Entry<'a, K, V> {
    pub fn or_insert_with(self, f: impl FnOnce() -> V) -> &'a mut V {
        if !*self.present {
            *self.present = true;
            *self.cell = f();
        }
        self.cell
    }
    pub fn or_default(self) -> &'a mut V
    where
        V: Default,
    {
        self.or_insert_with(V::default)
    }
}

// ---------------------------------------------------------------------------------------
// smallvec::SmallVec
// ---------------------------------------------------------------------------------------
/// Element types of the lists in the two files, with a *packed* representation: an order
/// preserving bijection between the values the harnesses use (slots < 64, the block hash
/// constants `HASHES`) and small numbers.  A value outside that universe is reported as
/// `VS-UNSUPPORTED` (inconclusive), never mapped to something else.
///
/// Why: a list of 32-byte hashes stored verbatim makes every move of the list, every control
/// flow join and every `==` (a 32-iteration `memcmp`) pay for 32+ scalars per element; two
/// operations on the real layout exceed the memory cap (measured: 1.6 M symex steps).  Packed,
/// a list is `len` + CAP 16-bit numbers.
pub trait Elem: Sized {
    /// strictly monotone w.r.t. `Ord`
    fn pack(&self) -> u16;
    fn unpack(p: u16) -> Self;
    /// effective capacity of lists of this type
    fn cap() -> usize {
        cap_other()
    }
}
/// Number of block hash constants of the universe.
pub const NHASH: usize = 2;
pub const HASH_WORDS: [[u64; 4]; NHASH] = [[0, 0, 0, 0], [1, 0, 0, 0]];
/// Block hash constant `b`: 0 = 32 zero bytes (the genesis hash value), 1 = byte 0 set to one.
pub fn hash_const(b: usize) -> crate::crypto::merkle::BlockHash {
    let w: [u64; 4] = [(b as u64).to_le(), 0, 0, 0];
    // SAFETY: BlockHash is a transparent wrapper chain around [u8; 32]
    unsafe { std::mem::transmute::<[u64; 4], crate::crypto::merkle::BlockHash>(w) }
}
impl Elem for crate::crypto::merkle::BlockHash {
    fn pack(&self) -> u16 {
        // SAFETY: BlockHash is a transparent wrapper chain around [u8; 32]
        let w: [u64; 4] = unsafe { std::ptr::read_unaligned(self as *const Self as *const [u64; 4]) };
        if w[1] != 0 || w[2] != 0 || w[3] != 0 || u64::from_le(w[0]) >= NHASH as u64 {
            unsupported("block hash outside the universe of the packed stand-in list");
        }
        u64::from_le(w[0]) as u16
    }
    fn unpack(p: u16) -> Self {
        hash_const(p as usize)
    }
    fn cap() -> usize {
        cap_hash()
    }
}
impl Elem for crate::Slot {
    fn pack(&self) -> u16 {
        if self.inner() >= 64 {
            unsupported("slot outside the universe of the packed stand-in list");
        }
        self.inner() as u16
    }
    fn unpack(p: u16) -> Self {
        crate::Slot::new(p as u64)
    }
}
impl Elem for crate::BlockId {
    fn pack(&self) -> u16 {
        (self.0.pack() << 2) | self.1.pack()
    }
    fn unpack(p: u16) -> Self {
        (crate::Slot::unpack(p >> 2), crate::crypto::merkle::BlockHash::unpack(p & 3))
    }
}
impl Elem for (crate::Slot, crate::BlockId) {
    fn pack(&self) -> u16 {
        (self.0.pack() << 8) | self.1.pack()
    }
    fn unpack(p: u16) -> Self {
        (crate::Slot::unpack(p >> 8), crate::BlockId::unpack(p & 255))
    }
    fn cap() -> usize {
        cap_ann()
    }
}

/// Storage capacity of every stand-in list.  The harness sets the *effective* capacities
/// (`set_caps`): loops over a list are unwound up to the effective capacity whatever the real
/// length, so it is part of the harness bound.  One static with a unique first field (Kani
/// de-duplicates constant allocations by content).
pub const CAP: usize = 16;
struct Caps {
    magic: [u64; 2],
    /// lists of block hashes (certified blocks of one slot)
    hash: usize,
    /// lists of block ids (ready parents of a window, candidate parents collected by a call)
    other: usize,
    /// lists of announcements (window start, parent)
    ann: usize,
}
static mut CAPS: Caps = Caps { magic: [0x5eed_c07c_0110_0001, 0x9e37_79b9_7f4a_7c07], hash: CAP, other: CAP, ann: CAP };
pub fn set_caps(hash: usize, other: usize, ann: usize) {
    assert!(hash <= CAP && other <= CAP && ann <= CAP);
    // SAFETY: single-threaded harness
    unsafe {
        CAPS.hash = hash;
        CAPS.other = other;
        CAPS.ann = ann;
    }
}
fn cap_ann() -> usize {
    // SAFETY: single-threaded harness
    unsafe { CAPS.ann }
}
fn cap_hash() -> usize {
    // SAFETY: single-threaded harness
    unsafe { CAPS.hash }
}
fn cap_other() -> usize {
    // SAFETY: single-threaded harness
    unsafe { CAPS.other }
}

pub trait Array {
    type Item: Elem;
}
impl<T: Elem, const N: usize> Array for [T; N] {
    type Item = T;
}

/// The packed elements live in two scalar words (8 elements of 16 bits each), not in an array:
/// the lists sit inside an enum variant of the code under test (`IsReady::Ready`), and CBMC 6.11
/// loses writes to an element of an array that is a member of a union under field sensitivity
/// (measured: after two `add_to_ready` the second element was unconstrained; a harness that
/// should pass failed, the counterexample did not reproduce natively).
pub struct SmallVec<A: Array> {
    len: usize,
    lo: u128,
    hi: u128,
    _a: PhantomData<A>,
}
impl<A: Array> SmallVec<A> {
    pub fn new() -> Self {
        Self { len: 0, lo: 0, hi: 0, _a: PhantomData }
    }
    fn item(&self, i: usize) -> u16 {
        let w = if i < 8 { self.lo } else { self.hi };
        ((w >> (16 * (i & 7))) & 0xffff) as u16
    }
    fn set_item(&mut self, i: usize, p: u16) {
        let sh = 16 * (i & 7);
        let mask = !(0xffffu128 << sh);
        if i < 8 {
            self.lo = (self.lo & mask) | ((p as u128) << sh);
        } else {
            self.hi = (self.hi & mask) | ((p as u128) << sh);
        }
    }
    fn cap() -> usize {
        <A::Item as Elem>::cap()
    }
    pub fn len(&self) -> usize {
        self.len
    }
    pub fn is_empty(&self) -> bool {
        self.len == 0
    }
    pub fn push(&mut self, t: A::Item) {
        if self.len >= Self::cap() {
            unsupported("stand-in SmallVec capacity exceeded");
        }
        let p = t.pack();
        std::mem::forget(t);
        self.set_item(self.len, p);
        self.len += 1;
    }
    pub fn extend(&mut self, it: impl IntoIterator<Item = A::Item>) {
        // at most cap elements fit: the loop is bounded by a constant for symbolic execution
        let cap = Self::cap();
        let mut n = 0;
        for x in it {
            if n >= cap {
                unsupported("stand-in SmallVec capacity exceeded");
            }
            self.push(x);
            n += 1;
        }
    }
    pub fn contains(&self, t: &A::Item) -> bool {
        let p = t.pack();
        let cap = Self::cap();
        let mut c = false;
        let mut i = 0;
        while i < cap {
            c = c || (i < self.len && self.item(i) == p);
            i += 1;
        }
        c
    }
    /// Ascending order (the packing is monotone, so this is the order of `A::Item`).
    pub fn sort(&mut self)
    where
        A::Item: Ord,
    {
        let n = Self::cap();
        let mut i = 0;
        while i < n {
            let mut j = 0;
            while j + 1 < n {
                let (x, y) = (self.item(j), self.item(j + 1));
                if j + 1 < self.len && x > y {
                    self.set_item(j, y);
                    self.set_item(j + 1, x);
                }
                j += 1;
            }
            i += 1;
        }
    }
    /// The elements as real values in a fresh (leaked) array.
    fn materialize<'a>(&self) -> &'a [MaybeUninit<A::Item>; CAP] {
        let arr: &'a mut [MaybeUninit<A::Item>; CAP] = Box::leak(Box::new([const { MaybeUninit::uninit() }; CAP]));
        let cap = Self::cap();
        let mut i = 0;
        while i < cap {
            arr[i] = MaybeUninit::new(A::Item::unpack(self.item(i)));
            i += 1;
        }
        arr
    }
    pub fn iter(&self) -> Iter<'_, A::Item> {
        Iter { arr: self.materialize(), i: 0, len: self.len, cap: Self::cap() }
    }
}
impl<A: Array> Default for SmallVec<A> {
    fn default() -> Self {
        Self::new()
    }
}
impl<A: Array> std::ops::Deref for SmallVec<A> {
    type Target = [A::Item];
    fn deref(&self) -> &[A::Item] {
        let arr = self.materialize();
        // SAFETY: the first `cap >= len` elements are initialised
        unsafe { std::slice::from_raw_parts(arr.as_ptr() as *const A::Item, self.len) }
    }
}
impl<A: Array> std::ops::Index<usize> for SmallVec<A> {
    type Output = A::Item;
    fn index(&self, idx: usize) -> &A::Item {
        if idx >= self.len {
            panic!("index out of bounds");
        }
        Box::leak(Box::new(A::Item::unpack(self.item(idx))))
    }
}
impl<A: Array> std::fmt::Debug for SmallVec<A> {
    fn fmt(&self, _f: &mut std::fmt::Formatter<'_>) -> std::fmt::Result {
        Ok(())
    }
}
impl<A: Array> Clone for SmallVec<A> {
    fn clone(&self) -> Self {
        Self { len: self.len, lo: self.lo, hi: self.hi, _a: PhantomData }
    }
}
impl<T: Elem, const N: usize> From<[T; N]> for SmallVec<[T; N]> {
    fn from(a: [T; N]) -> Self {
        let mut out = Self::new();
        for x in a {
            out.push(x);
        }
        out
    }
}
impl<A: Array> FromIterator<A::Item> for SmallVec<A> {
    fn from_iter<I: IntoIterator<Item = A::Item>>(it: I) -> Self {
        let mut out = Self::new();
        out.extend(it);
        out
    }
}
/// Borrowing iterator over the materialised elements (constant indices, no slice iterator).
pub struct Iter<'a, T> {
    arr: &'a [MaybeUninit<T>; CAP],
    i: usize,
    len: usize,
    cap: usize,
}
impl<'a, T> Iterator for Iter<'a, T> {
    type Item = &'a T;
    fn next(&mut self) -> Option<&'a T> {
        if self.i < self.cap && self.i < self.len {
            // SAFETY: i < len <= cap elements are initialised
            let r = unsafe { self.arr[self.i].assume_init_ref() };
            self.i += 1;
            Some(r)
        } else {
            None
        }
    }
}
impl<'a, A: Array> IntoIterator for &'a SmallVec<A> {
    type Item = &'a A::Item;
    type IntoIter = Iter<'a, A::Item>;
    fn into_iter(self) -> Self::IntoIter {
        self.iter()
    }
}
/// By-value iterator.
pub struct IntoIter<A: Array> {
    v: SmallVec<A>,
    i: usize,
    cap: usize,
}
impl<A: Array> Iterator for IntoIter<A> {
    type Item = A::Item;
    fn next(&mut self) -> Option<A::Item> {
        if self.i < self.cap && self.i < self.v.len {
            let x = A::Item::unpack(self.v.item(self.i));
            self.i += 1;
            Some(x)
        } else {
            None
        }
    }
}
impl<A: Array> IntoIterator for SmallVec<A> {
    type Item = A::Item;
    type IntoIter = IntoIter<A>;
    fn into_iter(self) -> IntoIter<A> {
        IntoIter { v: self, i: 0, cap: Self::cap() }
    }
}

macro_rules! smallvec {
    ($($x:expr),* $(,)?) => {{
        let mut v = $crate::c07_coll::SmallVec::new();
        $( v.push($x); )*
        v
    }};
}
pub(crate) use smallvec;

// ---------------------------------------------------------------------------------------
// tokio::sync::oneshot
// ---------------------------------------------------------------------------------------
pub mod oneshot {
    pub mod error {
        #[derive(Debug, PartialEq, Eq, Clone, Copy)]
        pub enum TryRecvError {
            Empty,
            Closed,
        }
        #[derive(Debug, PartialEq, Eq, Clone, Copy)]
        pub struct RecvError(pub(super) ());
    }
    /// The shared cell is leaked (Kani only).
    pub struct Sender<T> {
        cell: *mut Option<T>,
    }
    pub struct Receiver<T> {
        cell: *mut Option<T>,
    }
    // SAFETY: Kani harnesses are single-threaded
    unsafe impl<T: Send> Send for Sender<T> {}
    unsafe impl<T: Send> Sync for Sender<T> {}
    unsafe impl<T: Send> Send for Receiver<T> {}
    unsafe impl<T: Send> Sync for Receiver<T> {}

    pub fn channel<T>() -> (Sender<T>, Receiver<T>) {
        let cell = Box::into_raw(Box::new(None));
        (Sender { cell }, Receiver { cell })
    }
    impl<T> Sender<T> {
        /// Never fails: the harnesses keep the receiver alive.
        pub fn send(self, t: T) -> Result<(), T> {
            // SAFETY: the cell is never freed
            unsafe { *self.cell = Some(t) };
            Ok(())
        }
    }
    impl<T> Receiver<T> {
        /// Compile-compatibility only (block producer); never called by a harness.
        pub fn is_terminated(&self) -> bool {
            false
        }
        pub fn try_recv(&mut self) -> Result<T, error::TryRecvError> {
            // SAFETY: the cell is never freed
            match unsafe { (*self.cell).take() } {
                Some(t) => Ok(t),
                None => Err(error::TryRecvError::Empty),
            }
        }
    }
    /// Only so that the code awaiting a receiver (block producer) still compiles under Kani;
    /// never polled by a harness.
    impl<T> std::future::Future for Receiver<T> {
        type Output = Result<T, error::RecvError>;
        fn poll(mut self: std::pin::Pin<&mut Self>, _cx: &mut std::task::Context<'_>) -> std::task::Poll<Self::Output> {
            match self.try_recv() {
                Ok(t) => std::task::Poll::Ready(Ok(t)),
                Err(_) => std::task::Poll::Pending,
            }
        }
    }
    impl<T> std::fmt::Debug for Sender<T> {
        fn fmt(&self, _f: &mut std::fmt::Formatter<'_>) -> std::fmt::Result {
            Ok(())
        }
    }
    impl<T> std::fmt::Debug for Receiver<T> {
        fn fmt(&self, _f: &mut std::fmt::Formatter<'_>) -> std::fmt::Result {
            Ok(())
        }
    }
}
