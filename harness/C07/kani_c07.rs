//! C07 harnesses (overlay module `crate::consensus::pool::parent_ready_tracker::kani_c07`).
//!
//! Ghost `G` = what the tracker has been told and accepted: the certified blocks
//! `nf[slot][block]` (genesis included), the skipped slots `skip[slot]`, and the pruning root.
//! The reference function `R(G, s)` is the property statement: the ready parents of a window
//! start `s` are the certified blocks `(t, b)`, `t < s`, such that every slot strictly between
//! `t` and `s` is skipped.  After every operation the harnesses compare
//!   * `parents_ready(s)` *as a set, without duplicates* with `R(G', s)` for every window start
//!     `s >= root` in range (4, 8, 12),
//!   * the returned announcements with exactly the pairs of `R(G') \ R(G)`, each once
//!     (`handle_finalization`: at most one of them, of the highest window, as documented),
//!   * at the end of a run: every pair was announced exactly once iff it is ready,
//!   * (step family) the whole per-slot state with `F(G')`.
//!
//! Blocks: at most NB (1 or 2) competing blocks per slot; block `b` of every slot carries the
//! hash constant `c07_coll::hash_const(b)` (block 0 = the genesis hash value), so a block is
//! identified by (slot, b).  Outside the claim as a consequence: mix-ups between hashes of
//! different slots.
#![allow(dead_code, unused_imports, unused_variables, unused_mut, clippy::all)]

use super::parent_ready_state::ParentReadyState;
use super::*;
use crate::crypto::merkle::{BlockHash, GENESIS_BLOCK_HASH};
use crate::verif_std as vs;
use crate::verif_std::{vcheck, vcover};

/// Ghost slots `0..NSX`; operations are issued for slots `1..NSX`.
const NSX: usize = 12;
/// Window starts whose ready parents are compared.
const NW: usize = 3;
const WINS: [usize; NW] = [4, 8, 12];
/// Longest list a harness can ask to scan.
const MAXL: usize = 12;

const NF: u8 = 0;
const SKIP: u8 = 1;

/// Block constant `b` (0 = the genesis hash value, 1 = a second value).
fn hash_of(b: usize) -> BlockHash {
    crate::c07_coll::hash_const(b)
}
/// Effective capacities of the stand-in lists (Kani only; natively the real SmallVec grows).
fn set_caps(_hash: usize, _other: usize, _ann: usize) {
    #[cfg(kani)]
    crate::c07_coll::set_caps(_hash, _other, _ann);
}
fn bid(s: usize, b: usize) -> BlockId {
    (Slot::new(s as u64), hash_of(b))
}
/// Which of the NB block constants `h` is (NB = none of them).
fn blk_of<const NB: usize>(h: &BlockHash) -> usize {
    // SAFETY: BlockHash is a transparent wrapper chain around [u8; 32]
    let w: [u64; 4] = unsafe { std::ptr::read_unaligned(h as *const BlockHash as *const [u64; 4]) };
    let w0 = u64::from_le(w[0]);
    if w[1] == 0 && w[2] == 0 && w[3] == 0 && w0 < NB as u64 { w0 as usize } else { NB }
}
fn win_index(s: u64) -> usize {
    let mut r = NW;
    let mut w = 0;
    while w < NW {
        if s == WINS[w] as u64 {
            r = w;
        }
        w += 1;
    }
    r
}

// ---------------------------------------------------------------------------------------
// ghost and reference function
// ---------------------------------------------------------------------------------------
#[derive(Clone, Copy)]
struct Ghost<const NB: usize> {
    nf: [[bool; NB]; NSX],
    skip: [bool; NSX],
    root: usize,
}
type Set<const NB: usize> = [[bool; NB]; NSX];
type Rdy<const NB: usize> = [Set<NB>; NW];

impl<const NB: usize> Ghost<NB> {
    fn fresh() -> Self {
        let mut g = Ghost { nf: [[false; NB]; NSX], skip: [false; NSX], root: 0 };
        g.nf[0][0] = true; // genesis
        g
    }
    /// R(G, s), the property statement: (t, b) is a ready parent of the window start s iff b is
    /// certified in slot t < s and every slot strictly between t and s is skipped.
    fn ready(&self, s: usize) -> Set<NB> {
        let mut out = [[false; NB]; NSX];
        // walking down from s-1: `between_skipped` = all of t+1 .. s-1 are skipped
        let mut between_skipped = true;
        let mut t = s;
        while t > 0 {
            t -= 1;
            if t < NSX {
                let mut b = 0;
                while b < NB {
                    out[t][b] = self.nf[t][b] && between_skipped;
                    b += 1;
                }
                between_skipped = between_skipped && self.skip[t];
            }
        }
        out
    }
    fn ready_all(&self) -> Rdy<NB> {
        [self.ready(WINS[0]), self.ready(WINS[1]), self.ready(WINS[2])]
    }
    fn any_block(&self, s: usize) -> bool {
        let mut r = false;
        let mut b = 0;
        while b < NB {
            r = r || self.nf[s][b];
            b += 1;
        }
        r
    }
}
fn set_size<const NB: usize>(x: &Set<NB>) -> usize {
    let mut n = 0;
    let mut t = 0;
    while t < NSX {
        let mut b = 0;
        while b < NB {
            n += x[t][b] as usize;
            b += 1;
        }
        t += 1;
    }
    n
}
/// The least member (lowest slot, then lowest block constant = the order of `BlockId`).
fn set_min<const NB: usize>(x: &Set<NB>) -> Option<(usize, usize)> {
    let mut r = None;
    let mut t = NSX;
    while t > 0 {
        t -= 1;
        let mut b = NB;
        while b > 0 {
            b -= 1;
            if x[t][b] {
                r = Some((t, b));
            }
        }
    }
    r
}

// ---------------------------------------------------------------------------------------
// observation of the real lists
// ---------------------------------------------------------------------------------------
struct Counts<const NB: usize> {
    c: [[u8; NB]; NSX],
    /// an entry that is none of the candidate blocks (or a list longer than all candidates)
    alien: bool,
}
/// `maxl`: the longest list possible within the bounds of the harness (= the effective stand-in
/// capacity); a longer list (natively) is reported as a failure.
fn scan<const NB: usize>(list: &[BlockId], maxl: usize) -> Counts<NB> {
    let mut c = [[0u8; NB]; NSX];
    let n = list.len();
    let mut alien = n > maxl;
    let mut i = 0;
    while i < maxl {
        if i < n {
            let (s, h) = &list[i];
            let t = s.inner();
            let b = blk_of::<NB>(h);
            if t < NSX as u64 && b < NB {
                c[t as usize][b] += 1;
            } else {
                alien = true;
            }
        }
        i += 1;
    }
    Counts { c, alien }
}

/// `tot[w][t][b]` = how often (WINS[w], (t, b)) was announced.
type Tot<const NB: usize> = [[[u8; NB]; NSX]; NW];

struct AnnCounts<const NB: usize> {
    c: Tot<NB>,
    alien: bool,
    n: usize,
}
fn scan_ann<const NB: usize>(ann: &[(Slot, BlockId)], maxl: usize) -> AnnCounts<NB> {
    let mut c: Tot<NB> = [[[0u8; NB]; NSX]; NW];
    let n = ann.len();
    let mut alien = n > maxl;
    let mut i = 0;
    while i < maxl {
        if i < n {
            let (s, (ps, h)) = &ann[i];
            let w = win_index(s.inner());
            let t = ps.inner();
            let b = blk_of::<NB>(h);
            if w < NW && t < NSX as u64 && b < NB {
                c[w][t as usize][b] += 1;
            } else {
                alien = true;
            }
        }
        i += 1;
    }
    AnnCounts { c, alien, n }
}

/// Per-run context.
struct Run<const NB: usize> {
    /// longest list of ready / candidate parents within the bounds of the harness
    maxl: usize,
    /// longest list of announcements of one call
    maxa: usize,
    tot: Tot<NB>,
    announced: usize,
    silent_ops: usize,
    ignored_ops: usize,
    pruned: bool,
}
impl<const NB: usize> Run<NB> {
    fn new(maxl: usize) -> Self {
        // one call announces each candidate parent for at most NW windows
        let maxa = if maxl * NW < MAXL { maxl * NW } else { MAXL };
        assert!(maxl <= MAXL);
        set_caps(NB, maxl, maxa);
        Run { maxl, maxa, tot: [[[0u8; NB]; NSX]; NW], announced: 0, silent_ops: 0, ignored_ops: 0, pruned: false }
    }
}

/// Compares `parents_ready` with R(G) for every window start at or above the root.
fn check_ready<const NB: usize>(t: &ParentReadyTracker, g: &Ghost<NB>, r: &Rdy<NB>, maxl: usize) {
    let mut w = 0;
    while w < NW {
        let s = WINS[w];
        if s >= g.root {
            let got = scan::<NB>(t.parents_ready(Slot::new(s as u64)), maxl);
            vcheck!(!got.alien, "a ready-parent list holds an entry that is no certified block before the window");
            let mut u = 0;
            while u < NSX {
                let mut b = 0;
                while b < NB {
                    vcheck!(!(r[w][u][b] && got.c[u][b] == 0), "a certified, skip-connected parent is missing from the ready parents of a window");
                    vcheck!(!(!r[w][u][b] && got.c[u][b] != 0), "a block is listed as ready parent of a window without being certified and skip-connected");
                    vcheck!(got.c[u][b] <= 1, "a ready parent is listed twice for one window");
                    b += 1;
                }
                u += 1;
            }
        }
        w += 1;
    }
}

/// Compares the announcements returned by one call with R(G') \ R(G), and adds them to `tot`.
fn check_announced<const NB: usize>(ann: &[(Slot, BlockId)], root: usize, before: &Rdy<NB>, after: &Rdy<NB>, run: &mut Run<NB>) -> usize {
    let a = scan_ann::<NB>(ann, run.maxa);
    vcheck!(!a.alien, "an announcement names a slot that is no window start in range or a block that was never certified");
    let mut w = 0;
    while w < NW {
        let mut u = 0;
        while u < NSX {
            let mut b = 0;
            while b < NB {
                let new = after[w][u][b] && !before[w][u][b] && WINS[w] >= root;
                vcheck!(!(new && a.c[w][u][b] == 0), "a pair that became ready was not announced");
                vcheck!(!(!new && a.c[w][u][b] != 0), "a pair was announced that did not become ready by this call (not ready, or ready and announced before)");
                vcheck!(a.c[w][u][b] <= 1, "a pair was announced twice by one call");
                run.tot[w][u][b] += a.c[w][u][b];
                b += 1;
            }
            u += 1;
        }
        w += 1;
    }
    a.n
}

/// At the end of a run: every pair was announced exactly once iff it is ready now.
fn check_total<const NB: usize>(g: &Ghost<NB>, run: &Run<NB>) {
    let fin = g.ready_all();
    let mut w = 0;
    while w < NW {
        let mut u = 0;
        while u < NSX {
            let mut b = 0;
            while b < NB {
                if WINS[w] >= g.root {
                    vcheck!(run.tot[w][u][b] == fin[w][u][b] as u8, "over the whole run a pair was not announced exactly once iff it is ready at the end");
                }
                b += 1;
            }
            u += 1;
        }
        w += 1;
    }
}

/// The whole per-slot state equals F(G) (up to list order and default state objects).
fn check_state<const NB: usize>(t: &ParentReadyTracker, g: &Ghost<NB>) {
    vcheck!(t.root == Slot::new(g.root as u64), "root changed");
    let mut u = 0;
    while u <= NSX {
        let is_win = u % 4 == 0 && u > 0;
        match t.states.get(&Slot::new(u as u64)) {
            None => {
                if u < NSX && u >= g.root {
                    vcheck!(!g.skip[u] && u != 0 && !g.any_block(u), "the state of a slot at or above the root was lost");
                }
            }
            Some(st) => {
                vcheck!(u >= g.root, "state below the root retained or re-created");
                if u < NSX {
                    vcheck!(st.is_skip_certified() == g.skip[u], "skip flag differs from the skip certificates seen");
                    // straight-line scan of the (at most NB) certified blocks
                    let mut it = st.notar_fallback_blocks();
                    let x0 = it.next();
                    let x1 = it.next();
                    let x2 = it.next();
                    vcheck!(x2.is_none(), "more certified blocks recorded for a slot than exist");
                    let b0 = match &x0 {
                        Some(h) => blk_of::<NB>(h),
                        None => NB + 1,
                    };
                    let b1 = match &x1 {
                        Some(h) => blk_of::<NB>(h),
                        None => NB + 1,
                    };
                    vcheck!(b0 != NB && b1 != NB, "unknown block recorded as certified");
                    let mut b = 0;
                    while b < NB {
                        let cnt = (b0 == b) as u8 + (b1 == b) as u8;
                        vcheck!(cnt == g.nf[u][b] as u8, "certified blocks of a slot differ from the certificates seen");
                        b += 1;
                    }
                    std::mem::forget(x0);
                    std::mem::forget(x1);
                    std::mem::forget(x2);
                } else {
                    vcheck!(!st.is_skip_certified(), "slot beyond the range skip-certified");
                }
                if !is_win {
                    vcheck!(st.ready_block_ids().len() == 0, "ready parents recorded for a slot that is not a window start");
                }
            }
        }
        u += 1;
    }
}

/// One `mark_notar_fallback` / `mark_skipped` on the tracker and on the ghost, with all checks.
fn step<const NB: usize>(t: &mut ParentReadyTracker, g: &Ghost<NB>, run: &mut Run<NB>, kind: u8, m: usize, b: usize) -> Ghost<NB> {
    let mut g2 = *g;
    let accepted = m >= g.root;
    if accepted {
        if kind == NF {
            g2.nf[m][b] = true;
        } else {
            g2.skip[m] = true;
        }
    }
    let before = g.ready_all();
    let after = g2.ready_all();
    let ann = if kind == NF { t.mark_notar_fallback(&bid(m, b)) } else { t.mark_skipped(Slot::new(m as u64)) };
    let n = check_announced::<NB>(&ann, g2.root, &before, &after, run);
    check_ready::<NB>(t, &g2, &after, run.maxl);
    run.announced += n;
    run.silent_ops += (n == 0 && accepted) as usize;
    run.ignored_ops += (!accepted) as usize;
    std::mem::forget(ann);
    g2
}

/// A concrete prefix of operations (cheap: constant-folded by symbolic execution), checked too.
fn prefix<const NB: usize>(t: &mut ParentReadyTracker, g: &Ghost<NB>, run: &mut Run<NB>, pre: &[(u8, usize, usize)]) -> Ghost<NB> {
    let mut g = *g;
    let mut i = 0;
    while i < pre.len() {
        g = step::<NB>(t, &g, run, pre[i].0, pre[i].1, pre[i].2);
        i += 1;
    }
    g
}

// ---------------------------------------------------------------------------------------
// family `hist`: fresh tracker, concrete prefix, then K operations of symbolic kind on
// concrete slots; everything checked after every operation
// ---------------------------------------------------------------------------------------
fn hist_body<const NB: usize, const K: usize>(cap: usize, pre: &[(u8, usize, usize)], ops: [(usize, usize); K]) {
    let mut run = Run::<NB>::new(cap);
    let kinds: [u8; K] = std::array::from_fn(|_| vs::any_below(2));
    let mut t = ParentReadyTracker::default();
    let mut g = Ghost::<NB>::fresh();
    check_state::<NB>(&t, &g);
    check_ready::<NB>(&t, &g, &g.ready_all(), run.maxl);
    g = prefix::<NB>(&mut t, &g, &mut run, pre);
    let mut i = 0;
    while i < K {
        g = step::<NB>(&mut t, &g, &mut run, kinds[i], ops[i].0, ops[i].1);
        i += 1;
    }
    check_state::<NB>(&t, &g);
    check_total::<NB>(&g, &run);
    vcover!(run.announced > 0, "a pair is announced");
    vcover!(run.silent_ops > 0, "an accepted operation announces nothing");
    std::mem::forget(t);
}
macro_rules! hist {
    ($name:ident, $nb:literal, $k:literal, $cap:literal, $pre:expr, $ops:expr) => {
        #[cfg_attr(kani, kani::proof)]
        #[cfg_attr(kani, kani::unwind(14))]
        #[cfg_attr(verif_replay, test)]
        fn $name() {
            hist_body::<$nb, $k>($cap, &$pre, $ops)
        }
    };
}
const A: usize = 0;
const B: usize = 1;
// one window
hist!(c07_hist_w1_s3_s3, 1, 2, 4, [], [(3, A), (3, A)]);
hist!(c07_hist_w1_s3_s2_s1, 1, 3, 5, [], [(3, A), (2, A), (1, A)]);
hist!(c07_hist_w1_s1_s2_s3, 1, 3, 5, [], [(1, A), (2, A), (3, A)]);
hist!(c07_hist_w1_s2_s3_s1, 1, 3, 5, [], [(2, A), (3, A), (1, A)]);
hist!(c07_hist_w1_s2_s1_s3, 1, 3, 5, [], [(2, A), (1, A), (3, A)]);
hist!(c07_hist_w1_s3_s1_s2, 1, 3, 5, [], [(3, A), (1, A), (2, A)]);
hist!(c07_hist_w1_s1_s3_s2, 1, 3, 5, [], [(1, A), (3, A), (2, A)]);
// across the window boundary 4 (slot 4 itself skipped or certified)
hist!(c07_hist_x4_s3_s4_s5, 1, 3, 5, [(SKIP, 6, A), (SKIP, 7, A)], [(3, A), (4, A), (5, A)]);
hist!(c07_hist_x4_s4_s3_s2, 1, 3, 6, [(SKIP, 5, A), (SKIP, 6, A), (SKIP, 7, A), (SKIP, 1, A)], [(4, A), (3, A), (2, A)]);
hist!(c07_hist_x4_s5_s4_s3, 1, 3, 6, [(SKIP, 1, A), (SKIP, 2, A), (SKIP, 6, A), (SKIP, 7, A)], [(5, A), (4, A), (3, A)]);
// second window up to window start 8 and on to 12
hist!(c07_hist_w2_s7_s6_s5, 1, 3, 6, [(SKIP, 1, A), (SKIP, 2, A), (SKIP, 3, A), (SKIP, 4, A)], [(7, A), (6, A), (5, A)]);
hist!(c07_hist_w2_s5_s6_s7, 1, 3, 6, [(NF, 2, A), (SKIP, 3, A), (SKIP, 4, A)], [(5, A), (6, A), (7, A)]);
hist!(c07_hist_x8_s7_s8_s9, 1, 3, 6, [(NF, 6, A), (SKIP, 10, A), (SKIP, 11, A)], [(7, A), (8, A), (9, A)]);
hist!(c07_hist_x8_s8_s4_s7, 1, 3, 7, [(SKIP, 1, A), (SKIP, 2, A), (SKIP, 3, A), (SKIP, 5, A), (SKIP, 6, A), (SKIP, 9, A), (SKIP, 10, A), (SKIP, 11, A)], [(8, A), (4, A), (7, A)]);
// two competing blocks in one slot
hist!(c07_hist_2b_s3_s3_s3, 2, 3, 5, [], [(3, A), (3, B), (3, A)]);
hist!(c07_hist_2b_s2_s2_s3, 2, 3, 5, [], [(2, B), (2, A), (3, A)]);
hist!(c07_hist_2b_s3_s2_s2, 2, 3, 6, [(NF, 1, B)], [(3, B), (2, A), (2, B)]);

// ---------------------------------------------------------------------------------------
// family `step`: the tracker state prescribed by an arbitrary ghost, then ONE operation
// ---------------------------------------------------------------------------------------
/// F(G): the state the tracker holds after being told G (in any order; the order only shows in
/// the order of the list entries, chosen here ascending or descending by `desc`).  Built with
/// the real `ParentReadyState` operations.  `all_present`: untouched slots have a (default)
/// state object or none.
fn build<const NB: usize>(g: &Ghost<NB>, r: &Rdy<NB>, desc: bool, all_present: bool) -> ParentReadyTracker {
    let mut states = HashMap::new();
    let mut u = 0;
    while u <= NSX {
        let w = win_index(u as u64);
        let touched = u == 0 || (u < NSX && (g.skip[u] || g.any_block(u))) || (w < NW && set_size::<NB>(&r[w]) > 0);
        if u >= g.root && (touched || all_present) {
            let mut st = if u == 0 { ParentReadyState::genesis() } else { ParentReadyState::default() };
            if u < NSX {
                if g.skip[u] {
                    st.mark_skip();
                }
                let mut b = 0;
                while b < NB {
                    if u > 0 && g.nf[u][b] {
                        st.mark_notar_fallback(hash_of(b));
                    }
                    b += 1;
                }
            }
            if w < NW {
                let top = if u < NSX { u } else { NSX };
                let mut i = 0;
                while i < top {
                    let p = if desc { top - 1 - i } else { i };
                    let mut b = 0;
                    while b < NB {
                        if r[w][p][b] {
                            st.add_to_ready(bid(p, b));
                        }
                        b += 1;
                    }
                    i += 1;
                }
            }
            states.insert(Slot::new(u as u64), st);
        }
        u += 1;
    }
    ParentReadyTracker { states, root: Slot::new(g.root as u64) }
}

const ANY: usize = 255;
/// `KIND`/`m`/`b` concrete; symbolic: the certificates seen for slots lo..=hi (slots below lo are
/// skipped and block-free when `lo > 1`, so that earlier parents reach into the range), the
/// pruning root (0 = never pruned), list order, presence of default states.
fn step_body<const NB: usize, const KIND: u8>(cap: usize, lo: usize, hi: usize, m: usize, b: usize, root_spec: usize) -> Run<NB> {
    let mut run = Run::<NB>::new(cap);
    let mut g = Ghost::<NB>::fresh();
    let mut nblocks = 1;
    let mut u = 1;
    while u <= hi {
        if u >= lo {
            g.skip[u] = vs::any_bool();
            let mut bb = 0;
            while bb < NB {
                g.nf[u][bb] = vs::any_bool();
                nblocks += g.nf[u][bb] as usize;
                bb += 1;
            }
        } else {
            g.skip[u] = true;
        }
        u += 1;
    }
    let desc = vs::any_bool();
    let all_present = vs::any_bool();
    // the pruning root: symbolic (ANY) or fixed by the harness (the draw is made in both cases)
    let root_drawn = vs::any_below(NSX as u8) as usize;
    let root = if root_spec == ANY { root_drawn } else { root_spec };
    // bound: every list fits the effective capacity after one more certified block
    vs::assume(nblocks + 1 <= cap);
    // the pool prunes up to a finalized slot: its block is certified, the slot is never skipped
    vs::assume(root == 0 || (root <= hi && g.any_block(root) && !g.skip[root] && !(KIND == SKIP && m == root)));
    g.root = root;
    let r = g.ready_all();
    let mut t = build::<NB>(&g, &r, desc, all_present);
    let g2 = step::<NB>(&mut t, &g, &mut run, KIND, m, b);
    check_state::<NB>(&t, &g2);
    std::mem::forget(t);
    run.pruned = root > 0;
    run
}
/// Reachability witnesses, selected per harness (a witness that cannot occur within the bounds
/// of a harness must not be present in it).
macro_rules! cov {
    ($r:ident, ann) => {
        vcover!($r.announced > 0, "a pair is announced");
    };
    ($r:ident, multi) => {
        vcover!($r.announced > 1, "several pairs are announced by one call");
    };
    ($r:ident, silent) => {
        vcover!($r.silent_ops > 0, "an accepted operation announces nothing");
    };
    ($r:ident, pruned) => {
        vcover!($r.announced > 0 && $r.pruned, "a pair is announced after pruning");
    };
    ($r:ident, ignored) => {
        vcover!($r.ignored_ops > 0, "a call for a slot below the root is ignored");
    };
}
macro_rules! stepm {
    ($name:ident, $nb:literal, $kind:expr, $cap:literal, $lo:literal, $hi:literal, $m:literal, $b:expr, $root:expr, [$($c:ident),*]) => {
        #[cfg_attr(kani, kani::proof)]
        #[cfg_attr(kani, kani::unwind(14))]
        #[cfg_attr(verif_replay, test)]
        fn $name() {
            let r = step_body::<$nb, { $kind }>($cap, $lo, $hi, $m, $b, $root);
            $( cov!(r, $c); )*
        }
    };
}
// mark_notar_fallback, any root
stepm!(c07_step_nf_s1, 1, NF, 5, 1, 8, 1, A, ANY, [ann, multi, silent, ignored]);
stepm!(c07_step_nf_s2, 1, NF, 5, 1, 8, 2, A, ANY, [ann, multi, silent, pruned, ignored]);
stepm!(c07_step_nf_s3, 1, NF, 5, 1, 8, 3, A, ANY, [ann, multi, silent, pruned, ignored]);
stepm!(c07_step_nf_s4, 1, NF, 5, 1, 8, 4, A, ANY, [ann, silent, pruned, ignored]);
stepm!(c07_step_nf_s5, 1, NF, 5, 1, 8, 5, A, ANY, [ann, silent, pruned, ignored]);
stepm!(c07_step_nf_s6, 1, NF, 5, 1, 8, 6, A, ANY, [ann, silent, pruned, ignored]);
stepm!(c07_step_nf_s7, 1, NF, 5, 1, 8, 7, A, ANY, [ann, silent, pruned, ignored]);
stepm!(c07_step_nf_s8, 1, NF, 5, 5, 11, 8, A, ANY, [ann, silent, pruned, ignored]);
// mark_skipped, never pruned
stepm!(c07_step_skip_s1, 1, SKIP, 5, 1, 8, 1, A, 0, [ann, multi, silent]);
stepm!(c07_step_skip_s2, 1, SKIP, 5, 1, 8, 2, A, 0, [ann, multi, silent]);
stepm!(c07_step_skip_s3, 1, SKIP, 5, 1, 8, 3, A, 0, [ann, multi, silent]);
stepm!(c07_step_skip_s4, 1, SKIP, 5, 1, 8, 4, A, 0, [ann, multi, silent]);
stepm!(c07_step_skip_s5, 1, SKIP, 5, 1, 8, 5, A, 0, [ann, multi, silent]);
stepm!(c07_step_skip_s6, 1, SKIP, 5, 1, 8, 6, A, 0, [ann, multi, silent]);
stepm!(c07_step_skip_s7, 1, SKIP, 5, 1, 8, 7, A, 0, [ann, multi, silent]);
stepm!(c07_step_skip_s8, 1, SKIP, 5, 5, 11, 8, A, 0, [ann, multi, silent]);
// mark_skipped after pruning (root fixed per harness)
stepm!(c07_step_skip_r2_s1, 1, SKIP, 5, 1, 8, 1, A, 2, [ignored]);
stepm!(c07_step_skip_r2_s3, 1, SKIP, 5, 1, 8, 3, A, 2, [ann, silent, pruned]);
stepm!(c07_step_skip_r4_s3, 1, SKIP, 5, 1, 8, 3, A, 4, [ignored]);
stepm!(c07_step_skip_r4_s5, 1, SKIP, 5, 1, 8, 5, A, 4, [silent]);
stepm!(c07_step_skip_r4_s7, 1, SKIP, 5, 1, 8, 7, A, 4, [ann, multi, silent, pruned]);
stepm!(c07_step_skip_r5_s4, 1, SKIP, 5, 1, 8, 4, A, 5, [ignored]);
stepm!(c07_step_skip_r5_s6, 1, SKIP, 5, 1, 8, 6, A, 5, [silent]);
stepm!(c07_step_skip_r5_s7, 1, SKIP, 5, 1, 8, 7, A, 5, [ann, multi, silent, pruned]);
stepm!(c07_step_skip_r7_s8, 1, SKIP, 5, 5, 11, 8, A, 7, [ann, silent, pruned]);
// two competing blocks per slot, one window
stepm!(c07_step2b_nf_s2, 2, NF, 5, 1, 4, 2, B, ANY, [ann, silent, pruned, ignored]);
stepm!(c07_step2b_skip_s3, 2, SKIP, 5, 1, 4, 3, A, 0, [ann, multi, silent]);
stepm!(c07_step2b_skip_r2_s3, 2, SKIP, 5, 1, 4, 3, A, 2, [ann, multi, silent, pruned]);

/// `prune(r)` from F(G): the result is F(G with root r).
fn step_prune_body<const NB: usize>(cap: usize, hi: usize) {
    let mut run = Run::<NB>::new(cap);
    let mut g = Ghost::<NB>::fresh();
    let mut nblocks = 1;
    let mut u = 1;
    while u <= hi {
        g.skip[u] = vs::any_bool();
        let mut bb = 0;
        while bb < NB {
            g.nf[u][bb] = vs::any_bool();
            nblocks += g.nf[u][bb] as usize;
            bb += 1;
        }
        u += 1;
    }
    let desc = vs::any_bool();
    let all_present = vs::any_bool();
    let root = vs::any_below(NSX as u8) as usize;
    let new_root = vs::any_below(NSX as u8) as usize;
    vs::assume(nblocks <= cap);
    vs::assume(root == 0 || (root <= hi && g.any_block(root) && !g.skip[root]));
    vs::assume(new_root >= root && new_root >= 1 && new_root <= hi && g.any_block(new_root) && !g.skip[new_root]);
    g.root = root;
    let r = g.ready_all();
    let mut t = build::<NB>(&g, &r, desc, all_present);
    t.prune(Slot::new(new_root as u64));
    g.root = new_root;
    check_state::<NB>(&t, &g);
    check_ready::<NB>(&t, &g, &r, run.maxl);
    vcover!(new_root > root && root > 0, "pruned a second time");
    vcover!(new_root == 4 && set_size::<NB>(&r[0]) > 1, "the new root is a window start with several ready parents");
    std::mem::forget(t);
}
#[cfg_attr(kani, kani::proof)]
#[cfg_attr(kani, kani::unwind(14))]
#[cfg_attr(verif_replay, test)]
fn c07_step_prune() {
    step_prune_body::<1>(5, 8)
}

// ---------------------------------------------------------------------------------------
// family `fin`: handle_finalization
// ---------------------------------------------------------------------------------------
/// `handle_finalization` marks everything the event names; it returns at most one of the pairs
/// that became ready - one of the highest window (documented: "keep only highest slot").
fn fin_body<const NB: usize, const K: usize>(cap: usize, pre: &[(u8, usize, usize)], ops: [(usize, usize); K], fin: (usize, usize), ifin: &[(usize, usize)], iskip: &[usize]) -> Run<NB> {
    let mut run = Run::<NB>::new(cap);
    let kinds: [u8; K] = std::array::from_fn(|_| vs::any_below(2));
    let mut t = ParentReadyTracker::default();
    let mut g = Ghost::<NB>::fresh();
    g = prefix::<NB>(&mut t, &g, &mut run, pre);
    let mut i = 0;
    while i < K {
        g = step::<NB>(&mut t, &g, &mut run, kinds[i], ops[i].0, ops[i].1);
        i += 1;
    }
    // the event and its effect on the ghost
    let mut g2 = g;
    g2.nf[fin.0][fin.1] = true;
    let mut implicitly_finalized = Vec::with_capacity(ifin.len());
    let mut i = 0;
    while i < ifin.len() {
        g2.nf[ifin[i].0][ifin[i].1] = true;
        implicitly_finalized.push(bid(ifin[i].0, ifin[i].1));
        i += 1;
    }
    let mut implicitly_skipped = Vec::with_capacity(iskip.len());
    let mut i = 0;
    while i < iskip.len() {
        g2.skip[iskip[i]] = true;
        implicitly_skipped.push(Slot::new(iskip[i] as u64));
        i += 1;
    }
    let before = g.ready_all();
    let after = g2.ready_all();
    let event = FinalizationEvent { finalized: Some(bid(fin.0, fin.1)), implicitly_finalized, implicitly_skipped };
    let ann = t.handle_finalization(event);
    let a = scan_ann::<NB>(&ann, run.maxa);
    vcheck!(!a.alien, "an announcement names a slot that is no window start in range or a block that was never certified");
    vcheck!(a.n <= 1, "handle_finalization returned more than one pair");
    // highest window with a pair that became ready
    let mut hw = NW;
    let mut nnew = 0;
    let mut w = 0;
    while w < NW {
        let mut u = 0;
        while u < NSX {
            let mut b = 0;
            while b < NB {
                let new = after[w][u][b] && !before[w][u][b];
                if new {
                    hw = w;
                    nnew += 1;
                }
                vcheck!(!(a.c[w][u][b] != 0 && !new), "handle_finalization announced a pair that did not become ready by this event");
                run.tot[w][u][b] += a.c[w][u][b];
                b += 1;
            }
            u += 1;
        }
        w += 1;
    }
    vcheck!((a.n == 1) == (nnew > 0), "handle_finalization did not announce exactly when a pair became ready");
    if a.n == 1 {
        let mut in_highest = 0;
        let mut u = 0;
        while u < NSX {
            let mut b = 0;
            while b < NB {
                in_highest += a.c[hw][u][b];
                b += 1;
            }
            u += 1;
        }
        vcheck!(in_highest == 1, "handle_finalization did not announce a pair of the highest window that became ready");
    }
    check_ready::<NB>(&t, &g2, &after, run.maxl);
    check_state::<NB>(&t, &g2);
    // over the run: nothing announced twice, nothing announced that is not ready
    let mut w = 0;
    while w < NW {
        let mut u = 0;
        while u < NSX {
            let mut b = 0;
            while b < NB {
                vcheck!(run.tot[w][u][b] <= after[w][u][b] as u8, "over the whole run a pair was announced twice or without being ready");
                b += 1;
            }
            u += 1;
        }
        w += 1;
    }
    run.announced = a.n;
    run.silent_ops = nnew;
    std::mem::forget(ann);
    std::mem::forget(t);
    run
}
macro_rules! fin {
    ($name:ident, $nb:literal, $k:literal, $cap:literal, $pre:expr, $ops:expr, $fin:expr, $ifin:expr, $iskip:expr, [$($c:ident),*]) => {
        #[cfg_attr(kani, kani::proof)]
        #[cfg_attr(kani, kani::unwind(14))]
        #[cfg_attr(verif_replay, test)]
        fn $name() {
            let r = fin_body::<$nb, $k>($cap, &$pre, $ops, $fin, &$ifin, &$iskip);
            $( covf!(r, $c); )*
        }
    };
}
macro_rules! covf {
    ($r:ident, one) => {
        vcover!($r.announced == 1, "the finalization announces a pair");
    };
    ($r:ident, none) => {
        vcover!($r.announced == 0, "the finalization announces nothing");
    };
    ($r:ident, suppressed) => {
        vcover!($r.silent_ops > 1, "several pairs become ready, one is announced");
    };
}
// finalized block is a window start, its parent in the slot before (the documented basic case)
fin!(c07_fin_s4_p3, 1, 2, 5, [], [(3, A), (2, A)], (4, A), [(3, A)], [], [one, none]);
// parent two slots back across the window start, slots between skipped by the finalization
fin!(c07_fin_s5_p2, 1, 2, 6, [(SKIP, 1, A)], [(2, A), (3, A)], (5, A), [(2, A)], [3, 4], [one, none, suppressed]);
// finalized block before an already skipped stretch: pairs in two windows become ready
fin!(c07_fin_s3_p2_two_windows, 1, 2, 6, [(SKIP, 5, A), (SKIP, 6, A), (SKIP, 7, A)], [(4, A), (3, A)], (3, A), [(2, A)], [], [one, none, suppressed]);

// ---------------------------------------------------------------------------------------
// family `prune`: history, finalized root block, prune, late calls
// ---------------------------------------------------------------------------------------
fn prune_body<const NB: usize, const K1: usize, const K2: usize>(cap: usize, pre: &[(u8, usize, usize)], ops1: [(usize, usize); K1], root: (usize, usize), ops2: [(usize, usize); K2]) -> Run<NB> {
    let mut run = Run::<NB>::new(cap);
    let kinds1: [u8; K1] = std::array::from_fn(|_| vs::any_below(2));
    let kinds2: [u8; K2] = std::array::from_fn(|_| vs::any_below(2));
    let mut t = ParentReadyTracker::default();
    let mut g = Ghost::<NB>::fresh();
    g = prefix::<NB>(&mut t, &g, &mut run, pre);
    let mut i = 0;
    while i < K1 {
        // the root slot is finalized: no skip certificate for it exists
        vs::assume(!(ops1[i].0 == root.0 && kinds1[i] == SKIP));
        g = step::<NB>(&mut t, &g, &mut run, kinds1[i], ops1[i].0, ops1[i].1);
        i += 1;
    }
    // the finalization of the root block reaches the tracker before the pool prunes
    g = step::<NB>(&mut t, &g, &mut run, NF, root.0, root.1);
    t.prune(Slot::new(root.0 as u64));
    g.root = root.0;
    check_state::<NB>(&t, &g);
    check_ready::<NB>(&t, &g, &g.ready_all(), run.maxl);
    let announced_before = run.announced;
    let mut i = 0;
    while i < K2 {
        vs::assume(!(ops2[i].0 == root.0 && kinds2[i] == SKIP));
        g = step::<NB>(&mut t, &g, &mut run, kinds2[i], ops2[i].0, ops2[i].1);
        i += 1;
    }
    check_state::<NB>(&t, &g);
    check_total::<NB>(&g, &run);
    run.pruned = true;
    run.announced -= announced_before;
    std::mem::forget(t);
    run
}
macro_rules! prune {
    ($name:ident, $nb:literal, $k1:literal, $k2:literal, $cap:literal, $pre:expr, $ops1:expr, $root:expr, $ops2:expr, [$($c:ident),*]) => {
        #[cfg_attr(kani, kani::proof)]
        #[cfg_attr(kani, kani::unwind(14))]
        #[cfg_attr(verif_replay, test)]
        fn $name() {
            let r = prune_body::<$nb, $k1, $k2>($cap, &$pre, $ops1, $root, $ops2);
            $( cov!(r, $c); )*
        }
    };
}
// root = window start 4; late calls for slot 3 (ignored) and for 5.. (accepted)
prune!(c07_prune_r4_late3, 1, 1, 2, 5, [(SKIP, 1, A), (SKIP, 2, A), (SKIP, 5, A), (SKIP, 6, A)], [(3, A)], (4, A), [(3, A), (7, A)], [pruned, ignored]);
// root = 5 in mid-window; slots 6, 7 afterwards connect the root block to window 8
prune!(c07_prune_r5_then67, 1, 1, 2, 5, [(SKIP, 4, A), (NF, 3, A)], [(6, A)], (5, A), [(7, A), (6, A)], [pruned]);
// root = 3 (last slot of the window): late calls below, then the next window start
prune!(c07_prune_r3_late2, 1, 1, 2, 5, [(SKIP, 1, A)], [(2, A)], (3, A), [(2, A), (4, A)], [ignored]);

// ---------------------------------------------------------------------------------------
// family `wait`: waiter registered before / after readiness
// ---------------------------------------------------------------------------------------
/// A waiter registered for window start `s` while nothing is ready; then K operations.
fn wait_before_body<const NB: usize, const K: usize>(cap: usize, pre: &[(u8, usize, usize)], s: usize, ops: [(usize, usize); K]) {
    let mut run = Run::<NB>::new(cap);
    let kinds: [u8; K] = std::array::from_fn(|_| vs::any_below(2));
    let mut t = ParentReadyTracker::default();
    let mut g = Ghost::<NB>::fresh();
    g = prefix::<NB>(&mut t, &g, &mut run, pre);
    vcheck!(set_size::<NB>(&g.ready(s)) == 0, "harness: the prefix must leave the window without ready parent");
    let mut rx = match t.wait_for_parent_ready(Slot::new(s as u64)) {
        Either::Right(rx) => rx,
        Either::Left(_) => {
            vcheck!(false, "a ready parent was returned although none is ready");
            return;
        }
    };
    let mut woke = false;
    let mut wake_set: Set<NB> = [[false; NB]; NSX];
    let mut i = 0;
    while i < K {
        g = step::<NB>(&mut t, &g, &mut run, kinds[i], ops[i].0, ops[i].1);
        let r = g.ready(s);
        if !woke && set_size::<NB>(&r) > 0 {
            woke = true;
            wake_set = r;
        }
        i += 1;
    }
    let got = rx.try_recv();
    match &got {
        Ok((ps, h)) => {
            let u = ps.inner();
            let b = blk_of::<NB>(h);
            vcheck!(woke, "the waiter was woken although no parent is ready");
            vcheck!(u < NSX as u64 && b < NB && wake_set[u as usize][b], "the waiter was woken with a block that was no ready parent at that moment");
        }
        Err(e) => {
            vcheck!(*e == oneshot::error::TryRecvError::Empty, "the waiter's channel was closed");
            vcheck!(!woke, "a parent became ready but the registered waiter was not woken");
        }
    }
    check_total::<NB>(&g, &run);
    vcover!(woke, "the waiter is woken");
    vcover!(!woke, "the waiter keeps waiting");
    std::mem::forget(got);
    std::mem::forget(rx);
    std::mem::forget(t);
}
/// K operations, then a waiter for `s`: the least ready parent at once, or a channel that
/// delivers the next ready parent (here: the block of slot s-1).
fn wait_after_body<const NB: usize, const K: usize>(cap: usize, pre: &[(u8, usize, usize)], s: usize, ops: [(usize, usize); K]) {
    let mut run = Run::<NB>::new(cap);
    let kinds: [u8; K] = std::array::from_fn(|_| vs::any_below(2));
    let mut t = ParentReadyTracker::default();
    let mut g = Ghost::<NB>::fresh();
    g = prefix::<NB>(&mut t, &g, &mut run, pre);
    let mut i = 0;
    while i < K {
        g = step::<NB>(&mut t, &g, &mut run, kinds[i], ops[i].0, ops[i].1);
        i += 1;
    }
    let r = g.ready(s);
    let least = set_min::<NB>(&r);
    let mut immediate = false;
    match t.wait_for_parent_ready(Slot::new(s as u64)) {
        Either::Left(p) => {
            immediate = true;
            match least {
                Some((u, b)) => vcheck!(p == bid(u, b), "the waiter did not get the least ready parent"),
                None => vcheck!(false, "a ready parent was returned although none is ready"),
            }
            // the query still agrees (the call may reorder the list)
            check_ready::<NB>(&t, &g, &g.ready_all(), run.maxl);
        }
        Either::Right(mut rx) => {
            vcheck!(least.is_none(), "a parent is ready but the waiter was put on hold");
            g = step::<NB>(&mut t, &g, &mut run, NF, s - 1, A);
            let got = rx.try_recv();
            vcheck!(matches!(&got, Ok(p) if *p == bid(s - 1, A)), "the waiter was not woken with the parent that became ready");
            std::mem::forget(got);
            std::mem::forget(rx);
        }
    }
    vcover!(immediate, "a ready parent is returned at once");
    vcover!(!immediate, "the waiter is put on hold and woken later");
    std::mem::forget(t);
}
macro_rules! wait {
    ($name:ident, $body:ident, $nb:literal, $k:literal, $cap:literal, $pre:expr, $s:literal, $ops:expr) => {
        #[cfg_attr(kani, kani::proof)]
        #[cfg_attr(kani, kani::unwind(14))]
        #[cfg_attr(verif_replay, test)]
        fn $name() {
            $body::<$nb, $k>($cap, &$pre, $s, $ops)
        }
    };
}
wait!(c07_wait_before_w4, wait_before_body, 1, 3, 5, [], 4, [(2, A), (3, A), (2, A)]);
wait!(c07_wait_before_w8, wait_before_body, 1, 3, 6, [(SKIP, 1, A), (SKIP, 2, A), (SKIP, 3, A), (SKIP, 4, A)], 8, [(6, A), (7, A), (6, A)]);
wait!(c07_wait_after_w4, wait_after_body, 1, 3, 5, [], 4, [(2, A), (3, A), (3, A)]);
wait!(c07_wait_after_w8, wait_after_body, 1, 3, 6, [(SKIP, 1, A), (SKIP, 3, A), (SKIP, 4, A), (SKIP, 5, A)], 8, [(6, A), (7, A), (7, A)]);

// ---------------------------------------------------------------------------------------
// family `commute`: two operations in both orders on two trackers
// ---------------------------------------------------------------------------------------
/// Applies one operation without reference checks; counts the announcements.
fn apply<const NB: usize>(t: &mut ParentReadyTracker, tot: &mut Tot<NB>, maxa: usize, kind: u8, m: usize, b: usize) -> bool {
    let ann = if kind == NF { t.mark_notar_fallback(&bid(m, b)) } else { t.mark_skipped(Slot::new(m as u64)) };
    let a = scan_ann::<NB>(&ann, maxa);
    let mut w = 0;
    while w < NW {
        let mut u = 0;
        while u < NSX {
            let mut bb = 0;
            while bb < NB {
                tot[w][u][bb] += a.c[w][u][bb];
                bb += 1;
            }
            u += 1;
        }
        w += 1;
    }
    std::mem::forget(ann);
    a.alien
}
fn commute_body<const NB: usize>(cap: usize, pre: &[(u8, usize, usize)], x: (usize, usize), y: (usize, usize)) {
    let mut run = Run::<NB>::new(cap);
    let kx = vs::any_below(2);
    let ky = vs::any_below(2);
    let mut t1 = ParentReadyTracker::default();
    let mut t2 = ParentReadyTracker::default();
    let mut tot1: Tot<NB> = [[[0u8; NB]; NSX]; NW];
    let mut tot2: Tot<NB> = [[[0u8; NB]; NSX]; NW];
    let mut i = 0;
    while i < pre.len() {
        apply::<NB>(&mut t1, &mut tot1, run.maxa, pre[i].0, pre[i].1, pre[i].2);
        apply::<NB>(&mut t2, &mut tot2, run.maxa, pre[i].0, pre[i].1, pre[i].2);
        i += 1;
    }
    let mut alien = false;
    alien |= apply::<NB>(&mut t1, &mut tot1, run.maxa, kx, x.0, x.1);
    alien |= apply::<NB>(&mut t1, &mut tot1, run.maxa, ky, y.0, y.1);
    alien |= apply::<NB>(&mut t2, &mut tot2, run.maxa, ky, y.0, y.1);
    alien |= apply::<NB>(&mut t2, &mut tot2, run.maxa, kx, x.0, x.1);
    vcheck!(!alien, "an announcement names a slot that is no window start in range or a block that was never certified");
    let mut some = false;
    let mut w = 0;
    while w < NW {
        let r1 = scan::<NB>(t1.parents_ready(Slot::new(WINS[w] as u64)), run.maxl);
        let r2 = scan::<NB>(t2.parents_ready(Slot::new(WINS[w] as u64)), run.maxl);
        vcheck!(!r1.alien && !r2.alien, "a ready-parent list holds an entry that is no certified block before the window");
        let mut u = 0;
        while u < NSX {
            let mut b = 0;
            while b < NB {
                vcheck!(r1.c[u][b] == r2.c[u][b], "the ready parents depend on the order of two operations");
                vcheck!(tot1[w][u][b] == tot2[w][u][b], "the announcements depend on the order of two operations");
                vcheck!(tot1[w][u][b] <= 1, "a pair was announced twice");
                some = some || tot1[w][u][b] > 0;
                b += 1;
            }
            u += 1;
        }
        w += 1;
    }
    vcover!(some, "a pair is announced");
    vcover!(kx != ky, "the two operations are of different kinds");
    std::mem::forget(t1);
    std::mem::forget(t2);
}
macro_rules! commute {
    ($name:ident, $nb:literal, $cap:literal, $pre:expr, $x:expr, $y:expr) => {
        #[cfg_attr(kani, kani::proof)]
        #[cfg_attr(kani, kani::unwind(14))]
        #[cfg_attr(verif_replay, test)]
        fn $name() {
            commute_body::<$nb>($cap, &$pre, $x, $y)
        }
    };
}
commute!(c07_commute_s3_s3, 1, 4, [(SKIP, 1, A), (SKIP, 2, A)], (3, A), (3, A));
commute!(c07_commute_s2_s3, 1, 4, [(SKIP, 1, A)], (2, A), (3, A));
commute!(c07_commute_s3_s4, 1, 5, [(SKIP, 1, A), (SKIP, 2, A), (SKIP, 5, A), (SKIP, 6, A), (SKIP, 7, A)], (3, A), (4, A));
commute!(c07_commute_s4_s6, 1, 5, [(NF, 3, A), (SKIP, 5, A), (SKIP, 7, A)], (4, A), (6, A));
commute!(c07_commute_2b_s3_s3, 2, 4, [(SKIP, 2, A), (NF, 1, B)], (3, A), (3, B));
