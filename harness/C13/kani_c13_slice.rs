//! Overlay module `crate::types::slice::kani_c13_slice` (child of `slice`): builds a
//! `ReconstructedSlice` by struct literal, i.e. the value `Shredder::deshred` hands to the
//! blockstore after Reed-Solomon decoding (which the harnesses cannot execute).
#![allow(dead_code, unused_imports, clippy::all)]

use super::*;

pub(crate) fn mk_reconstructed(header: SliceHeader, parent: Option<BlockId>, data: Vec<u8>, slice_root: SliceRoot) -> ReconstructedSlice {
    ReconstructedSlice { inner: Slice::from_parts(header, SlicePayload { parent, data }), slice_root }
}
