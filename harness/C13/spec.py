import re, os

MOD = "consensus::blockstore::slot_block_data::kani_c13"
SBD = "src/consensus/blockstore/slot_block_data.rs"
HASH_STUB = "crypto::hash::hash_all"
LOG_STUB = "log::max_level"
DEC_STUB = "wincode::config::deserialize_exact"
# SliceCommitment == is a 49-byte memcmp
# (Passing --slice-formula explicitly so that the counterexample-extraction run stays sliced was tried: the
# assignment then omits values from the middle of the draw sequence and the native replay is misaligned.)
CBMC = ["--unwindset", "memcmp.0:51"]

OVERLAYS = [
    {"src": "C15/kani_merkle.rs", "dest": "src/crypto/merkle/kani_merkle.rs", "decl_in": "src/crypto/merkle.rs", "decl": "mod kani_merkle;"},
    {"src": "C12/kani_c12_merkle.rs", "dest": "src/crypto/merkle/kani_c12_merkle.rs", "decl_in": "src/crypto/merkle.rs", "decl": "pub(crate) mod kani_c12_merkle;"},
    {"src": "C12/kani_c12_sig.rs", "dest": "src/crypto/signature/kani_c12_sig.rs", "decl_in": "src/crypto/signature.rs", "decl": "pub(crate) mod kani_c12_sig;"},
    {"src": "C12/kani_c12_idx.rs", "dest": "src/types/slice_index/kani_c12_idx.rs", "decl_in": "src/types/slice_index.rs", "decl": "pub(crate) mod kani_c12_idx;"},
    {"src": "verif_coll.rs", "dest": "src/verif_coll.rs", "decl_in": "src/lib.rs", "decl": "pub mod verif_coll;"},
    {"src": "C12/kani_c12_coll.rs", "dest": "src/verif_leakmap.rs", "decl_in": "src/lib.rs", "decl": "pub mod verif_leakmap;"},
    {"src": "C12/kani_c12.rs", "dest": "src/shredder/kani_c12.rs", "decl_in": "src/shredder.rs", "decl": "pub(crate) mod kani_c12;"},
    {"src": "C13/kani_c13_slice.rs", "dest": "src/types/slice/kani_c13_slice.rs", "decl_in": "src/types/slice.rs", "decl": "pub(crate) mod kani_c13_slice;"},
    {"src": "C13/kani_c13.rs", "dest": "src/consensus/blockstore/slot_block_data/kani_c13.rs", "decl_in": SBD, "decl": "mod kani_c13;"},
]


def redirect(file, line, repl):
    return {"file": file, "pattern": r"^" + re.escape(line) + r"$",
            "replacement": "#[cfg(not(kani))]\n" + line + "\n#[cfg(kani)]\n" + repl, "count": 1}


SHREDS_FIELD = "    pub(super) shreds: BTreeMap<SliceIndex, [Option<ValidatedShred>; TOTAL_SHREDS]>,"
SHREDS_INIT = "            shreds: BTreeMap::new(),"
REDIRECTS = [
    redirect(SBD, "use std::collections::BTreeMap;", "use crate::verif_coll::BTreeMap;"),
    redirect(SBD, "use std::collections::btree_map::Entry;", "use crate::verif_coll::btree_map::Entry;"),
    # the one big-valued map of BlockData: boxed, leak-on-overwrite stand-in (see kani_c12_coll.rs)
    dict(redirect(SBD, SHREDS_FIELD, SHREDS_FIELD.replace("BTreeMap<", "crate::verif_leakmap::BoxMap<")), required=True),
    dict(redirect(SBD, SHREDS_INIT, SHREDS_INIT.replace("BTreeMap::new()", "crate::verif_leakmap::BoxMap::new()")), required=True),
]

Q, T = ["quick", "thorough"], ["thorough"]
ASM_FUNCS = ["BlockData::{new,try_reconstruct_block,mark_last_slice}", "DoubleMerkleTree::{new,get_root,create_proof,check_proof}", "BlockInfo::from(&Block)", "wincode deserialize_exact::<Vec<Transaction>>", "SliceIndex::{first,is_first,until,inner}"]


def _shape(n, bits, undec):
    later = [i for i in range(1, n) if bits >> i & 1]
    s = f"{n} decoded slice(s) 0..{n-1}, the last one marked last; slice 0 carries a parent"
    s += (", slice(s) " + ",".join(map(str, later)) + " carry a parent too") if later else ", no later slice carries one"
    if undec is not None:
        s += f"; the transaction bytes of slice {undec} do not decode (1 byte), all others are an empty list"
    else:
        s += "; every slice holds an empty transaction list"
    return s


def _asm(n, bits, tiers, undec=None):
    name = f"c13_assemble_n{n}_p{bits}" if undec is None else f"c13_undec_n{n}_p{bits}_u{undec}"
    return {
        "name": name, "path": MOD, "tiers": tiers, "role": "block assembly",
        "functions": ASM_FUNCS,
        "bounds": _shape(n, bits, undec) + "; slot any u64, slice roots any 32 bytes, every parent id any (u64 slot, 32-byte hash); input class: malformed, or effective parent in an earlier slot (the complementary class is c13_parent_slot_*)",
        "stubs": [HASH_STUB, LOG_STUB, DEC_STUB], "covers": 3,
        # kissat (external process): since the parent-slot check was added to try_reconstruct_block (fix: a0f7634) the
        # multi-slice shapes exceed 16 GB in CaDiCaL's propositional reduction
        "timeout": {"quick": 900, "thorough": 1800}, "mem_gb": 16, "cbmc_args": CBMC,
    }


def _pslot(n, tiers):
    return {
        "name": f"c13_parent_slot_n{n}", "path": MOD, "tiers": tiers, "role": "block assembly/parent not in an earlier slot",
        "functions": ASM_FUNCS,
        "bounds": _shape(n, 2 if n == 2 else 0, None) + "; slot any u64, roots and parent ids arbitrary; input class: well-formed and the effective parent's slot >= the block's slot",
        "stubs": [HASH_STUB, LOG_STUB, DEC_STUB], "covers": 3,
        "timeout": {"quick": 480, "thorough": 1500}, "mem_gb": 16, "cbmc_args": CBMC,
    }


SPEC = {
    "property": "C13",
    "level_text": "Bounded symbolic verification of the real block-assembly code of the blockstore (BlockData::try_reconstruct_block, mark_last_slice) on slices that are already decoded: for 1..3 slices, every pattern of which later slice carries a parent, arbitrary slot, slice roots and parent ids, the solver shows that a block is assembled iff it is well-formed (a later slice that names a parent names a different one (one later parent at most in these shapes), all transaction bytes decode), that its hash is the double-Merkle root of the slice roots in index order (reference tree shape from the documentation), that the announced parent is the first slice's parent unless exactly one later slice names another, that the stored block and double-Merkle tree are the announced ones and every slice-root proof served afterwards verifies, that a second call assembles nothing (exactly once), that nothing is assembled without a last-slice marker or with a slice missing. The parent-slot requirement (parent in an earlier slot) is a separate harness: it FAILS on /repo (genuine finding). Only the assembly step is covered: the shred-level half of the property (any 32 of 64 shreds, any order, duplicates, Reed-Solomon decoding, FirstShred / InvalidBlock emission through the async Blockstore) is outside the claim. After completion (c13_post_equiv): the first shred through the real SlotBlockData::add_shred_from_dissemination, real assembly, then any second validly signed shred (arbitrary slice index, last flag, payload) - reported as equivocation exactly when it contradicts what was accepted, and the announced block stays as it is.",
    "level_note": "Bounds: <= 3 slices per block, empty transaction lists (8 zero bytes) or a 1-byte undecodable payload, ReconstructedSlice objects built by the harness (what Shredder::deshred would return); assumes the first slice carries a parent (enforced by try_reconstruct_slice, which sits behind the Reed-Solomon decoder and is not encoded). SHA-256 is the collision-free oracle; std BTreeMap inside slot_block_data.rs is replaced by a bounded array map (capacity 3, sorted iteration) under Kani, log level pinned to Off; native replay uses the real ones. Trusts Kani's MIR translation, CBMC, CaDiCaL; pointer-validity checks off.",
    "design_ref": "DESIGN.md §4 C13",
    "overlays": OVERLAYS,
    "redirects": REDIRECTS,
    "coll_cap": 3,
    "functions": [
        "consensus::blockstore::slot_block_data::BlockData::{new,try_reconstruct_block,mark_last_slice}", "crypto::merkle::MerkleTree::{new,get_root,create_proof,check_proof,hash_leaf,hash_pair} (instantiation DoubleMerkleTree)",
        "consensus::blockstore::BlockInfo::from(&Block)", "types::slice::ReconstructedSlice::{from_parts,slice_root}", "wincode::config::deserialize_exact::<Vec<Transaction>> on 8-byte / 1-byte inputs",
    ],
    "bounds": "blocks of 1..=3 decoded slices, every pattern of later parents, arbitrary slot / roots / parent ids, empty transaction lists; one assembly call plus the repeated call",
    "explanation": "Bounded symbolic verification (Kani -> CBMC -> CaDiCaL) of the real block assembly compiled from /repo's working tree: one harness per (number of slices, which later slices carry a parent, which slice is undecodable). The expected outcome is a reference function written from the property statement; the expected block hash is the documented tree shape (RefTree) over the hash oracle. The input space is partitioned into 'malformed or parent in an earlier slot' (general harnesses) and 'well-formed with a parent not in an earlier slot' (c13_parent_slot_*), so that the genuine defect in the second class is isolated.",
    "assumptions": [
        "SHA-256 (crypto::hash::hash_all) is a collision-free function consistent with the EMPTY_ROOTS recurrence",
        "the slices handed to assembly are what Shredder::deshred returns: header of the block's slot, index = map key, the first slice carries a parent (checked by try_reconstruct_slice, not encoded)",
        "<= 3 slices; transaction payloads are the empty list or a 1-byte undecodable string",
        "bounded array map (capacity 3, sorted iteration, leak-on-overwrite) instead of std BTreeMap inside slot_block_data.rs under Kani; log::max_level() == Off",
        "pointer-validity checks of CBMC are off; Rust panics, overflow and unwinding assertions stay on",
    ],
    "trusted_base": ["hash oracle (verif_std::hash_oracle + kani_merkle::hash_all_oracle)", "RefTree reference shape and the reference outcome function in kani_c13.rs, written from the property statement", "bounded array map stand-in (C12/kani_c12_coll.rs)", "ReconstructedSlice values built by struct literal (kani_c13_slice.rs)"],
    "outside": [
        "the shred level: any 32 of 64 shreds, arrival order, duplicates, Reed-Solomon decoding and re-encoding, Merkle re-check of the decoded slice (Shredder::deshred)",
        "try_reconstruct_slice (first slice without parent, undecodable slice payload) - behind the decoder",
        "FirstShred / Block / InvalidBlock emission and the leader_misbehaved gate of the async BlockstoreImpl (tokio channel)",
        "the parent-slot requirement for a parent switched by a later slice (harness c13_parent_slot_n2 finds the violation but the un-sliced formula of the counterexample-extraction run exceeds the memory cap, so it cannot be replayed; unregistered until the defect is fixed, then it is an ordinary pass)",
        "blocks of more than 3 slices, non-empty transaction lists, insertion-order independence of the real std BTreeMap",
        "the leader's fast path BlockData::add_own_slice (moving and checking the 64-shred array costs 2.8 M symex steps / 7.5 M SAT variables for a one-slice block: measured, over the memory cap; harness c13_fastpath_n1 is kept in kani_c13.rs, unregistered)",
        "blocks whose third slice carries a parent, i.e. also every block with two later parents ('parent switched more than once'): these shapes exceed the 10 GB cap in CBMC's propositional post-processing (measured; harnesses c13_assemble_n3_p4 / _p6 kept unregistered); the rule is covered for one later parent only (switch accepted, switch to the same parent rejected)",
    ],
    "harnesses": [
        _asm(1, 0, Q), _asm(2, 0, T), _asm(2, 2, Q), _asm(3, 0, T), _asm(3, 2, Q),
        _asm(1, 0, Q, undec=0), _asm(2, 2, T, undec=1),
        _pslot(1, Q), _pslot(2, T),
        {"name": "c13_once", "path": MOD, "tiers": Q, "role": "exactly once: a completed block is never assembled again", "functions": ["BlockData::try_reconstruct_block"],
         "bounds": "arbitrary BlockData whose `completed` is set (any hash / parent), with or without a last-slice marker (none, 0, 1) and a left-over slice 0", "stubs": [LOG_STUB], "covers": 1, "cbmc_args": CBMC},
        {"name": "c13_post_equiv", "path": MOD, "tiers": Q, "role": "equivocation after the block was assembled",
         "functions": ["SlotBlockData::add_shred_from_dissemination", "BlockData::{add_shred,try_reconstruct_block,mark_last_slice}"],
         "bounds": "one-slice block: shred 0 of slice 0 (last) through add_shred_from_dissemination, decoded slice installed by the harness, real try_reconstruct_block; then one more validly signed shred (index 1) with arbitrary slice index, last flag and payload; slot any u64; Reed-Solomon cut (try_reconstruct_slice stub)",
         "stubs": [HASH_STUB, LOG_STUB, DEC_STUB, "consensus::blockstore::slot_block_data::BlockData::try_reconstruct_slice"], "covers": 3, "timeout": {"quick": 900, "thorough": 1800}, "mem_gb": 16, "cbmc_args": CBMC},
        {"name": "c13_noaction", "path": MOD, "tiers": Q, "role": "no assembly without marker / with a slice missing / twice", "functions": ASM_FUNCS,
         "bounds": "two-slice block, concrete scenarios (no marker; first slice missing, then arriving; slices beyond the marker) with arbitrary slot, roots, parent", "stubs": [HASH_STUB, LOG_STUB, DEC_STUB], "covers": 1,
         "timeout": {"quick": 480, "thorough": 1500}, "cbmc_args": CBMC},
    ],
}
