//! C13 harnesses (overlay module `crate::consensus::blockstore::slot_block_data::kani_c13`,
//! child of `slot_block_data`: sees the private `BlockData::{try_reconstruct_block,
//! mark_last_slice, add_own_slice}` and `ReconstructBlockResult`).
//!
//! Block *assembly* from already decoded slices (the Reed-Solomon decoder is out of reach):
//!
//! `c13_assemble_n<N>_p<bits>`, `c13_undec_n<N>_p<bits>_u<i>`  N slices 0..N-1 present, the last one marked; slice 0 carries a
//!        parent, slice i >= 1 carries one iff bit i of <bits>; `_u<i>`: slice i's transaction bytes do
//!        not decode.  Arbitrary slot, slice roots, parent ids.  Real `try_reconstruct_block` twice.
//! `c13_parent_slot_n<N>`  the input class the above exclude: the effective parent is not in an
//!        earlier slot (found on the original tree, repaired by fix a0f7634: every parent a block
//!        names must lie in an earlier slot).
//! `c13_once`  any state with a completed block: NoAction, nothing changes (exactly once).
//! `c13_noaction`  no last-slice marker / a slice missing / late slice completes once.
//! `c13_fastpath_n1`  the leader's `add_own_slice` stores the block a follower assembles - NOT
//!        registered: 2.8 M symex steps / 7.5 M SAT variables (measured), over the memory cap.
#![allow(dead_code, unused_imports, unused_variables, clippy::all)]

use super::*;
use crate::crypto::Hash;
use crate::crypto::merkle::kani_c12_merkle as km;
use crate::crypto::merkle::kani_c12_merkle::RefTree;
use crate::crypto::merkle::{DoubleMerkleProof, DoubleMerkleRoot, SliceRoot};
use crate::shredder::kani_c12 as sh;
use crate::types::slice::kani_c13_slice::mk_reconstructed;
use crate::types::slice_index::kani_c12_idx::slice_index;
use crate::verif_std as vs;
use crate::verif_std::{vcheck, vcover};
use crate::BlockId;

/// Maximum number of slices in these harnesses.
const MAXN: usize = 3;

/// Serialised empty transaction list (`u64` LE count = 0): the smallest decodable slice data.
fn empty_txs() -> Vec<u8> {
    let mut v: Vec<u8> = Vec::with_capacity(8);
    let mut i = 0;
    while i < 8 {
        v.push(0);
        i += 1;
    }
    v
}
/// Slice data that does not decode (too short for the count prefix).
fn undecodable_txs() -> Vec<u8> {
    let mut v: Vec<u8> = Vec::with_capacity(8);
    v.push(0);
    v
}

/// Stub for `wincode::config::deserialize_exact` (Kani only): a model of the decoder of
/// `Vec<Transaction>` that is defined on exactly the two payloads the harnesses use - eight zero
/// bytes decode to the empty list, a single byte is too short for the count prefix - and
/// reports anything else as unsupported.  The real decoder loses every constant on the way
/// through its reader (measured: the element loop is unwound 33 times with symbolic-size
/// allocations, the solver input exceeds the memory cap); natively the real decoder runs, and
/// `c13_native_decoder_model` checks the model against it.
#[cfg(kani)]
pub(crate) fn deserialize_exact_model<'de, T, C: wincode::config::Config>(src: &'de [u8], _config: C) -> wincode::ReadResult<T>
where
    T: wincode::SchemaRead<'de, C, Dst = T>,
{
    if std::mem::size_of::<T>() != std::mem::size_of::<Vec<crate::Transaction>>() {
        vs::unsupported("decoder model: instantiation other than Vec<Transaction>");
    }
    if src.len() == 1 {
        return Err(wincode::ReadError::Custom("decoder model: input too short"));
    }
    if src.len() != 8 {
        vs::unsupported("decoder model: payload other than the two modelled ones");
    }
    let mut i = 0;
    while i < 8 {
        if src[i] != 0 {
            vs::unsupported("decoder model: payload other than the two modelled ones");
        }
        i += 1;
    }
    // SAFETY: T is Vec<Transaction> (only instantiation reached; size checked above).  A typed write
    // through the cast pointer keeps the empty vector's length a constant for symbolic execution
    // (a byte-wise transmute_copy made it opaque: 33 unwindings of the element drop loop per slice).
    let mut out = std::mem::MaybeUninit::<T>::uninit();
    unsafe {
        std::ptr::write(out.as_mut_ptr() as *mut Vec<crate::Transaction>, Vec::new());
        Ok(out.assume_init())
    }
}

/// Native cross-check of `deserialize_exact_model` against the real decoder.
#[cfg(all(verif_replay, not(kani)))]
#[test]
fn c13_native_decoder_model() {
    let config = wincode::config::DefaultConfig::default().with_preallocation_size_limit::<MAX_DATA_PER_SLICE>();
    let ok: wincode::ReadResult<Vec<crate::Transaction>> = wincode::config::deserialize_exact(&empty_txs(), config);
    assert!(matches!(ok, Ok(v) if v.is_empty()));
    let config = wincode::config::DefaultConfig::default().with_preallocation_size_limit::<MAX_DATA_PER_SLICE>();
    let bad: wincode::ReadResult<Vec<crate::Transaction>> = wincode::config::deserialize_exact(&undecodable_txs(), config);
    assert!(bad.is_err());
}

#[derive(Clone)]
struct Pid {
    slot: u64,
    hash: [u64; 4],
}
fn any_pid() -> Pid {
    Pid { slot: vs::any_u64(), hash: vs::any_words() }
}
impl Pid {
    fn id(&self) -> BlockId {
        (Slot::new(self.slot), km::block_hash_of(km::w2h(self.hash)))
    }
    fn same(&self, o: &Pid) -> bool {
        self.slot == o.slot && vs::words_eq(&self.hash, &o.hash)
    }
    fn is(&self, id: &BlockId) -> bool {
        id.0.inner() == self.slot && vs::words_eq(&km::block_hash_words(&id.1), &self.hash)
    }
}

/// The decoded slices of one block as the harness draws them.
struct Input<const N: usize> {
    slot: u64,
    roots: [[u64; 4]; N],
    parents: [Pid; N],
}
fn any_input<const N: usize>() -> Input<N> {
    Input { slot: vs::any_u64(), roots: std::array::from_fn(|_| vs::any_words()), parents: std::array::from_fn(|_| any_pid()) }
}

fn slice_root(w: [u64; 4]) -> SliceRoot {
    km::slice_root_of(km::w2h(w))
}

/// A `BlockData` holding slices `0..N` (slice `i` with a parent iff `has_parent[i]`, undecodable
/// data iff `i == undec`), the last one marked as last by the real `mark_last_slice`.
fn mk_block_data<const N: usize>(inp: &Input<N>, has_parent: [bool; N], undec: usize) -> BlockData {
    let mut bd = BlockData::new(Slot::new(inp.slot));
    let mut i = 0;
    while i < N {
        let header = sh::mk_header(inp.slot, slice_index(i), i == N - 1);
        let parent = if has_parent[i] { Some(inp.parents[i].id()) } else { None };
        let data = if i == undec { undecodable_txs() } else { empty_txs() };
        bd.slices.insert(slice_index(i), mk_reconstructed(header, parent, data, slice_root(inp.roots[i])));
        i += 1;
    }
    bd.mark_last_slice(slice_index(N - 1));
    bd
}

/// What the property statement prescribes: the effective parent, or `None` when the block is
/// malformed (switch to the same parent, more than one switch, undecodable data).
fn reference<const N: usize>(inp: &Input<N>, has_parent: [bool; N], undec: usize) -> Option<Pid> {
    let mut parent = inp.parents[0].clone();
    let mut switched = false;
    let mut bad = undec < N;
    let mut i = 1;
    while i < N {
        if has_parent[i] {
            if inp.parents[i].same(&parent) || switched {
                bad = true;
            }
            switched = true;
            parent = inp.parents[i].clone();
        }
        i += 1;
    }
    if bad { None } else { Some(parent) }
}

/// Reference double-Merkle root of the slice roots in index order (documented tree shape).
fn ref_block_hash<const N: usize>(inp: &Input<N>) -> Hash {
    let lh: [Hash; N] = std::array::from_fn(|i| km::double_leaf_hash(&slice_root(inp.roots[i])));
    RefTree::build::<SliceRoot, DoubleMerkleRoot, DoubleMerkleProof>(&lh).root()
}

enum Outcome {
    NoAction,
    Error,
    Complete(BlockInfo),
}
fn outcome(r: ReconstructBlockResult) -> Outcome {
    match r {
        ReconstructBlockResult::NoAction => Outcome::NoAction,
        ReconstructBlockResult::Error => Outcome::Error,
        ReconstructBlockResult::Complete(i) => Outcome::Complete(i),
    }
}

/// `CLASS_OK`: the general harnesses (effective parent in an earlier slot, or malformed);
/// otherwise the complementary class (well-formed, effective parent NOT in an earlier slot).
fn assemble_body<const N: usize, const CLASS_OK: bool>(has_parent: [bool; N], undec: usize) {
    // oracle: real tree (N leaves + < N + 2 inner), reference (same), one proof check (1 + height)
    km::init_oracle(4, 4 * N + 8);
    let inp = any_input::<N>();
    let proof_at = vs::any_below(N as u8) as usize;
    let want = reference(&inp, has_parent, undec);
    // every parent the block names (the first slice's and a switched one) lies in an earlier slot
    let earlier = match &want {
        Some(_) => {
            let mut ok = inp.parents[0].slot < inp.slot;
            let mut i = 1;
            while i < N {
                if has_parent[i] {
                    ok = ok && inp.parents[i].slot < inp.slot;
                }
                i += 1;
            }
            ok
        }
        None => true,
    };
    if CLASS_OK {
        vs::assume(earlier);
    } else {
        vs::assume(!earlier);
    }
    let want_hash = ref_block_hash(&inp);
    let mut bd = mk_block_data(&inp, has_parent, undec);

    let r1 = outcome(bd.try_reconstruct_block());

    let mut cv_complete = false;
    let mut cv_switched = false;
    let mut cv_error = false;
    match &r1 {
        Outcome::NoAction => {
            vcheck!(false, "all slices up to the marked last one are present but nothing was assembled");
        }
        Outcome::Error => {
            cv_error = true;
            if CLASS_OK {
                vcheck!(want.is_none(), "a well-formed block was rejected");
            }
            vcheck!(bd.completed.is_none(), "a rejected block was stored as complete");
        }
        Outcome::Complete(info) => {
            vcheck!(earlier, "a block naming a parent that is not in an earlier slot was assembled and announced");
            vcheck!(want.is_some(), "a malformed block (parent switched to itself or more than once, or undecodable data) was assembled");
            if let Some(p) = &want {
                vcheck!(p.is(&info.parent), "the announced parent is not the first slice's parent / the single later switch");
                cv_switched = !p.same(&inp.parents[0]);
            }
            vcheck!(vs::words_eq(&km::block_hash_words(&info.hash), &km::h2w(&want_hash)), "block hash is not the double-Merkle root of the slice roots in index order");
            // what is stored is what was announced, and can be served afterwards
            match &bd.completed {
                Some((h, b)) => {
                    vcheck!(*h == info.hash && b.hash == info.hash && b.parent == info.parent.0 && b.parent_hash == info.parent.1, "the stored block differs from the announced one");
                    vcheck!(b._transactions.is_empty(), "transactions appeared out of empty slices");
                }
                None => vcheck!(false, "an announced block is not stored"),
            }
            vcheck!(bd.slices.is_empty(), "decoded slices are kept after assembly");
            match &bd.double_merkle_tree {
                Some(t) => {
                    vcheck!(t.get_root() == info.hash, "the stored double-Merkle tree has another root than the block hash");
                    // serving proofs from the stored tree (N <= 2; for 3 slices the extra oracle
                    // queries push the solver input over the memory cap, and C15 covers create/check)
                    if N <= 2 {
                        let proof = t.create_proof(proof_at);
                        vcheck!(DoubleMerkleTree::check_proof(&slice_root(inp.roots[proof_at]), proof_at, &info.hash, &proof), "a served slice-root proof does not verify against the block hash");
                        std::mem::forget(proof);
                    }
                }
                None => vcheck!(false, "no double-Merkle tree stored for an assembled block"),
            }
            cv_complete = true;
            // "exactly once": the post-state has `completed` set; c13_once shows that every such
            // state answers NoAction (a second call here would be executed symbolically on the merged
            // Complete / Error state, whose map contents are symbolic: measured > 8 min)
        }
    }
    std::mem::forget(r1);
    std::mem::forget(bd);
    // reachability of the prescribed outcome, of a parent switch and of a rejection (where the shape has them)
    let expect_ok = want.is_some() && earlier;
    let mut shape_switch = false;
    let mut i = 1;
    while i < N {
        shape_switch = shape_switch || has_parent[i];
        i += 1;
    }
    let cv_any = cv_error || cv_complete;
    // two later parents can never be assembled (same parent, or a second switch)
    let mut later = 0;
    let mut i = 1;
    while i < N {
        later += has_parent[i] as usize;
        i += 1;
    }
    let cv_switch = if !CLASS_OK || undec < N || !shape_switch || later >= 2 { cv_any } else { cv_switched };
    let cv_reject = if !CLASS_OK || undec < N || !shape_switch { cv_any } else { cv_error };
    vcover!(cv_complete == expect_ok && cv_error == !expect_ok, "the prescribed outcome is reachable");
    vcover!(cv_switch, "parent switched by a later slice (shapes with a later parent)");
    vcover!(cv_reject, "parent switch rejected (shapes with a later parent)");
}

macro_rules! assemble {
    ($name:ident, $n:literal, $hp:expr, $undec:expr, $ok:literal) => {
        #[cfg_attr(kani, kani::proof)]
        #[cfg_attr(kani, kani::stub(crate::crypto::hash::hash_all, crate::crypto::merkle::kani_c12_merkle::hash_all_oracle))]
        #[cfg_attr(kani, kani::stub(log::max_level, crate::crypto::merkle::kani_c12_merkle::log_off))]
        #[cfg_attr(kani, kani::stub(wincode::config::deserialize_exact, crate::consensus::blockstore::slot_block_data::kani_c13::deserialize_exact_model))]
        #[cfg_attr(kani, kani::unwind(34))]
        #[cfg_attr(verif_replay, test)]
        fn $name() {
            assemble_body::<$n, $ok>($hp, $undec)
        }
    };
}
const NONE: usize = usize::MAX;
assemble!(c13_assemble_n1_p0, 1, [true], NONE, true);
assemble!(c13_assemble_n2_p0, 2, [true, false], NONE, true);
assemble!(c13_assemble_n2_p2, 2, [true, true], NONE, true);
assemble!(c13_assemble_n3_p0, 3, [true, false, false], NONE, true);
assemble!(c13_assemble_n3_p2, 3, [true, true, false], NONE, true);
// The shapes with a parent on the third slice (p4 = [true, false, true], p6 = [true, true, true], the
// only ones with two later parents) exceed the 10 GB cap in CBMC's propositional post-processing
// (measured, also for the bare call without any check, with either map stand-in and with a hash
// stub that returns arbitrary values); they are kept for a machine with more memory but not registered in spec.py.
assemble!(c13_assemble_n3_p4, 3, [true, false, true], NONE, true);
assemble!(c13_assemble_n3_p6, 3, [true, true, true], NONE, true);
assemble!(c13_undec_n1_p0_u0, 1, [true], 0, true);
assemble!(c13_undec_n2_p2_u1, 2, [true, true], 1, true);
assemble!(c13_parent_slot_n1, 1, [true], NONE, false);
// finds the violation, but the counterexample-extraction run (no slicing) exceeds the memory cap with
// CaDiCaL, kissat and an arbitrary-value hash stub alike => not replayable => not registered while the defect exists
assemble!(c13_parent_slot_n2, 2, [true, true], NONE, false);

// ---------------------------------------------------------------------------------------
// c13_once: the step "completed => NoAction" from an arbitrary completed state
// ---------------------------------------------------------------------------------------
#[cfg_attr(kani, kani::proof)]
#[cfg_attr(kani, kani::stub(crate::crypto::hash::hash_all, crate::crypto::merkle::kani_c12_merkle::hash_all_oracle))]
#[cfg_attr(kani, kani::stub(log::max_level, crate::crypto::merkle::kani_c12_merkle::log_off))]
#[cfg_attr(kani, kani::stub(wincode::config::deserialize_exact, crate::consensus::blockstore::slot_block_data::kani_c13::deserialize_exact_model))]
#[cfg_attr(kani, kani::unwind(34))]
#[cfg_attr(verif_replay, test)]
fn c13_once() {
    km::init_oracle(4, 8);
    let inp = any_input::<2>();
    let hash = vs::any_words();
    // whatever else the state holds: a last-slice marker or not, left-over slices or not
    let marker = vs::any_below(3);
    let leftover = vs::any_bool();
    let mut bd = BlockData::new(Slot::new(inp.slot));
    let block = Block { _slot: Slot::new(inp.slot), hash: km::block_hash_of(km::w2h(hash)), parent: Slot::new(inp.parents[0].slot), parent_hash: km::block_hash_of(km::w2h(inp.parents[0].hash)), _transactions: Vec::new() };
    bd.completed = Some((km::block_hash_of(km::w2h(hash)), block));
    if leftover {
        bd.slices.insert(slice_index(0), mk_reconstructed(sh::mk_header(inp.slot, slice_index(0), marker == 1), Some(inp.parents[0].id()), empty_txs(), slice_root(inp.roots[0])));
    }
    if marker > 0 {
        bd.last_slice = Some(slice_index(marker as usize - 1));
    }
    let r = outcome(bd.try_reconstruct_block());
    let noaction = matches!(r, Outcome::NoAction);
    vcheck!(noaction, "the block is assembled (announced) a second time");
    match &bd.completed {
        Some((h, b)) => vcheck!(vs::words_eq(&km::block_hash_words(h), &hash) && b.parent.inner() == inp.parents[0].slot && vs::words_eq(&km::block_hash_words(&b.parent_hash), &inp.parents[0].hash), "a second call changed the stored block"),
        None => vcheck!(false, "a second call dropped the stored block"),
    }
    vcheck!(bd.slices.len() == leftover as usize && bd.double_merkle_tree.is_none(), "a second call changed the slice table or built a tree");
    std::mem::forget(r);
    std::mem::forget(bd);
    vcover!(noaction && leftover && marker == 1, "complete block with all slices still present");
}

// ---------------------------------------------------------------------------------------
// c13_noaction
// ---------------------------------------------------------------------------------------
#[cfg_attr(kani, kani::proof)]
#[cfg_attr(kani, kani::stub(crate::crypto::hash::hash_all, crate::crypto::merkle::kani_c12_merkle::hash_all_oracle))]
#[cfg_attr(kani, kani::stub(log::max_level, crate::crypto::merkle::kani_c12_merkle::log_off))]
#[cfg_attr(kani, kani::stub(wincode::config::deserialize_exact, crate::consensus::blockstore::slot_block_data::kani_c13::deserialize_exact_model))]
#[cfg_attr(kani, kani::unwind(34))]
#[cfg_attr(verif_replay, test)]
fn c13_noaction() {
    km::init_oracle(4, 8);
    let inp = any_input::<2>();
    vs::assume(inp.parents[0].slot < inp.slot);
    let mk = |i: usize, last: bool| mk_reconstructed(sh::mk_header(inp.slot, slice_index(i), last), if i == 0 { Some(inp.parents[0].id()) } else { None }, empty_txs(), slice_root(inp.roots[i]));
    // (a) no last-slice marker yet
    let mut a = BlockData::new(Slot::new(inp.slot));
    a.slices.insert(slice_index(0), mk(0, false));
    vcheck!(matches!(a.try_reconstruct_block(), ReconstructBlockResult::NoAction), "a block was assembled without a last-slice marker");
    vcheck!(a.completed.is_none() && a.slices.len() == 1, "state changed without a last-slice marker");
    // (b) last slice known, an earlier slice missing
    let mut b = BlockData::new(Slot::new(inp.slot));
    b.slices.insert(slice_index(1), mk(1, true));
    b.mark_last_slice(slice_index(1));
    vcheck!(matches!(b.try_reconstruct_block(), ReconstructBlockResult::NoAction), "a block was assembled with its first slice missing");
    vcheck!(b.completed.is_none() && b.slices.len() == 1, "state changed with a slice missing");
    // (c) the missing slice arrives: assembled now, once
    b.slices.insert(slice_index(0), mk(0, false));
    let rc = outcome(b.try_reconstruct_block());
    let done = matches!(rc, Outcome::Complete(_));
    vcheck!(done, "the block was not assembled once all slices were present");
    // (that a complete block is never assembled again is c13_once)
    // (d) slices after the marked last one are pruned by the marker
    let mut d = BlockData::new(Slot::new(inp.slot));
    d.slices.insert(slice_index(0), mk(0, false));
    d.slices.insert(slice_index(1), mk(1, false));
    d.mark_last_slice(slice_index(0));
    vcheck!(d.slices.len() == 1 && d.slices.contains_key(&slice_index(0)), "slices beyond the last one survive the marker");
    std::mem::forget(rc);
    std::mem::forget(a);
    std::mem::forget(b);
    std::mem::forget(d);
    vcover!(done, "late first slice completes the block");
}

// ---------------------------------------------------------------------------------------
// c13_fastpath: leader's own slice
// ---------------------------------------------------------------------------------------
#[cfg_attr(kani, kani::proof)]
#[cfg_attr(kani, kani::stub(crate::crypto::hash::hash_all, crate::crypto::merkle::kani_c12_merkle::hash_all_oracle))]
#[cfg_attr(kani, kani::stub(log::max_level, crate::crypto::merkle::kani_c12_merkle::log_off))]
#[cfg_attr(kani, kani::stub(wincode::config::deserialize_exact, crate::consensus::blockstore::slot_block_data::kani_c13::deserialize_exact_model))]
#[cfg_attr(kani, kani::unwind(66))]
#[cfg_attr(verif_replay, test)]
fn c13_fastpath_n1() {
    km::init_oracle(4, 12);
    let slot = vs::any_u64();
    let parent = any_pid();
    let data = vs::any_bytes::<{ sh::D }>();
    vs::assume(parent.slot < slot);
    let header = sh::mk_header(slot, slice_index(0), true);
    // the leader's 64 shreds of the slice: one commitment (the harness repeats one shred; the
    // fast path looks only at shred 0 and, in debug builds, at every shred's commitment)
    let v = sh::mk_validated::<0>(false, header, 0, data, &[]);
    let root = v.slice_root().clone();
    let commitment = v.commitment();
    let shreds: [ValidatedShred; TOTAL_SHREDS] = std::array::from_fn(|_| v.clone());
    std::mem::forget(v);

    // leader
    let mut leader = BlockData::new(Slot::new(slot));
    let (first, own) = leader.add_own_slice(SlicePayload::new(Some(parent.id()), empty_txs()), shreds);
    // follower: assembly from the decoded slice
    let mut follower = BlockData::new(Slot::new(slot));
    follower.slices.insert(slice_index(0), mk_reconstructed(header, Some(parent.id()), empty_txs(), root.clone()));
    follower.mark_last_slice(slice_index(0));
    let rec = outcome(follower.try_reconstruct_block());

    vcheck!(first, "the leader's first slice is not announced as first");
    let mut same = false;
    match (&own, &rec) {
        (Some(a), Outcome::Complete(b)) => {
            same = a.hash == b.hash && a.parent == b.parent;
            vcheck!(same, "the leader's fast path announces a block other than the one a follower assembles");
            vcheck!(parent.is(&a.parent), "the leader's block names a parent other than its own");
        }
        _ => vcheck!(false, "a one-slice block was not completed on both paths"),
    }
    match (&leader.completed, &follower.completed) {
        (Some((ha, ba)), Some((hb, bb))) => {
            vcheck!(ha == hb && ba.parent == bb.parent && ba.parent_hash == bb.parent_hash, "the leader stores a block other than the one a follower stores")
        }
        _ => vcheck!(false, "block not stored on both paths"),
    }
    vcheck!(leader.last_slice == Some(slice_index(0)), "the leader's last-slice marker is not set");
    vcheck!(matches!(leader.commitment_cache.get(&slice_index(0)), Some(c) if *c == commitment), "the leader's own commitment is not cached");
    match leader.shreds.get(&slice_index(0)) {
        Some(arr) => vcheck!(arr[0].is_some() && arr[TOTAL_SHREDS - 1].is_some(), "the leader cannot serve its own shreds"),
        None => vcheck!(false, "the leader's shreds are not stored"),
    }
    vcheck!(matches!(leader.try_reconstruct_block(), ReconstructBlockResult::NoAction), "the leader's block is assembled a second time");
    std::mem::forget(own);
    std::mem::forget(rec);
    std::mem::forget(leader);
    std::mem::forget(follower);
    vcover!(same, "leader and follower agree on the block");
}

// ---------------------------------------------------------------------------------------
// Native demonstration of the c13_parent_slot finding through the real dissemination path
// (real RegularShredder, Ed25519, SHA-256, async BlockstoreImpl and PoolImpl):
// `cargo test --lib c13_demo_parent_slot` in the native overlay build.  Not a Kani harness.
// ---------------------------------------------------------------------------------------
#[cfg(all(verif_replay, not(kani), test))]
mod demo {
    use std::sync::Arc;

    use tokio::sync::mpsc;

    use super::*;
    use crate::consensus::blockstore::{Blockstore, BlockstoreImpl};
    use crate::consensus::epoch_info::ValidatorEpochInfo;
    use crate::consensus::{Pool, PoolImpl};
    use crate::crypto::signature::SecretKey;
    use crate::shredder::Shredder;
    use crate::test_utils::{create_random_block, generate_validators};
    use crate::types::ValidatorIndex;

    /// What `Alpenglow::handle_disseminator_shred` does with every shred received from the leader:
    /// validate, store, and on a completed block call `Pool::add_block(block_id, block_info.parent)`.
    async fn deliver(slot: Slot, parent: BlockId) -> (BlockId, BlockId, PoolImpl) {
        let sk = SecretKey::new(&mut rand::rng());
        let pk = sk.to_pk();
        let mut slices = create_random_block(slot, 1);
        // a (Byzantine) leader signs a block that names a parent in a later slot
        slices[0].parent = Some(parent.clone());
        let shreds = RegularShredder::default().shred(&slices[0], &sk).unwrap();

        let (tx, _rx) = mpsc::channel(1000);
        let mut bs = BlockstoreImpl::new(tx);
        let mut announced = None;
        for s in shreds {
            // full validation of the wire shred under the leader's key
            let cached = bs.cached_commitment(slot, SliceIndex::first());
            let v = ValidatedShred::try_new(s.into_shred(), cached.as_ref(), &pk).expect("leader-signed shred validates");
            match bs.add_shred_from_dissemination(v).await {
                Ok(Some(info)) => announced = Some(info),
                Ok(None) | Err(AddShredError::Duplicate) => {}
                Err(e) => panic!("unexpected blockstore verdict {e:?}"),
            }
        }
        let info = announced.expect("the blockstore reconstructs and announces the block");
        assert_eq!(info.parent, parent);

        let (_sks, epoch_info) = generate_validators(4);
        let epoch_info = Arc::new(ValidatorEpochInfo::new(ValidatorIndex::new(0), epoch_info));
        let (votor_tx, _votor_rx) = mpsc::channel(1024);
        let (repair_tx, _repair_rx) = mpsc::channel(1024);
        let pool = PoolImpl::new(epoch_info, votor_tx, repair_tx);
        ((slot, info.hash), info.parent, pool)
    }

    /// Control: a parent in an earlier slot goes through.
    #[tokio::test]
    async fn c13_demo_parent_earlier_ok() {
        let (block, parent, mut pool) = deliver(Slot::new(5), (Slot::new(3), GENESIS_BLOCK_HASH_DEMO())).await;
        pool.add_block(block, parent).await;
    }

    /// The finding: the block is announced with a parent in slot 7 > 5 and the next statement of the
    /// message loop (`Pool::add_block`) panics on `assert!(block_id.0 > parent_id.0)`.
    #[tokio::test]
    #[should_panic(expected = "block_id.0 > parent_id.0")]
    async fn c13_demo_parent_slot() {
        let (block, parent, mut pool) = deliver(Slot::new(5), (Slot::new(7), GENESIS_BLOCK_HASH_DEMO())).await;
        pool.add_block(block, parent).await;
    }

    /// Same for a parent in the block's own slot.
    #[tokio::test]
    #[should_panic(expected = "block_id.0 > parent_id.0")]
    async fn c13_demo_parent_same_slot() {
        let (block, parent, mut pool) = deliver(Slot::new(5), (Slot::new(5), GENESIS_BLOCK_HASH_DEMO())).await;
        pool.add_block(block, parent).await;
    }

    #[allow(non_snake_case)]
    fn GENESIS_BLOCK_HASH_DEMO() -> BlockHash {
        km::block_hash_of(km::w2h([7, 7, 7, 7]))
    }
}

// ---------------------------------------------------------------------------------------
// After completion: equivocation is still detected and reported (C12 / C13: "a second validly
// signed commitment for a slice is reported as equivocation", at any time - also after the block
// of the slot was assembled and announced).
// ---------------------------------------------------------------------------------------

/// Stub for `BlockData::try_reconstruct_slice` (Kani only), as in `kani_c12_bs::cut`: the cut
/// "up to, not including, Reed-Solomon".  With `completed` set or fewer than DATA_SHREDS shreds
/// the real function leaves without touching any state.
#[cfg(kani)]
pub(crate) fn try_reconstruct_slice_cut(this: &mut BlockData, index: SliceIndex, _shredder: &mut RegularShredder) -> ReconstructSliceResult {
    if this.completed.is_some() || this.slices.contains_key(&index) {
        return ReconstructSliceResult::NoAction;
    }
    if this.shreds.get(&index).is_none() {
        panic!("caller must insert at least one shred before reconstructing");
    }
    ReconstructSliceResult::NoAction
}

struct ShredderBox13 {
    #[cfg(kani)]
    mu: std::mem::MaybeUninit<RegularShredder>,
    #[cfg(not(kani))]
    real: RegularShredder,
}
impl ShredderBox13 {
    fn new() -> Self {
        #[cfg(kani)]
        {
            Self { mu: std::mem::MaybeUninit::uninit() }
        }
        #[cfg(not(kani))]
        {
            Self { real: RegularShredder::default() }
        }
    }
    fn get(&mut self) -> &mut RegularShredder {
        #[cfg(kani)]
        {
            // SAFETY: never touched - slice reconstruction is cut under Kani
            unsafe { &mut *self.mu.as_mut_ptr() }
        }
        #[cfg(not(kani))]
        {
            &mut self.real
        }
    }
}

/// One-slice block: shred 0 of slice 0 (marked last) arrives through the real
/// `SlotBlockData::add_shred_from_dissemination`; the slice is then decoded (the harness installs
/// the decoded slice the way `try_reconstruct_slice` does: Reed-Solomon is out of reach) and the
/// real `try_reconstruct_block` assembles and announces the block.  Afterwards a second validly
/// signed shred B for the same slot arrives (shred index 1; slice index, last-slice flag and
/// payload arbitrary).  It must be reported as equivocation exactly when it contradicts what
/// was accepted (another commitment for slice 0, or any slice beyond the last one / a second
/// last slice), and the block already announced must stay as it is.
fn post_body() {
    km::init_oracle(4, 16);
    let slot = vs::any_u64();
    let a_data: [u8; sh::D] = vs::any_bytes::<{ sh::D }>();
    let b_slice = sh::any_slice_index();
    let b_last = vs::any_bool();
    let b_data: [u8; sh::D] = vs::any_bytes::<{ sh::D }>();
    let parent = any_pid();
    vs::assume(parent.slot < slot);
    let s0 = slice_index(0);

    let va = sh::mk_validated::<0>(false, sh::mk_header(slot, s0, true), 0, a_data, &[]);
    let vb = sh::mk_validated::<0>(false, sh::mk_header(slot, b_slice, b_last), 1, b_data, &[]);
    let ca = va.commitment();
    let cb = vb.commitment();
    let root_a = va.slice_root().clone();
    let differ = !sh::commit_eq(&sh::commitment_bytes(&ca), &sh::commitment_bytes(&cb));

    let mut sbd = SlotBlockData::new(Slot::new(slot));
    let mut shredder = ShredderBox13::new();
    let r1 = sbd.add_shred_from_dissemination(va, shredder.get());
    vcheck!(matches!(&r1, Ok(Some(BlockstoreEvent::FirstShred(s))) if s.inner() == slot), "the first shred of a block is not announced as FirstShred");
    // the slice decodes (what try_reconstruct_slice stores after Reed-Solomon)
    sbd.disseminated.slices.insert(s0, mk_reconstructed(sh::mk_header(slot, s0, true), Some(parent.id()), empty_txs(), root_a));
    let r = outcome(sbd.disseminated.try_reconstruct_block());
    let completed = matches!(r, Outcome::Complete(_));
    vcheck!(completed, "a well-formed one-slice block was not assembled");
    let hash_before = match &sbd.disseminated.completed {
        Some((h, _)) => Some(km::block_hash_words(h)),
        None => None,
    };

    let r2 = sbd.add_shred_from_dissemination(vb, shredder.get());

    let same_slice = b_slice == s0;
    let contradicts = if same_slice { differ } else { true }; // any other slice lies beyond the last one
    let equiv = matches!(r2, Err(AddShredError::Equivocation));
    vcheck!(equiv == contradicts, "after the block of the slot was assembled, a second validly signed commitment (or a slice beyond the last one) is not reported as Equivocation exactly when it contradicts what was accepted");
    if !equiv {
        vcheck!(matches!(r2, Ok(None)) || matches!(r2, Err(AddShredError::Duplicate)), "a consistent late shred was neither accepted silently nor dropped as a duplicate");
    }
    let hash_after = match &sbd.disseminated.completed {
        Some((h, _)) => Some(km::block_hash_words(h)),
        None => None,
    };
    vcheck!(hash_after.is_some() && hash_after == hash_before, "a late shred changed the block already announced");
    vcover!(equiv && same_slice, "conflicting commitment for the assembled slice");
    vcover!(equiv && !same_slice, "slice beyond the last one");
    vcover!(!equiv, "consistent late shred");
    std::mem::forget(r1);
    std::mem::forget(r2);
    std::mem::forget(r);
    std::mem::forget(sbd);
}

#[cfg_attr(kani, kani::proof)]
#[cfg_attr(kani, kani::stub(crate::crypto::hash::hash_all, crate::crypto::merkle::kani_c12_merkle::hash_all_oracle))]
#[cfg_attr(kani, kani::stub(log::max_level, crate::crypto::merkle::kani_c12_merkle::log_off))]
#[cfg_attr(kani, kani::stub(wincode::config::deserialize_exact, crate::consensus::blockstore::slot_block_data::kani_c13::deserialize_exact_model))]
#[cfg_attr(kani, kani::stub(crate::consensus::blockstore::slot_block_data::BlockData::try_reconstruct_slice, crate::consensus::blockstore::slot_block_data::kani_c13::try_reconstruct_slice_cut))]
#[cfg_attr(kani, kani::unwind(34))]
#[cfg_attr(verif_replay, test)]
fn c13_post_equiv() {
    post_body()
}
