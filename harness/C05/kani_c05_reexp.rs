//! Overlay module `crate::consensus::pool::kani_c05_reexp`: makes the pool-side vote model
//! (a child of the private `slot_state` module) nameable from `consensus::votor`.
pub(crate) use super::slot_state::kani_c05_pool::OwnVotes;
