import re

MOD = "consensus::votor::kani_c05"
VT = "src/consensus/votor.rs"
SS = "src/consensus/pool/slot_state.rs"
COLL = {"src": "verif_coll.rs", "dest": "src/verif_coll.rs", "decl_in": "src/lib.rs", "decl": "pub mod verif_coll;"}
FIX = {"src": "kani_fix.rs", "dest": "src/consensus/kani_fix.rs", "decl_in": "src/consensus.rs", "decl": "pub(crate) mod kani_fix;"}
AGG = {"src": "kani_aggstub.rs", "dest": "src/crypto/aggsig/kani_aggstub.rs", "decl_in": "src/crypto/aggsig.rs", "decl": "pub(crate) mod kani_aggstub;"}
CERT = {"src": "kani_certstub.rs", "dest": "src/consensus/cert/kani_certstub.rs", "decl_in": "src/consensus/cert.rs", "decl": "pub(crate) mod kani_certstub;"}
C05COLL = {"src": "C05/c05_coll.rs", "dest": "src/c05_coll.rs", "decl_in": "src/lib.rs", "decl": "pub mod c05_coll;"}
POOLM = {"src": "C05/kani_c05_pool.rs", "dest": "src/consensus/pool/slot_state/kani_c05_pool.rs", "decl_in": SS, "decl": "pub(crate) mod kani_c05_pool;"}
REEXP = {"src": "C05/kani_c05_reexp.rs", "dest": "src/consensus/pool/kani_c05_reexp.rs", "decl_in": "src/consensus/pool.rs", "decl": "pub(crate) mod kani_c05_reexp;"}
MAIN = {"src": "C05/kani_c05.rs", "dest": "src/consensus/votor/kani_c05.rs", "decl_in": VT, "decl": "mod kani_c05;"}


def redirect(file, line, repl):
    return {"file": file, "pattern": r"^" + re.escape(line) + r"$",
            "replacement": "#[cfg(not(kani))]\n" + line + "\n#[cfg(kani)]\n" + repl, "count": 1, "required": True}


def subst(file, text, repl):
    """plain text substitution (the redirected tree is only ever built under cfg(kani))"""
    return {"file": file, "pattern": re.escape(text), "replacement": repl.replace("\\", "\\\\"), "count": 1, "required": True}


def sync_fn(name, params, ret):
    """`async fn name(&mut self, params) [-> ret] {`  ->  wrapper returning Ready + `fn name_sync(...) [-> ret] {` (body follows verbatim)"""
    sig = "&mut self" + (", " + params if params else "")
    args = ", ".join(p.split(":")[0].strip() for p in params.split(",")) if params else ""
    arrow = " -> " + ret if ret else ""
    old = f"    async fn {name}({sig}){arrow} {{\n"
    new = (f"    fn {name}({sig}) -> std::future::Ready<{ret or '()'}> {{\n        std::future::ready(self.{name}_sync({args}))\n    }}\n"
           f"    fn {name}_sync({sig}){arrow} {{\n")
    return subst(VT, old, new)


REDIRECTS = [
    # pool side (slashing check of the node's own votes): the containers of slot_state.rs as in C03/C04
    redirect(SS, "use std::collections::BTreeMap;", "use crate::verif_coll::BTreeMap;"),
    redirect(SS, "use smallvec::SmallVec;", "use crate::verif_coll::SmallVec;"),
    redirect(SS, "use super::sorted_vec::{SortedVecMap, SortedVecSet};", "use crate::verif_coll::{SortedVecMap, SortedVecSet};"),
    # std containers of votor.rs -> bounded array stand-ins
    redirect(VT, "use std::collections::{BTreeMap, BTreeSet};", "use crate::c05_coll::{BTreeMap, BTreeSet};"),
    # tokio mpsc (Kani internal compiler error) -> stand-in channel ends
    redirect(VT, "use tokio::sync::mpsc::{Receiver, Sender};", "use self::kani_c05::standin::{Receiver, Sender};"),
    # Votor::new keeps its body; its two receiver parameters accept either channel type (consensus.rs passes tokio's)
    subst(VT, "        pool_receiver: Receiver<PoolEvent>,\n        blockstore_receiver: Receiver<BlockstoreEvent>,\n        all2all: Arc<A>,\n    ) -> Self {\n",
          "        pool_receiver: impl Into<Receiver<PoolEvent>>,\n        blockstore_receiver: impl Into<Receiver<BlockstoreEvent>>,\n        all2all: Arc<A>,\n    ) -> Self {\n        let pool_receiver = pool_receiver.into();\n        let blockstore_receiver = blockstore_receiver.into();\n"),
    subst(VT, "tokio::sync::mpsc::channel(256)", "self::kani_c05::standin::channel(256)"),
    # timers: the future is not run; timeouts are events the harness injects
    subst(VT, "tokio::spawn(async move {", "self::kani_c05::standin::spawn(async move {"),
    # Kani encodes every async fn's state machine as a union and CBMC handles unions byte-wise: constants (slot
    # numbers, enum discriminants of the event) are lost once they are stored in a state machine, a future nested in
    # another future's state exhausts the memory cap in propositional reduction, and handle_pool_event executes all of
    # its arms for every event (measured: try_skip_window alone 15 k steps, awaited from a wrapper: out of memory;
    # handle_pool_event(SafeToSkip): 3.1 M steps).  Under Kani therefore
    #  (1) Votor::broadcast (forwards the message to all2all.broadcast, panics on an I/O error) is a synchronous recorder,
    #  (2) the eight async fns of the voting logic are compiled as ordinary functions - body verbatim - behind a wrapper
    #      of the same name that returns std::future::Ready (they contain no suspension point once (1) holds), and
    #  (3) `.await` on them is an in-place poll that must be Ready at once.
    # The order of statements, which is what the property is about, is unchanged.  Native replay runs the unmodified
    # async code on a tokio runtime with the recording All2All.
    {"file": VT, "pattern": r"    async fn broadcast\(&self, msg: ConsensusMessage\) \{\n(?:.*\n){4}    \}\n",
     "replacement": "    fn broadcast(&self, msg: self::kani_c05::standin::Msg) {\n        self::kani_c05::standin::record(msg);\n    }\n", "count": 1, "required": True},
    subst(VT, "self.broadcast(ConsensusMessage::from(cert)).await;", "self.broadcast(cert.into()).await;"),
    {"file": VT, "pattern": r"self\.broadcast\(([^\n]*)\)\.await;", "replacement": r"self.broadcast(\1);", "count": 0, "required": True},
    {"file": VT, "pattern": r"self\.(check_pending_blocks|try_notar|try_final|try_skip_window|handle_cert_created)\(([^\n]*?)\)\.await",
     "replacement": r"crate::consensus::votor::kani_c05::now!(self.\1(\2))", "count": 0, "required": True},
] + [sync_fn(*x) for x in [
    ("handle_pool_event", "event: PoolEvent", ""), ("handle_cert_created", "cert: Cert", ""), ("handle_blockstore_event", "event: BlockstoreEvent", ""),
    ("handle_timeout_event", "event: VotorTimeout", ""), ("try_notar", "slot: Slot, block_info: BlockInfo", "bool"), ("try_final", "slot: Slot, hash: &BlockHash", ""),
    ("try_skip_window", "slot: Slot", ""), ("check_pending_blocks", "", ""),
]] + [
    # the list of slots with a pending block (ascending, from the ordered map's keys) is kept as a presence bitmap and
    # the loop over it visits all slot numbers in ascending order, skipping the absent ones: the same iteration, but
    # with a concrete slot number per round (a symbolic slot makes every map access an 8-way case split: one
    # check_pending_blocks > 300 k steps, measured)
    subst(VT, "        for slot in slots {\n", "        for slot in crate::c05_coll::all_keys::<Slot>() {\n            if !slots.has(&slot) {\n                continue;\n            }\n"),
    {"file": VT, "pattern": r"^use std::sync::Arc;$", "replacement": "use std::sync::Arc;\n#[cfg(kani)]\nuse crate::c05_coll::Vec;", "count": 1, "required": True},
]

Q, T = ["quick", "thorough"], ["thorough"]
# the third entry is `<BlockHash as PartialEq>::eq` (Kani prints the stub as written in the attribute, spaces removed)
STUBS = ["crypto::aggsig::SecretKey::sign", "log::max_level", "DoubleMerkleRootasPEq>::eq"]
# 32: the 32-byte hashes stay element-wise constants (with 8 the events' block hashes stop being constants for CBMC)
CBMC = ["--unwindset", "memcmp.0:34", "--max-field-sensitivity-array-size", "32"]
FUNCS = ["Votor::new", "Votor::handle_pool_event", "Votor::should_ignore_pool_event", "Votor::handle_cert_created", "Votor::handle_blockstore_event", "Votor::handle_timeout_event",
         "Votor::try_notar", "Votor::try_final", "Votor::try_skip_window", "Votor::check_pending_blocks", "Votor::set_timeouts", "Votor::prune", "Votor::state_mut / has_voted / is_retired / received_shred / first_unpruned_slot",
         "Vote::new_notar / new_notar_fallback / new_skip / new_skip_fallback / new_final"]
POOL_FUNCS = ["pool::slot_state::SlotState::check_slashable_offence"]


def _h(name, tiers, role, bounds, covers, pool=False):
    return {"name": name, "path": MOD, "tiers": tiers, "role": role, "functions": FUNCS + (POOL_FUNCS if pool else []), "bounds": bounds, "stubs": STUBS,
            "covers": covers, "timeout": {"quick": 600, "thorough": 1500}, "mem_gb": 10, "cbmc_args": CBMC}


SPEC = {
    "property": "C05",
    "level_text": "Bounded symbolic verification of the real voting logic (consensus/votor.rs) against a reference monitor written from the property statement: on a freshly constructed node (the real Votor::new), after an optional fixed prefix, 2 (quick) or 3-4 (thorough) further events are delivered through the real handlers handle_blockstore_event / handle_timeout_event / handle_pool_event; WHICH event comes next is chosen by the solver from the family's menu of 4-7 concrete events (blocks of two competing chains arriving in any order, first shred, invalid block, timeouts, crashed-leader timeout, ParentReady for two candidate parents, SafeToNotar, SafeToSkip, CertCreated for all five certificate types, standstill bundles), so one harness decides all orders at once. Every vote is checked at the moment it is broadcast, knowing only what the node has been shown and what it has cast before: at most one initial vote per slot (notar or skip); notar only for a received block whose parent was announced ready (first slot of a window) or is the block the node notarized in the preceding slot; final only for the block it notarized, only after that block's notarization certificate was shown, never in a slot with its skip / skip-fallback / notar-fallback vote, and none of those after final; fallback votes only in slots where it has voted and only while handling the matching SafeToNotar(slot, block) / SafeToSkip(slot) event; every vote carries the node's own validator index and is signed with its own key; certificates are re-broadcast at most once per event, standstill bundles exactly. In two harnesses every vote is additionally shown, in emission order, to the pool's real SlotState::check_slashable_offence, which never reports an offence. 20 harnesses over two leader windows (slots 1-3 behind genesis, slots 4-7 with parents in slot 3). Counterexamples are replayed natively on the unmodified async code (real tokio channels and runtime context, real BLS keys, std containers); eight seeded mutations of votor.rs were each found and reproduced natively. Family c05_g_gap_k2 offers blocks that do not build on the preceding slot (a slot-3 block on the slot-1 block, a slot-2 block on genesis): they are never notarized.",
    "level_note": "NOT an inductive proof: histories of 2-4 solver-chosen events (plus a fixed prefix of up to 2) from the fresh state, events with concrete slots/blocks per family, slots 0-7, at most 2 blocks per slot, 2 candidate parents. Under Kani the async plumbing of votor.rs is rewritten mechanically, bodies verbatim (spec.py REDIRECTS): the eight async fns are compiled as ordinary functions behind Ready-returning wrappers, `.await` on them is a poll that must complete at once, Votor::broadcast is a synchronous recorder (the All2All implementation is exercised only in native replay), tokio::spawn of the timer task is dropped (timeouts are injected events), tokio mpsc ends are inert stand-ins, std BTreeMap/BTreeSet/Vec inside votor.rs are slot-indexed / 2-element / bitmap stand-ins (c05_coll.rs), the loop over pending slots visits slot numbers 0..7 in order and skips absent ones; BlockHash equality is compared word-wise, SecretKey::sign returns a token carrying the key's identity, log::max_level() is Off. CertCreated events reach handle_cert_created through the real should_ignore_pool_event but not through handle_pool_event's match (PoolEvent keeps its discriminant in a niche of the certificate, which CBMC does not constant-fold). Environment assumptions: SafeToNotar(s,b) only after the node's initial vote in s was skip or notar for another block, SafeToSkip(s) only after its notar vote in s (what the pool's check_safe_to_notar / count_*_stake guarantee; C06). Trusts Kani 0.68 MIR translation, CBMC 6.11, CaDiCaL.",
    "overlays": [COLL, C05COLL, FIX, AGG, CERT, POOLM, REEXP, MAIN],
    "redirects": REDIRECTS,
    "coll_cap": 3,
    "functions": ["consensus::votor::Votor::{new,handle_pool_event,should_ignore_pool_event,handle_cert_created,handle_blockstore_event,handle_timeout_event,try_notar,try_final,try_skip_window,check_pending_blocks,set_timeouts,prune,state_mut,has_voted,is_retired,received_shred,first_unpruned_slot}",
                  "consensus::vote::Vote::{new_notar,new_notar_fallback,new_skip,new_skip_fallback,new_final}", "consensus::pool::slot_state::SlotState::check_slashable_offence (c05_slash_*)"],
    "bounds": "fresh node; fixed prefix of 0-2 events, then 2 (quick) / 3-4 (thorough) events whose kind the solver picks from a per-harness menu of 4-7 concrete events; slots 0-7 (leader windows 0 and 1), <= 2 competing blocks per slot, <= 2 candidate parents per window, <= 16 votes per run; own validator index 1 of 2",
    "explanation": "Bounded-history harnesses: K solver-chosen events on a fresh Votor through the real handlers; a reference monitor written from the property statement checks every vote at broadcast time; decided by Kani -> CBMC -> CaDiCaL for all K-event sequences over each menu at once. Two harnesses also show every vote to the pool's check_slashable_offence. Not inductive: states reachable only by longer histories are outside.",
    "assumptions": [
        "PoolEvent::SafeToNotar((s,b)) is delivered only after the node's own initial vote in s (skip, or notar for a block other than b) was broadcast; PoolEvent::SafeToSkip(s) only after its notar vote in s (pool: SlotState::check_safe_to_notar / count_notar_stake / count_skip_stake read the node's own stored vote). Without it the real code casts the notar-fallback vote BEFORE the skip vote when SafeToNotar arrives for a slot it has not voted in (order only; observed, not claimed as a defect)",
        "PoolEvent::ParentReady is delivered only for the first slot of a window (set_timeouts asserts it; pool.rs documents it)",
        "no handler ever suspends: broadcasting completes at once (under Kani by construction; a Pending poll is reported as a harness error, never a pass)",
        "a block hash determines the block's parent (each (slot, block) of a menu has one parent)",
        "under Kani: bounded stand-ins for std BTreeMap<Slot,_> (slots 0..7), BTreeSet<BlockId> (<= 2 elements), Vec<Slot> (bitmap) inside votor.rs and for the containers of pool/slot_state.rs (verif_coll, <= 3 entries); exceeding a bound is a hard VS-UNSUPPORTED failure for c05_coll, an excluded path for verif_coll",
    ],
    "trusted_base": [
        "reference monitor Mon (kani_c05.rs), written from the property statement",
        "mechanical rewriting of votor.rs's async plumbing under Kani (spec.py REDIRECTS; bodies verbatim, statement order unchanged) and the c05_coll.rs container stand-ins",
        "stubs: SecretKey::sign -> identity token, <BlockHash as PartialEq>::eq -> word-wise comparison, log::max_level -> Off",
        "opaque certificate objects (kani_certstub::opaque) for CertCreated / standstill under Kani; real certificates signed by validator 0 in native replay",
        "pool-side model kani_c05_pool.rs: stores each fed vote where SlotState::add_vote stores it (stake counting / certificate creation of add_vote not run); SlotState built by literal for 2 validators under Kani",
    ],
    "outside": [
        "histories longer than prefix + 3 (one family: 4) events; more than two leader windows; epochs; slots >= 8",
        "Votor::voting_loop (tokio::select! over the three channels) and the real timer task of set_timeouts (sleep durations, channel back-pressure)",
        "Votor::broadcast's error path (panic on I/O failure) and the All2All implementations",
        "the match arm of handle_pool_event that forwards CertCreated to handle_cert_created (both callees are real)",
        "that SafeToNotar / SafeToSkip are only emitted when safe (C06) and that certificates shown to the node are valid (C03/C09)",
        "liveness: that a vote IS cast when the rules allow it (only witnessed by the cover points)",
        "duplicate final votes: a notarization certificate delivered again after the node finalized makes try_final broadcast a second, identical final vote (harmless, not excluded by the property statement; observed in c05_g_retired_k2)",
    ],
    "harnesses": [
        _h("c05_g_blocks_k2", Q, "history/blocks in any order", "fresh node, window 0; 2 events of symbolic kind among 4 block arrivals (two competing chains over slots 1-2)", 2),
        _h("c05_g_blocks_k3", T, "history/blocks in any order", "as c05_g_blocks_k2 with 3 events", 2),
        _h("c05_g_gap_k2", Q, "history/blocks not building on the preceding slot", "slot 1 notarized (concrete prefix); 2 events among a slot-3 block on the slot-1 block (slot 2 left out), a slot-2 block on genesis, the regular slot-2 block, timeout", 2),
        _h("c05_g_chain_k3", T, "history/one chain in any order", "fresh node, window 0; 3 events among the 3 blocks of one chain over slots 1-3", 2),
        _h("c05_g_timeouts_k2", Q, "history/blocks against timeouts", "fresh node, window 0; 2 events among 2 blocks, 2 timeouts, invalid block, first shred", 2),
        _h("c05_g_timeouts_k3", T, "history/blocks against timeouts", "fresh node, window 0; 3 events among 2 blocks, 2 timeouts, invalid block", 2),
        _h("c05_g_final_k2", Q, "history/finalization against fallback votes", "slot 1 notarized (concrete prefix); 2 events among 2 notarization certificates, safe-to-notar, safe-to-skip, next block, timeout", 4),
        _h("c05_g_certfirst_k2", Q, "history/certificates before blocks", "fresh node; 2 events among the notarization certificates of two competing blocks of slot 1 and the two blocks", 2),
        _h("c05_g_final_k3", T, "history/finalization against fallback votes", "slot 1 notarized (concrete prefix); 3 events among 3 notarization certificates, safe-to-notar, safe-to-skip, next block", 2),
        _h("c05_g_retired_k2", Q, "history/after the final vote", "slot 1 notarized and finalized (concrete prefix); 2 events among safe-to-notar, safe-to-skip, timeout, invalid block, competing block, notarization and finalization certificates", 3),
        _h("c05_g_skipped_k2", Q, "history/skipped slot", "window 0 skipped (concrete prefix); 2 events among late block, 2 safe-to-notar, notarization / notar-fallback / skip certificates", 2),
        _h("c05_w_parent_k2", Q, "history/parent ready", "fresh node, window 1 (slots 4-7); 2 events among 2 ParentReady, 3 blocks, crashed-leader timeout", 3),
        _h("c05_w_parent_k3", T, "history/parent ready", "fresh node, window 1; 3 events among ParentReady, 2 blocks of one chain, timeout", 2),
        _h("c05_w_crashed_k2", Q, "history/first shred and timeouts", "parent ready for slot 4 (concrete prefix); 2 events among first shred, crashed-leader timeout, block, 2 timeouts", 2),
        _h("c05_standstill_k2", Q, "history/standstill bundle", "slot 1 notarized (concrete prefix); 2 events among notarization certificate, final certificate of window 1, two standstill bundles (1 certificate + 2 own votes)", 3),
        _h("c05_slash_final_k2", T, "history + pool slashing check", "slot 1 notarized (concrete prefix); 2 events among notarization certificate, safe-to-notar, safe-to-skip, timeout, next block; every vote shown to SlotState::check_slashable_offence", 2),
        _h("c05_slash_skip_k2", T, "history + pool slashing check", "fresh node; 2 events among block, timeout, safe-to-notar, notarization certificate; every vote shown to SlotState::check_slashable_offence", 2),
        _h("c05_g_final_k4", T, "history/finalization against fallback votes", "slot 1 notarized (concrete prefix); 4 events among 2 notarization certificates (slots 1, 2), safe-to-notar, safe-to-skip, next block", 2),
        _h("c05_g_retired_k3", T, "history/after the final vote", "slot 1 notarized and finalized (concrete prefix); 3 events among safe-to-notar, safe-to-skip, timeout, invalid block, competing block, notarization certificate, next block", 2),
        _h("c05_g_skipped_k3", T, "history/skipped slot", "window 0 skipped (concrete prefix); 3 events among 2 late blocks, 2 safe-to-notar, notarization / skip certificates", 2),
        _h("c05_w_prune_k3", T, "history/finalization certificates and pruning", "slot 4 notarized (concrete prefix); 3 events among final / notarization certificates, block, 2 timeouts, safe-to-notar", 2),
        _h("c05_w_prune_k2", T, "history/finalization certificates and pruning", "slot 4 notarized (concrete prefix); 2 events among final / fast-final / notarization certificates, block, 2 timeouts, safe-to-notar", 3),
    ],
}
