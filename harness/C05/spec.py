import re

MOD = "consensus::votor::kani_c05"
VT = "src/consensus/votor.rs"
SS = "src/consensus/pool/slot_state.rs"
COLL = {"src": "verif_coll.rs", "dest": "src/verif_coll.rs", "decl_in": "src/lib.rs", "decl": "pub mod verif_coll;"}
FIX = {"src": "kani_fix.rs", "dest": "src/consensus/kani_fix.rs", "decl_in": "src/consensus.rs", "decl": "pub(crate) mod kani_fix;"}
AGG = {"src": "kani_aggstub.rs", "dest": "src/crypto/aggsig/kani_aggstub.rs", "decl_in": "src/crypto/aggsig.rs", "decl": "pub(crate) mod kani_aggstub;"}
CERT = {"src": "kani_certstub.rs", "dest": "src/consensus/cert/kani_certstub.rs", "decl_in": "src/consensus/cert.rs", "decl": "pub(crate) mod kani_certstub;"}
C05COLL = {"src": "C05/c05_coll.rs", "dest": "src/c05_coll.rs", "decl_in": "src/lib.rs", "decl": "pub mod c05_coll;"}
MAIN = {"src": "C05/kani_c05.rs", "dest": "src/consensus/votor/kani_c05.rs", "decl_in": VT, "decl": "mod kani_c05;"}


def redirect(file, line, repl):
    return {"file": file, "pattern": r"^" + re.escape(line) + r"$",
            "replacement": "#[cfg(not(kani))]\n" + line + "\n#[cfg(kani)]\n" + repl, "count": 1, "required": True}


def subst(file, text, repl):
    """plain text substitution (the redirected tree is only ever built under cfg(kani))"""
    return {"file": file, "pattern": re.escape(text), "replacement": repl.replace("\\", "\\\\"), "count": 1, "required": True}


def sync_fn(name, params, ret):
    """`async fn name(&mut self, params) [-> ret] {`  ->  wrapper returning Ready + `fn name_sync(...) [-> ret] {` (body follows verbatim)"""
    sig = "&mut self" + (", " + params if params else "")
    args = ", ".join(p.split(":")[0].strip() for p in params.split(",")) if params else ""
    arrow = " -> " + ret if ret else ""
    old = f"    async fn {name}({sig}){arrow} {{\n"
    new = (f"    fn {name}({sig}) -> std::future::Ready<{ret or '()'}> {{\n        std::future::ready(self.{name}_sync({args}))\n    }}\n"
           f"    fn {name}_sync({sig}){arrow} {{\n")
    return subst(VT, old, new)


REDIRECTS = [
    # std containers of votor.rs -> bounded array stand-ins
    redirect(VT, "use std::collections::{BTreeMap, BTreeSet};", "use crate::c05_coll::{BTreeMap, BTreeSet};"),
    # tokio mpsc (Kani internal compiler error) -> stand-in channel ends
    redirect(VT, "use tokio::sync::mpsc::{Receiver, Sender};", "use self::kani_c05::standin::{Receiver, Sender};"),
    # Votor::new keeps its body; its two receiver parameters accept either channel type (consensus.rs passes tokio's)
    subst(VT, "        pool_receiver: Receiver<PoolEvent>,\n        blockstore_receiver: Receiver<BlockstoreEvent>,\n        all2all: Arc<A>,\n    ) -> Self {\n",
          "        pool_receiver: impl Into<Receiver<PoolEvent>>,\n        blockstore_receiver: impl Into<Receiver<BlockstoreEvent>>,\n        all2all: Arc<A>,\n    ) -> Self {\n        let pool_receiver = pool_receiver.into();\n        let blockstore_receiver = blockstore_receiver.into();\n"),
    subst(VT, "tokio::sync::mpsc::channel(256)", "self::kani_c05::standin::channel(256)"),
    # timers: the future is not run; timeouts are events the harness injects
    subst(VT, "tokio::spawn(async move {", "self::kani_c05::standin::spawn(async move {"),
    # Kani encodes every async fn's state machine as a union and CBMC handles unions byte-wise: constants (slot
    # numbers, enum discriminants of the event) are lost once they are stored in a state machine, a future nested in
    # another future's state exhausts the memory cap in propositional reduction, and handle_pool_event executes all of
    # its arms for every event (measured: try_skip_window alone 15 k steps, awaited from a wrapper: out of memory;
    # handle_pool_event(SafeToSkip): 3.1 M steps).  Under Kani therefore
    #  (1) Votor::broadcast (forwards the message to all2all.broadcast, panics on an I/O error) is a synchronous recorder,
    #  (2) the eight async fns of the voting logic are compiled as ordinary functions - body verbatim - behind a wrapper
    #      of the same name that returns std::future::Ready (they contain no suspension point once (1) holds), and
    #  (3) `.await` on them is an in-place poll that must be Ready at once.
    # The order of statements, which is what the property is about, is unchanged.  Native replay runs the unmodified
    # async code on a tokio runtime with the recording All2All.
    {"file": VT, "pattern": r"    async fn broadcast\(&self, msg: ConsensusMessage\) \{\n(?:.*\n){4}    \}\n",
     "replacement": "    fn broadcast(&self, msg: self::kani_c05::standin::Msg) {\n        self::kani_c05::standin::record(msg);\n    }\n", "count": 1, "required": True},
    subst(VT, "self.broadcast(ConsensusMessage::from(cert)).await;", "self.broadcast(cert.into()).await;"),
    {"file": VT, "pattern": r"self\.broadcast\(([^\n]*)\)\.await;", "replacement": r"self.broadcast(\1);", "count": 0, "required": True},
    {"file": VT, "pattern": r"self\.(check_pending_blocks|try_notar|try_final|try_skip_window|handle_cert_created)\(([^\n]*?)\)\.await",
     "replacement": r"crate::consensus::votor::kani_c05::now!(self.\1(\2))", "count": 0, "required": True},
] + [sync_fn(*x) for x in [
    ("handle_pool_event", "event: PoolEvent", ""), ("handle_cert_created", "cert: Cert", ""), ("handle_blockstore_event", "event: BlockstoreEvent", ""),
    ("handle_timeout_event", "event: VotorTimeout", ""), ("try_notar", "slot: Slot, block_info: BlockInfo", "bool"), ("try_final", "slot: Slot, hash: &BlockHash", ""),
    ("try_skip_window", "slot: Slot", ""), ("check_pending_blocks", "", ""),
]] + [
    # the list of slots with a pending block (ascending, from the ordered map's keys) is kept as a presence bitmap and
    # the loop over it visits all slot numbers in ascending order, skipping the absent ones: the same iteration, but
    # with a concrete slot number per round (a symbolic slot makes every map access an 8-way case split: one
    # check_pending_blocks > 300 k steps, measured)
    subst(VT, "        for slot in slots {\n", "        for slot in crate::c05_coll::all_keys::<Slot>() {\n            if !slots.has(&slot) {\n                continue;\n            }\n"),
    {"file": VT, "pattern": r"^use std::sync::Arc;$", "replacement": "use std::sync::Arc;\n#[cfg(kani)]\nuse crate::c05_coll::Vec;", "count": 1, "required": True},
]

Q, T = ["quick", "thorough"], ["thorough"]
STUBS = ["crypto::aggsig::SecretKey::sign", "log::max_level"]
CBMC = ["--unwindset", "memcmp.0:34", "--max-field-sensitivity-array-size", "32"]
FUNCS = ["Votor::new", "Votor::handle_pool_event", "Votor::should_ignore_pool_event", "Votor::handle_cert_created", "Votor::handle_blockstore_event", "Votor::handle_timeout_event",
         "Votor::try_notar", "Votor::try_final", "Votor::try_skip_window", "Votor::check_pending_blocks", "Votor::set_timeouts", "Votor::prune", "Votor::broadcast", "Vote::new_*"]


def _h(name, tiers, role, bounds, covers, tq=420, tt=1500):
    return {"name": name, "path": MOD, "tiers": tiers, "role": role, "functions": FUNCS, "bounds": bounds, "stubs": STUBS,
            "covers": covers, "timeout": {"quick": tq, "thorough": tt}, "mem_gb": 10, "cbmc_args": CBMC}


SPEC = {
    "property": "C05",
    "level_text": "TODO",
    "level_note": "TODO",
    "overlays": [COLL, C05COLL, FIX, AGG, CERT, MAIN],
    "redirects": REDIRECTS,
    "coll_cap": 5,
    "functions": ["consensus::votor::Votor::{" + ",".join(f.split("::")[1] for f in FUNCS if f.startswith("Votor::")) + "}"],
    "bounds": "TODO",
    "explanation": "TODO",
    "assumptions": [],
    "trusted_base": [],
    "outside": [],
    "harnesses": [
        _h("c05_probe", Q, "probe", "probe", 1),
    ],
}
