//! Container stand-ins for `consensus/votor.rs` (overlay file `crate::c05_coll`, Kani only).
//!
//! `BTreeMap<Slot, V>` becomes a map *indexed by the slot number* (slots `0..NSLOT`): every
//! lookup with a concrete slot is a constant array index, so CBMC keeps the per-slot state
//! field-sensitive and constant-propagated (the generic linear-search stand-in of verif_coll
//! hands out references through pointer arithmetic, after which CBMC treats the whole map as
//! bytes: measured 45 k symex steps per `state_mut` + vote instead of ~5 k).
//! `BTreeSet<T>` becomes a 2-element set (votor only inserts into it and asks `contains`).
//! A key outside `0..NSLOT` or a third set element is a hard `VS-UNSUPPORTED` failure
//! (the driver reports it as inconclusive), never a silently dropped path.
#![allow(dead_code, unused_imports, clippy::all, unreachable_pub)]

use std::marker::PhantomData;

pub const NSLOT: usize = 8;

fn unsupported(what: &'static str) -> ! {
    panic!("VS-UNSUPPORTED: {}", what)
}

/// Keys that are small non-negative integers.
pub trait SlotKey: Copy {
    fn idx(&self) -> usize;
    fn from_idx(i: usize) -> Self;
}
impl SlotKey for crate::Slot {
    fn idx(&self) -> usize {
        self.inner() as usize
    }
    fn from_idx(i: usize) -> Self {
        crate::Slot::new(i as u64)
    }
}

/// Invariant: an absent entry holds `V::default()` in `vals`, so `entry(k).or_default()` only
/// has to flip the presence bit (writing a fresh 240-scalar default state under a symbolic
/// guard at every `state_mut` was the single largest cost: 100 k steps per harness).
pub struct BTreeMap<K, V> {
    present: [bool; NSLOT],
    vals: [V; NSLOT],
    /// key of every index, never written after `new`: iteration yields these, so the keys a
    /// caller sees are constants even when the presence of an entry is symbolic
    keys: [K; NSLOT],
}

macro_rules! each {
    ($i:ident, $body:block) => {
        each!(@go $i, $body, [0, 1, 2, 3, 4, 5, 6, 7]);
    };
    (@go $i:ident, $body:block, [$($k:literal),*]) => {
        $( { let $i: usize = $k; $body } )*
    };
}

impl<K: SlotKey, V: Default> Default for BTreeMap<K, V> {
    fn default() -> Self {
        Self::new()
    }
}

impl<K: SlotKey, V: Default> BTreeMap<K, V> {
    pub fn new() -> Self {
        Self {
            present: [false; NSLOT],
            vals: [V::default(), V::default(), V::default(), V::default(), V::default(), V::default(), V::default(), V::default()],
            keys: [K::from_idx(0), K::from_idx(1), K::from_idx(2), K::from_idx(3), K::from_idx(4), K::from_idx(5), K::from_idx(6), K::from_idx(7)],
        }
    }
    pub fn insert(&mut self, k: K, v: V) -> Option<V> {
        let p = Self::index_of(&k);
        each!(i, {
            if i == p {
                let old = std::mem::replace(&mut self.vals[i], v);
                let was = self.present[i];
                self.present[i] = true;
                return if was { Some(old) } else { None };
            }
        });
        None
    }
    pub fn entry(&mut self, k: K) -> Entry<'_, K, V> {
        let p = Self::index_of(&k);
        each!(i, {
            if i == p {
                return Entry { present: &mut self.present[i], val: &mut self.vals[i], _k: PhantomData };
            }
        });
        unsupported("unreachable")
    }
    /// Moves every entry with key `>= k` into the returned map.
    pub fn split_off(&mut self, k: &K) -> Self {
        let from = k.idx();
        let mut out = Self::new();
        each!(i, {
            if i >= from {
                out.present[i] = self.present[i];
                self.present[i] = false;
                out.vals[i] = std::mem::replace(&mut self.vals[i], V::default());
            }
        });
        out
    }
}

impl<K: SlotKey, V> BTreeMap<K, V> {
    fn index_of(k: &K) -> usize {
        let i = k.idx();
        if i >= NSLOT {
            unsupported("slot outside the stand-in map's range");
        }
        i
    }
    pub fn get(&self, k: &K) -> Option<&V> {
        let p = Self::index_of(k);
        // select among constant element addresses (never a reference with a symbolic offset)
        each!(i, {
            if i == p {
                return if self.present[i] { Some(&self.vals[i]) } else { None };
            }
        });
        None
    }
    pub fn contains_key(&self, k: &K) -> bool {
        self.get(k).is_some()
    }
    pub fn len(&self) -> usize {
        let mut n = 0;
        each!(i, {
            n += self.present[i] as usize;
        });
        n
    }
    pub fn iter(&self) -> Iter<'_, K, V> {
        Iter { map: self, next: 0 }
    }
    pub fn keys(&self) -> impl Iterator<Item = &K> {
        self.iter().map(|(k, _)| k)
    }
}

pub struct Entry<'a, K, V> {
    present: &'a mut bool,
    val: &'a mut V,
    _k: PhantomData<K>,
}
impl<'a, K, V> Entry<'a, K, V> {
    pub fn or_default(self) -> &'a mut V
    where
        V: Default,
    {
        *self.present = true;
        self.val
    }
}

/// Ascending key order = ascending index.
pub struct Iter<'a, K, V> {
    map: &'a BTreeMap<K, V>,
    next: usize,
}
impl<'a, K, V> Iterator for Iter<'a, K, V> {
    type Item = (&'a K, &'a V);
    fn next(&mut self) -> Option<Self::Item> {
        let map = self.map;
        each!(i, {
            if i >= self.next {
                if map.present[i] {
                    self.next = i + 1;
                    return Some((&map.keys[i], &map.vals[i]));
                }
            }
        });
        self.next = NSLOT;
        None
    }
}

/// `map.iter().filter(p).map(f).collect()` evaluated entry by entry with constant indices
/// (inherent methods take precedence over `Iterator::filter` / `map` / `collect`).  The generic
/// adapters merge `Option<(&K, &V)>` values over all entries in nested loops; CBMC then carries
/// pointers with eight possible targets through every later dereference (measured: one
/// `check_pending_blocks` on a state with one possibly-pending block exhausts the memory cap).
impl<'a, K: SlotKey, V> Iter<'a, K, V> {
    pub fn filter<P: FnMut(&(&'a K, &'a V)) -> bool>(self, pred: P) -> Filt<'a, K, V, P> {
        if self.next != 0 {
            unsupported("filter on a partly consumed iterator");
        }
        Filt { map: self.map, pred }
    }
}
pub struct Filt<'a, K, V, P> {
    map: &'a BTreeMap<K, V>,
    pred: P,
}
impl<'a, K: SlotKey, V, P: FnMut(&(&'a K, &'a V)) -> bool> Filt<'a, K, V, P> {
    pub fn map<T, F: FnMut((&'a K, &'a V)) -> T>(self, f: F) -> FiltMap<'a, K, V, P, F> {
        FiltMap { map: self.map, pred: self.pred, f }
    }
}
pub struct FiltMap<'a, K, V, P, F> {
    map: &'a BTreeMap<K, V>,
    pred: P,
    f: F,
}
impl<'a, K: SlotKey, V, P: FnMut(&(&'a K, &'a V)) -> bool, T, F: FnMut((&'a K, &'a V)) -> T> FiltMap<'a, K, V, P, F> {
    pub fn collect<B: FromIterator<T> + Extend1<T>>(mut self) -> B {
        let mut out: B = std::iter::empty().collect();
        let map = self.map;
        each!(i, {
            if map.present[i] {
                let item = (&map.keys[i], &map.vals[i]);
                if (self.pred)(&item) {
                    out.push1((self.f)(item));
                }
            }
        });
        out
    }
}
pub trait Extend1<T> {
    fn push1(&mut self, t: T);
}
impl<T: SlotKey> Extend1<T> for Vec<T> {
    fn push1(&mut self, t: T) {
        self.push(t)
    }
}

impl<K: SlotKey, V: Default> FromIterator<(K, V)> for BTreeMap<K, V> {
    fn from_iter<I: IntoIterator<Item = (K, V)>>(it: I) -> Self {
        let mut m = Self::new();
        for (k, v) in it {
            m.insert(k, v);
        }
        m
    }
}

// ---------------------------------------------------------------------------------------------
pub const NSET: usize = 2;

pub struct BTreeSet<T> {
    e: [Option<T>; NSET],
}
impl<T> Default for BTreeSet<T> {
    fn default() -> Self {
        Self { e: [None, None] }
    }
}
impl<T: PartialEq> BTreeSet<T> {
    pub fn new() -> Self {
        Self::default()
    }
    pub fn contains(&self, t: &T) -> bool {
        let a = match &self.e[0] {
            Some(x) => x == t,
            None => false,
        };
        let b = match &self.e[1] {
            Some(x) => x == t,
            None => false,
        };
        a || b
    }
    pub fn insert(&mut self, t: T) -> bool {
        if self.contains(&t) {
            return false;
        }
        if self.e[0].is_none() {
            self.e[0] = Some(t);
        } else if self.e[1].is_none() {
            self.e[1] = Some(t);
        } else {
            unsupported("more than 2 elements in a parents_ready set");
        }
        true
    }
    pub fn len(&self) -> usize {
        self.e[0].is_some() as usize + self.e[1].is_some() as usize
    }
}
impl<T: PartialEq> FromIterator<T> for BTreeSet<T> {
    fn from_iter<I: IntoIterator<Item = T>>(it: I) -> Self {
        let mut s = Self::new();
        for t in it {
            s.insert(t);
        }
        s
    }
}

// ---------------------------------------------------------------------------------------------
/// What `check_pending_blocks` collects the slots with a pending block into: an ascending,
/// duplicate-free list of slots (it is filled from the ordered map's keys), kept as a presence
/// bitmap.  The `for slot in slots` loop over it is rewritten (spec.py) into a loop over all
/// slot numbers `0..NSLOT` in ascending order that skips the absent ones - the same iteration,
/// but with a concrete slot number in every round.
pub struct Vec<T> {
    present: [bool; NSLOT],
    last: usize,
    _t: PhantomData<T>,
}
impl<T: SlotKey> Vec<T> {
    pub fn new() -> Self {
        Self { present: [false; NSLOT], last: 0, _t: PhantomData }
    }
    pub fn push(&mut self, t: T) {
        let i = t.idx();
        if i >= NSLOT {
            unsupported("slot outside the stand-in vector's range");
        }
        if i < self.last {
            unsupported("stand-in vector filled out of order");
        }
        self.last = i + 1;
        self.present[i] = true;
    }
    pub fn has(&self, t: &T) -> bool {
        let i = t.idx();
        i < NSLOT && self.present[i]
    }
}
impl<T: SlotKey> FromIterator<T> for Vec<T> {
    fn from_iter<I: IntoIterator<Item = T>>(it: I) -> Self {
        let mut v = Self::new();
        for t in it {
            v.push(t);
        }
        v
    }
}
/// All keys `0..NSLOT`, ascending, with a concrete counter.
pub struct AllKeys<T> {
    next: usize,
    _t: PhantomData<T>,
}
pub fn all_keys<T: SlotKey>() -> AllKeys<T> {
    AllKeys { next: 0, _t: PhantomData }
}
impl<T: SlotKey> Iterator for AllKeys<T> {
    type Item = T;
    fn next(&mut self) -> Option<T> {
        let i = self.next;
        if i >= NSLOT {
            return None;
        }
        self.next = i + 1;
        Some(T::from_idx(i))
    }
}
