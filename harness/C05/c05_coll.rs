//! Container stand-ins for `consensus/votor.rs` (overlay file `crate::c05_coll`, Kani only).
//!
//! `BTreeMap<Slot, V>` becomes a map *indexed by the slot number* (slots `0..NSLOT`): every
//! lookup with a concrete slot is a constant array index, so CBMC keeps the per-slot state
//! field-sensitive and constant-propagated (the generic linear-search stand-in of verif_coll
//! hands out references through pointer arithmetic, after which CBMC treats the whole map as
//! bytes: measured 45 k symex steps per `state_mut` + vote instead of ~5 k).
//! `BTreeSet<T>` becomes a 2-element set (votor only inserts into it and asks `contains`).
//! A key outside `0..NSLOT` or a third set element is a hard `VS-UNSUPPORTED` failure
//! (the driver reports it as inconclusive), never a silently dropped path.
#![allow(dead_code, unused_imports, clippy::all, unreachable_pub)]

use std::marker::PhantomData;

pub const NSLOT: usize = 8;

fn unsupported(what: &'static str) -> ! {
    panic!("VS-UNSUPPORTED: {}", what)
}

/// Keys that are small non-negative integers.
pub trait SlotKey: Copy {
    fn idx(&self) -> usize;
}
impl SlotKey for crate::Slot {
    fn idx(&self) -> usize {
        self.inner() as usize
    }
}

pub struct BTreeMap<K, V> {
    e: [Option<(K, V)>; NSLOT],
}

macro_rules! each {
    ($i:ident, $body:block) => {
        each!(@go $i, $body, [0, 1, 2, 3, 4, 5, 6, 7]);
    };
    (@go $i:ident, $body:block, [$($k:literal),*]) => {
        $( { let $i: usize = $k; $body } )*
    };
}

impl<K: SlotKey, V> Default for BTreeMap<K, V> {
    fn default() -> Self {
        Self::new()
    }
}

impl<K: SlotKey, V> BTreeMap<K, V> {
    pub fn new() -> Self {
        Self { e: [None, None, None, None, None, None, None, None] }
    }
    fn index_of(k: &K) -> usize {
        let i = k.idx();
        if i >= NSLOT {
            unsupported("slot outside the stand-in map's range");
        }
        i
    }
    pub fn get(&self, k: &K) -> Option<&V> {
        let p = Self::index_of(k);
        // select among constant element addresses (never a reference with a symbolic offset)
        each!(i, {
            if i == p {
                return match &self.e[i] {
                    Some((_, v)) => Some(v),
                    None => None,
                };
            }
        });
        None
    }
    pub fn contains_key(&self, k: &K) -> bool {
        self.get(k).is_some()
    }
    pub fn len(&self) -> usize {
        let mut n = 0;
        each!(i, {
            n += self.e[i].is_some() as usize;
        });
        n
    }
    pub fn insert(&mut self, k: K, v: V) -> Option<V> {
        let p = Self::index_of(&k);
        let mut old = None;
        each!(i, {
            if i == p {
                old = self.e[i].take();
                self.e[i] = Some((k, v));
                return old.map(|(_, v)| v);
            }
        });
        None
    }
    pub fn entry(&mut self, k: K) -> Entry<'_, K, V> {
        let p = Self::index_of(&k);
        each!(i, {
            if i == p {
                return Entry { slot: &mut self.e[i], key: k };
            }
        });
        unsupported("unreachable")
    }
    /// Moves every entry with key `>= k` into the returned map.
    pub fn split_off(&mut self, k: &K) -> Self {
        let from = k.idx();
        let mut out = Self::new();
        each!(i, {
            if i >= from {
                out.e[i] = self.e[i].take();
            }
        });
        out
    }
    pub fn iter(&self) -> Iter<'_, K, V> {
        Iter { map: self, next: 0 }
    }
    pub fn keys(&self) -> impl Iterator<Item = &K> {
        self.iter().map(|(k, _)| k)
    }
}

pub struct Entry<'a, K, V> {
    slot: &'a mut Option<(K, V)>,
    key: K,
}
impl<'a, K, V> Entry<'a, K, V> {
    pub fn or_default(self) -> &'a mut V
    where
        V: Default,
    {
        let Entry { slot, key } = self;
        if slot.is_none() {
            *slot = Some((key, V::default()));
        }
        match slot {
            Some((_, v)) => v,
            None => unsupported("unreachable"),
        }
    }
}

/// Ascending key order = ascending index.
pub struct Iter<'a, K, V> {
    map: &'a BTreeMap<K, V>,
    next: usize,
}
impl<'a, K, V> Iterator for Iter<'a, K, V> {
    type Item = (&'a K, &'a V);
    fn next(&mut self) -> Option<Self::Item> {
        let map = self.map;
        each!(i, {
            if i >= self.next {
                if let Some((k, v)) = &map.e[i] {
                    self.next = i + 1;
                    return Some((k, v));
                }
            }
        });
        self.next = NSLOT;
        None
    }
}

impl<K: SlotKey, V> FromIterator<(K, V)> for BTreeMap<K, V> {
    fn from_iter<I: IntoIterator<Item = (K, V)>>(it: I) -> Self {
        let mut m = Self::new();
        for (k, v) in it {
            m.insert(k, v);
        }
        m
    }
}

// ---------------------------------------------------------------------------------------------
pub const NSET: usize = 2;

pub struct BTreeSet<T> {
    e: [Option<T>; NSET],
}
impl<T> Default for BTreeSet<T> {
    fn default() -> Self {
        Self { e: [None, None] }
    }
}
impl<T: PartialEq> BTreeSet<T> {
    pub fn new() -> Self {
        Self::default()
    }
    pub fn contains(&self, t: &T) -> bool {
        let a = match &self.e[0] {
            Some(x) => x == t,
            None => false,
        };
        let b = match &self.e[1] {
            Some(x) => x == t,
            None => false,
        };
        a || b
    }
    pub fn insert(&mut self, t: T) -> bool {
        if self.contains(&t) {
            return false;
        }
        if self.e[0].is_none() {
            self.e[0] = Some(t);
        } else if self.e[1].is_none() {
            self.e[1] = Some(t);
        } else {
            unsupported("more than 2 elements in a parents_ready set");
        }
        true
    }
    pub fn len(&self) -> usize {
        self.e[0].is_some() as usize + self.e[1].is_some() as usize
    }
}
impl<T: PartialEq> FromIterator<T> for BTreeSet<T> {
    fn from_iter<I: IntoIterator<Item = T>>(it: I) -> Self {
        let mut s = Self::new();
        for t in it {
            s.insert(t);
        }
        s
    }
}

// ---------------------------------------------------------------------------------------------
/// Bounded typed vector (what `check_pending_blocks` collects the pending slots into): at most
/// NVEC elements (a fourth is a hard failure).  The consuming iterator counts its calls
/// concretely, so a `for` loop over it is unrolled NVEC + 1 times and no further.
pub const NVEC: usize = 3;
pub struct Vec<T> {
    e: [Option<T>; NVEC],
    len: usize,
}
impl<T> Vec<T> {
    pub fn new() -> Self {
        Self { e: [None, None, None], len: 0 }
    }
    pub fn push(&mut self, t: T) {
        let p = self.len;
        if p >= NVEC {
            unsupported("stand-in vector full (more than 3 slots with a pending block)");
        }
        self.len = p + 1;
        if p == 0 {
            self.e[0] = Some(t);
        } else if p == 1 {
            self.e[1] = Some(t);
        } else {
            self.e[2] = Some(t);
        }
    }
    pub fn len(&self) -> usize {
        self.len
    }
}
impl<T> FromIterator<T> for Vec<T> {
    fn from_iter<I: IntoIterator<Item = T>>(it: I) -> Self {
        let mut v = Self::new();
        for t in it {
            v.push(t);
        }
        v
    }
}
pub struct VecIntoIter<T> {
    v: Vec<T>,
    calls: usize,
}
impl<T> Iterator for VecIntoIter<T> {
    type Item = T;
    fn next(&mut self) -> Option<T> {
        let p = self.calls;
        if p >= NVEC {
            return None;
        }
        self.calls = p + 1;
        if p >= self.v.len {
            return None;
        }
        if p == 0 {
            self.v.e[0].take()
        } else if p == 1 {
            self.v.e[1].take()
        } else {
            self.v.e[2].take()
        }
    }
}
impl<T> IntoIterator for Vec<T> {
    type Item = T;
    type IntoIter = VecIntoIter<T>;
    fn into_iter(self) -> VecIntoIter<T> {
        VecIntoIter { v: self, calls: 0 }
    }
}
