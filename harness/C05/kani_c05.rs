//! C05 harnesses (overlay module `crate::consensus::votor::kani_c05`, child of `votor`).
//!
//! Bounded event histories on a fresh node (the real `Votor::new`): an optional concrete prefix,
//! then K events whose KIND the solver chooses from the family's menu of concrete events (block
//! arrives, first shred, invalid block, timeouts, ParentReady, SafeToNotar, SafeToSkip,
//! CertCreated for every certificate type) are delivered through the real handlers
//! (`handle_blockstore_event`, `handle_timeout_event`, `handle_pool_event`).  Every vote the
//! node broadcasts is recorded; after every event the new votes are checked, in emission order,
//! against a reference monitor (`Mon`) written from the property statement - it knows only what
//! the node was shown and what it has cast so far, never votor's flags.
//!
//! How the async code is encoded under Kani (union-encoded state machines are what CBMC cannot
//! digest) is explained next to the redirections in spec.py.  Natively (replay of a
//! counterexample) nothing is redirected: real tokio channels and runtime context, real BLS
//! keys, the recording `All2All` below.
#![allow(dead_code, unused_imports, unused_variables, clippy::all, static_mut_refs)]

use std::future::Future;
use std::pin::Pin;
use std::task::{Context, Poll, Waker};

use super::*;
use std::cmp::PartialEq as PEq;
use crate::consensus::cert::kani_certstub::opaque;
use crate::consensus::kani_fix::{block_hash, fixture, Fix};
use crate::verif_std as vs;
use crate::verif_std::{vcheck, vcover};

// ---------------------------------------------------------------------------------------------
// stand-ins for tokio (Kani only): channel ends that are never used by the handlers, and a
// `spawn` that does not run the timer task
// ---------------------------------------------------------------------------------------------
#[cfg(kani)]
pub(super) mod standin {
    use std::marker::PhantomData;

    pub struct Sender<T>(PhantomData<fn() -> T>);
    pub struct Receiver<T>(PhantomData<fn() -> T>);
    impl<T> Clone for Sender<T> {
        fn clone(&self) -> Self {
            Sender(PhantomData)
        }
    }
    pub struct SendError;
    impl<T> Sender<T> {
        /// completes at once; nothing is queued (nobody reads the timeout channel in a harness)
        pub async fn send(&self, _t: T) -> Result<(), SendError> {
            Ok(())
        }
    }
    impl<T> Receiver<T> {
        pub async fn recv(&mut self) -> Option<T> {
            None
        }
    }
    pub fn channel<T>(_cap: usize) -> (Sender<T>, Receiver<T>) {
        (Sender(PhantomData), Receiver(PhantomData))
    }
    /// `Votor::new` is called with tokio's receivers by consensus.rs (never reached by a harness)
    impl<T> From<tokio::sync::mpsc::Receiver<T>> for Receiver<T> {
        fn from(_r: tokio::sync::mpsc::Receiver<T>) -> Self {
            Receiver(PhantomData)
        }
    }
    /// What `Votor::broadcast` receives under Kani: the summary of the message (see spec.py).
    pub struct Msg(Option<super::Ent>);
    impl From<crate::consensus::ConsensusMessage> for Msg {
        fn from(m: crate::consensus::ConsensusMessage) -> Self {
            let r = match &m {
                crate::consensus::ConsensusMessage::Vote(v) => {
                    super::pool_feed(v);
                    Msg(Some(super::ent_of(v)))
                }
                crate::consensus::ConsensusMessage::Cert(_) => Msg(None),
            };
            std::mem::forget(m);
            r
        }
    }
    impl From<crate::consensus::Vote> for Msg {
        fn from(v: crate::consensus::Vote) -> Self {
            super::pool_feed(&v);
            Msg(Some(super::ent_of(&v)))
        }
    }
    impl From<crate::consensus::Cert> for Msg {
        fn from(c: crate::consensus::Cert) -> Self {
            std::mem::forget(c);
            Msg(None)
        }
    }
    pub fn record(m: Msg) {
        match m.0 {
            Some(e) => super::record_vote(e),
            None => super::record_cert(),
        }
    }
    /// The timer task is not run: the future is forgotten, the arming is counted.  Timeouts
    /// are events the harness injects through `handle_timeout_event`.
    pub fn spawn<F: std::future::Future>(f: F) {
        unsafe {
            super::G.timers += 1;
        }
        std::mem::forget(f);
    }
}

/// Stub for `<BlockHash as PartialEq>::eq` (Kani only): the same comparison on four 64-bit words
/// instead of a 32-iteration `memcmp` through byte pointers (when one operand is reached through
/// a pointer with several possible targets - the state of a symbolic slot - every byte read is a
/// case split over all of them).
#[cfg(kani)]
pub(crate) fn root_eq(a: &BlockHash, b: &BlockHash) -> bool {
    // SAFETY: BlockHash is a transparent wrapper chain around [u8; 32]
    let x = unsafe { std::mem::transmute_copy::<BlockHash, [u64; 4]>(a) };
    let y = unsafe { std::mem::transmute_copy::<BlockHash, [u64; 4]>(b) };
    (x[0] == y[0]) & (x[1] == y[1]) & (x[2] == y[2]) & (x[3] == y[3])
}

/// Stub for `log::max_level` (Kani only): no logger installed, logging is off.
#[cfg(kani)]
pub(crate) fn log_off() -> log::LevelFilter {
    log::LevelFilter::Off
}

// ---------------------------------------------------------------------------------------------
// keys: under Kani the secret key is an opaque object with an identity byte and `sign` returns
// a token carrying that byte, so "signed with its own key" is checkable; natively real BLS keys
// and `check_sig`.
// ---------------------------------------------------------------------------------------------
const OWN: usize = 1; // the node's validator index (of 2)
const KEY_ID: u8 = 0xC5;

#[cfg(kani)]
fn opaque_key(id: u8) -> SecretKey {
    let mut b = [0u8; 32];
    b[0] = id;
    // SAFETY: blst SecretKey is a plain 32-byte scalar; never used by real crypto under Kani
    unsafe { std::mem::transmute::<[u8; 32], SecretKey>(b) }
}
#[cfg(kani)]
pub(crate) fn sign_id_stub<T: crate::crypto::Signable>(sk: &SecretKey, _msg: &T) -> crate::crypto::IndividualSignature {
    let id = unsafe { std::mem::transmute_copy::<SecretKey, [u8; 32]>(sk) }[0];
    let mut limbs = [0u64; 12];
    limbs[0] = id as u64;
    // SAFETY: opaque token (blst_p1_affine is 12 plain limbs), never verified
    unsafe { std::mem::transmute::<[u64; 12], crate::crypto::IndividualSignature>(limbs) }
}

// ---------------------------------------------------------------------------------------------
// recording All2All
// ---------------------------------------------------------------------------------------------
const NOTAR: u8 = 0;
const NFALL: u8 = 1;
const SKIP: u8 = 2;
const SFALL: u8 = 3;
const FINAL: u8 = 4;

/// One recorded vote.  Stored packed in one u64 (no sub-word fields behind a symbolic index).
#[derive(Clone, Copy)]
pub(crate) struct Ent {
    kind: u8,
    slot: u8,
    tag: u8,
    signer: u8,
    own_sig: bool,
}
impl Ent {
    fn pack(&self) -> u64 {
        self.kind as u64 | (self.slot as u64) << 8 | (self.tag as u64) << 16 | (self.signer as u64) << 24 | (self.own_sig as u64) << 32
    }
    fn unpack(w: u64) -> Ent {
        Ent { kind: w as u8, slot: (w >> 8) as u8, tag: (w >> 16) as u8, signer: (w >> 24) as u8, own_sig: (w >> 32) & 1 == 1 }
    }
}
const LOGCAP: usize = 16;

/// All ghost state in ONE static with a unique first field (README pitfall).
struct Ghost {
    magic: [u64; 2],
    /// votes recorded so far (emission order)
    n: usize,
    log: [u64; LOGCAP],
    certs: usize,
    timers: usize,
    overflow: bool,
    /// pool-side model of the node's own votes (harnesses that feed it): `check_slashable_offence`
    /// of the pool is asked about every vote at the moment it is broadcast
    pool: Option<crate::consensus::pool::kani_c05_reexp::OwnVotes>,
    fed: usize,
    /// the event being delivered
    cur: E,
    /// the reference monitor; consulted at the moment a vote is broadcast (the vote's kind and
    /// slot are then still the constants of the code path that cast it, which keeps the monitor
    /// almost free for CBMC; checking a symbolic log afterwards cost 80 k steps per harness)
    mon: Mon,
}
static mut G: Ghost = Ghost {
    magic: [0xc05c_05c0_5c05_0001, 0x9e37_79b9_7f4a_7c15],
    n: 0,
    log: [0; LOGCAP],
    certs: 0,
    timers: 0,
    overflow: false,
    pool: None,
    fed: 0,
    cur: E { k: 255, s: 0, t: 0, ps: 0, pt: 0 },
    mon: Mon::new(),
};

/// tag of a block hash: `block_hash(t)` -> t (0 = genesis); anything else 255
fn tag_of(h: &BlockHash) -> u8 {
    // SAFETY: BlockHash is a transparent wrapper chain around [u8; 32]
    let w = unsafe { std::mem::transmute_copy::<BlockHash, [u64; 4]>(h) };
    if w[1] == 0 && w[2] == 0 && w[3] == 0 && w[0] < 255 { w[0] as u8 } else { 255 }
}

struct RecA2A {
    #[cfg(not(kani))]
    own_pk: crate::crypto::aggsig::PublicKey,
}

#[cfg(not(kani))]
static OWN_PK: std::sync::OnceLock<crate::crypto::aggsig::PublicKey> = std::sync::OnceLock::new();

fn sig_is_own(v: &Vote) -> bool {
    #[cfg(kani)]
    {
        use crate::consensus::vote::SignedVote;
        let s = match v {
            Vote::Notar(x) => x.sig(),
            Vote::NotarFallback(x) => x.sig(),
            Vote::Skip(x) => x.sig(),
            Vote::SkipFallback(x) => x.sig(),
            Vote::Final(x) => x.sig(),
        };
        let limbs = unsafe { std::mem::transmute_copy::<crate::crypto::IndividualSignature, [u64; 12]>(s) };
        limbs[0] == KEY_ID as u64
    }
    #[cfg(not(kani))]
    {
        v.check_sig(OWN_PK.get().expect("own key registered"))
    }
}

fn ent_of(v: &Vote) -> Ent {
    let (kind, tag) = match v {
        Vote::Notar(x) => (NOTAR, tag_of(x.block_hash())),
        Vote::NotarFallback(x) => (NFALL, tag_of(x.block_hash())),
        Vote::Skip(_) => (SKIP, 0),
        Vote::SkipFallback(_) => (SFALL, 0),
        Vote::Final(_) => (FINAL, 0),
    };
    Ent { kind, slot: v.slot().inner() as u8, tag, signer: v.signer().as_usize() as u8, own_sig: sig_is_own(v) }
}
fn record_vote(e: Ent) {
    unsafe {
        let cur = G.cur;
        G.mon.check_vote(cur, e);
        if G.n < LOGCAP {
            G.log[G.n] = e.pack();
            G.n += 1;
        } else {
            G.overflow = true;
        }
    }
}
/// Shows the vote to the pool's slashing check (re-broadcasts of a standstill bundle excepted).
fn pool_feed(v: &Vote) {
    unsafe {
        if G.cur.k == STANDSTILL {
            return;
        }
        if let Some(p) = G.pool.as_mut() {
            let offence = p.feed(v);
            G.fed += 1;
            vcheck!(!offence, "the pool reports the node's own votes as a slashable combination");
        }
    }
}
fn record_cert() {
    unsafe {
        G.certs += 1;
    }
}

impl All2All for RecA2A {
    async fn broadcast(&self, msg: &ConsensusMessage) -> std::io::Result<()> {
        match msg {
            ConsensusMessage::Vote(v) => {
                pool_feed(v);
                record_vote(ent_of(v))
            }
            ConsensusMessage::Cert(_) => record_cert(),
        }
        Ok(())
    }
    async fn receive(&self) -> std::io::Result<ConsensusMessage> {
        Err(std::io::Error::other("recording mock: nothing to receive"))
    }
}

// ---------------------------------------------------------------------------------------------
// poll-once executor
// ---------------------------------------------------------------------------------------------
/// Polls a future ONCE, in place, and yields its output; a future that suspends is a harness
/// error.  Never passes the future to a function: a by-value move of a state machine costs CBMC
/// thousands of steps (measured).  Under Kani the `.await`s inside votor.rs expand to this, too
/// (spec.py explains why).
macro_rules! now {
    ($fut:expr) => {{
        let mut fut = $fut;
        let mut cx = std::task::Context::from_waker(std::task::Waker::noop());
        // SAFETY: `fut` is a local that is not moved after being pinned
        let p = unsafe { std::pin::Pin::new_unchecked(&mut fut) };
        match std::future::Future::poll(p, &mut cx) {
            std::task::Poll::Ready(v) => v,
            std::task::Poll::Pending => panic!("VS-UNSUPPORTED: a votor future suspended"),
        }
    }};
}
pub(crate) use now;
macro_rules! run {
    ($fut:expr) => {
        now!($fut)
    };
}

type V = Votor<RecA2A>;

struct World {
    votor: V,
    /// signer of the certificates the environment shows to the node
    #[cfg(kani)]
    cert_key: SecretKey,
    #[cfg(not(kani))]
    fx: Fix,
    /// native replay: `set_timeouts` calls the real `tokio::spawn`, which needs a runtime context;
    /// the (leaked, never driven) current-thread runtime stays entered for the whole test
    #[cfg(not(kani))]
    guard: tokio::runtime::EnterGuard<'static>,
    #[cfg(not(kani))]
    keep: (tokio::sync::mpsc::Sender<PoolEvent>, tokio::sync::mpsc::Sender<BlockstoreEvent>),
}

/// A fresh node: the real `Votor::new` (genesis slot pre-populated, timers of window 0 armed).
/// `with_pool`: additionally a pool-side model that is shown every vote the node casts.
fn fresh(with_pool: bool) -> World {
    unsafe {
        G.n = 0;
        G.certs = 0;
        G.timers = 0;
        G.overflow = false;
        G.mon = Mon::new();
        G.fed = 0;
        G.pool = None;
        if with_pool {
            // stakes 9 and 1: the node (index 1) alone reaches no threshold
            let pfx = fixture(&[9, 1], OWN);
            G.pool = Some(crate::consensus::pool::kani_c05_reexp::OwnVotes::new(pfx.epoch.clone()));
            std::mem::forget(pfx);
        }
    }
    #[cfg(kani)]
    {
        let (_ptx, prx) = standin::channel::<PoolEvent>(1);
        let (_btx, brx) = standin::channel::<BlockstoreEvent>(1);
        let votor = Votor::new(ValidatorIndex::new(OWN as u64), opaque_key(KEY_ID), prx, brx, Arc::new(RecA2A {}));
        World { votor, cert_key: opaque_key(0) }
    }
    #[cfg(not(kani))]
    {
        // real keys, real tokio channels; the timers are spawned on a runtime that is never driven
        // (the harness injects the timeouts itself)
        let fx = fixture(&[1, 1], OWN);
        let key = fx.sks[OWN].clone();
        let rt: &'static tokio::runtime::Runtime = Box::leak(Box::new(tokio::runtime::Builder::new_current_thread().enable_all().build().unwrap()));
        let guard = rt.enter();
        let (ptx, prx) = tokio::sync::mpsc::channel(16);
        let (btx, brx) = tokio::sync::mpsc::channel(16);
        let _ = OWN_PK.set(key.to_pk());
        let a2a = Arc::new(RecA2A { own_pk: key.to_pk() });
        let votor = Votor::new(ValidatorIndex::new(OWN as u64), key, prx, brx, a2a);
        World { votor, fx, guard, keep: (ptx, btx) }
    }
}

fn slot(s: u8) -> Slot {
    Slot::new(s as u64)
}

// ---------------------------------------------------------------------------------------------
// events (concrete descriptors; a family is a list of them)
// ---------------------------------------------------------------------------------------------
const BLOCK: u8 = 0; // block (s, t) with parent (ps, pt) reconstructed
const FIRST: u8 = 1; // first shred of slot s
const INVALID: u8 = 2; // invalid block in slot s
const TIMEOUT: u8 = 3; // Timeout(s)
const CRASHED: u8 = 4; // TimeoutCrashedLeader(s)
const PREADY: u8 = 5; // ParentReady { slot: s, parent: (ps, pt) }
const S2N: u8 = 6; // SafeToNotar((s, t))
const S2S: u8 = 7; // SafeToSkip(s)
const CNOTAR: u8 = 8; // CertCreated(notar cert for (s, t))
const CNFALL: u8 = 9; // CertCreated(notar-fallback cert for (s, t))
const CSKIP: u8 = 10; // CertCreated(skip cert for s)
const CFAST: u8 = 11; // CertCreated(fast-final cert for (s, t))
const CFINAL: u8 = 12; // CertCreated(final cert for s)
/// Standstill(s, [final cert for s], [the node's own notar vote for (1, block 1), its skip vote for slot ps])
const STANDSTILL: u8 = 13;

#[derive(Clone, Copy)]
struct E {
    k: u8,
    s: u8,
    t: u8,
    ps: u8,
    pt: u8,
}
const fn blk(s: u8, t: u8, ps: u8, pt: u8) -> E {
    E { k: BLOCK, s, t, ps, pt }
}
const fn pready(s: u8, ps: u8, pt: u8) -> E {
    E { k: PREADY, s, t: 0, ps, pt }
}
const fn ev(k: u8, s: u8) -> E {
    E { k, s, t: 0, ps: 0, pt: 0 }
}
const fn evb(k: u8, s: u8, t: u8) -> E {
    E { k, s, t, ps: 0, pt: 0 }
}

// ---------------------------------------------------------------------------------------------
// reference monitor, written from the property statement
// ---------------------------------------------------------------------------------------------
const NS: usize = 8; // slots 0..7
const NT: usize = 8; // block tags 0..7 (0 = genesis)

#[derive(Clone, Copy)]
struct Mon {
    /// the initial vote cast in the slot: 0 none, 1 skip, 2 + t notar(block t)
    init: [u8; NS],
    fin: [bool; NS],
    sf: [bool; NS],
    nf: [bool; NS],
    /// notarization certificates shown to the node: bit t = certificate for block t
    cert: [u8; NS],
    /// blocks delivered by the blockstore: 0 not delivered, else 1 + ps * 8 + pt
    bp: [[u8; NT]; NS],
    /// parents announced ready for the slot (first slots of windows): bit ps * 8 + pt
    pr: [u64; NS],
    n_notar: u8,
    n_skip: u8,
    n_final: u8,
    n_sf: u8,
    n_nf: u8,
    n_quiet: u8,
    n_ignored: u8,
    n_rebroadcast: u8,
}

impl Mon {
    /// the fresh node: genesis counts as notarized in slot 0
    const fn new() -> Mon {
        let mut m = Mon {
            init: [0; NS],
            fin: [false; NS],
            sf: [false; NS],
            nf: [false; NS],
            cert: [0; NS],
            bp: [[0; NT]; NS],
            pr: [0; NS],
            n_notar: 0,
            n_skip: 0,
            n_final: 0,
            n_sf: 0,
            n_nf: 0,
            n_quiet: 0,
            n_ignored: 0,
            n_rebroadcast: 0,
        };
        m.init[0] = 2;
        m
    }

    /// What the rest of the node guarantees about an event before it reaches votor.
    fn env_allows(&self, e: E) -> bool {
        let s = e.s as usize;
        match e.k {
            // pool (check_safe_to_notar): only once the node's own initial vote is in, and it
            // was a skip or a notar vote for another block
            S2N => self.init[s] == 1 || (self.init[s] >= 2 && self.init[s] - 2 != e.t),
            // pool (count_*_stake): only once the node's own notar vote is in
            S2S => self.init[s] >= 2,
            _ => true,
        }
    }

    /// The event is shown to the node (before the handler runs).
    fn note_event(&mut self, e: E) {
        let s = e.s as usize;
        match e.k {
            BLOCK => self.bp[s][e.t as usize] = 1 + e.ps * 8 + e.pt,
            PREADY => self.pr[s] |= 1u64 << (e.ps * 8 + e.pt),
            CNOTAR => self.cert[s] |= 1u8 << e.t,
            _ => {}
        }
    }

    /// Checks one vote against the rules, given everything cast and shown before it.
    fn check_vote(&mut self, e: E, x: Ent) {
        vcheck!(x.signer == OWN as u8, "vote does not carry the node's own validator index");
        vcheck!(x.own_sig, "vote is not signed with the node's own key");
        vcheck!((x.slot as usize) < NS && (x.tag as usize) < NT, "vote for a slot or block nobody told the node about");
        let s = x.slot as usize;
        let t = x.tag as usize;
        if e.k == STANDSTILL {
            // not a new vote: the bundle's votes are re-broadcast as they are
            vcheck!((x.kind == NOTAR && x.slot == 1 && x.tag == 1) || (x.kind == SKIP && x.slot == e.ps), "standstill: a vote outside the bundle is broadcast");
            self.n_rebroadcast += 1;
            return;
        }
        match x.kind {
            NOTAR => {
                vcheck!(self.init[s] == 0, "second initial vote in a slot (notar after notar or skip)");
                let b = self.bp[s][t];
                vcheck!(b != 0, "notar vote for a block the node never received");
                let (ps, pt) = ((b - 1) / 8, (b - 1) % 8);
                let ok = if s % 4 == 0 { self.pr[s] >> (ps * 8 + pt) & 1 == 1 } else { ps as usize + 1 == s && self.init[s - 1] == 2 + pt };
                vcheck!(ok, "notar vote for a block whose parent is not acceptable");
                self.init[s] = 2 + x.tag;
                self.n_notar += 1;
            }
            SKIP => {
                vcheck!(self.init[s] == 0, "second initial vote in a slot (skip after notar or skip)");
                vcheck!(!self.fin[s], "skip vote after a final vote");
                self.init[s] = 1;
                self.n_skip += 1;
            }
            FINAL => {
                vcheck!(self.init[s] >= 2, "final vote in a slot where the node did not vote notar");
                vcheck!(self.init[s] >= 2 && self.cert[s] >> (self.init[s] - 2) & 1 == 1, "final vote without having seen the notarization certificate of the block it notarized");
                vcheck!(self.init[s] != 1 && !self.sf[s] && !self.nf[s], "final vote in a slot with a skip, skip-fallback or notar-fallback vote");
                self.fin[s] = true;
                self.n_final += 1;
            }
            SFALL => {
                vcheck!(self.init[s] != 0, "skip-fallback vote in a slot where the node has not voted");
                vcheck!(e.k == S2S && e.s == x.slot, "skip-fallback vote without safe-to-skip for the slot");
                vcheck!(!self.fin[s], "skip-fallback vote after a final vote");
                self.sf[s] = true;
                self.n_sf += 1;
            }
            _ => {
                vcheck!(x.kind == NFALL, "unknown vote kind");
                vcheck!(self.init[s] != 0, "notar-fallback vote in a slot where the node has not voted");
                vcheck!(e.k == S2N && e.s == x.slot && e.t == x.tag, "notar-fallback vote without safe-to-notar for the block");
                vcheck!(!self.fin[s], "notar-fallback vote after a final vote");
                self.nf[s] = true;
                self.n_nf += 1;
            }
        }
    }
}

// ---------------------------------------------------------------------------------------------
// delivering one event through the real handler
// ---------------------------------------------------------------------------------------------
/// kind: 0 notar, 1 notar-fallback, 2 skip, 3 fast-final, 4 final.  Under Kani an opaque object
/// of that type for (slot, block); natively a real certificate signed by validator 0.
fn mk_cert(w: &World, kind: u8, s: u8, t: u8) -> Cert {
    #[cfg(kani)]
    {
        opaque(kind, slot(s), block_hash(t), &[], &w.cert_key)
    }
    #[cfg(not(kani))]
    {
        opaque(kind, slot(s), block_hash(t), w.fx.epoch.epoch_info().validators(), &w.fx.sks[0])
    }
}

fn deliver(w: &mut World, e: E) {
    match e.k {
        BLOCK => {
            let ev = BlockstoreEvent::Block { slot: slot(e.s), block_info: BlockInfo { hash: block_hash(e.t), parent: (slot(e.ps), block_hash(e.pt)) } };
            run!(w.votor.handle_blockstore_event(ev))
        }
        FIRST => run!(w.votor.handle_blockstore_event(BlockstoreEvent::FirstShred(slot(e.s)))),
        INVALID => run!(w.votor.handle_blockstore_event(BlockstoreEvent::InvalidBlock(slot(e.s)))),
        TIMEOUT => run!(w.votor.handle_timeout_event(VotorTimeout::Timeout(slot(e.s)))),
        CRASHED => run!(w.votor.handle_timeout_event(VotorTimeout::TimeoutCrashedLeader(slot(e.s)))),
        PREADY => run!(w.votor.handle_pool_event(PoolEvent::ParentReady { slot: slot(e.s), parent: (slot(e.ps), block_hash(e.pt)) })),
        S2N => run!(w.votor.handle_pool_event(PoolEvent::SafeToNotar((slot(e.s), block_hash(e.t))))),
        S2S => run!(w.votor.handle_pool_event(PoolEvent::SafeToSkip(slot(e.s)))),
        STANDSTILL => {
            let certs = vec![mk_cert(w, 4, e.s, 0)];
            let key = &w.votor.voting_key;
            let id = w.votor.validator_index;
            let votes = vec![Vote::new_notar(slot(1), block_hash(1), key, id), Vote::new_skip(slot(e.ps), key, id)];
            run!(w.votor.handle_pool_event(PoolEvent::Standstill(slot(e.s), certs, votes)))
        }
        CNOTAR => deliver_cert(w, 0, e.s, e.t),
        CNFALL => deliver_cert(w, 1, e.s, e.t),
        CSKIP => deliver_cert(w, 2, e.s, e.t),
        CFAST => deliver_cert(w, 3, e.s, e.t),
        _ => deliver_cert(w, 4, e.s, e.t),
    }
}

/// `PoolEvent::CertCreated`.  Natively through `handle_pool_event`.  Under Kani the two things
/// `handle_pool_event` does with it are called one after the other - the real
/// `should_ignore_pool_event`, then the real `handle_cert_created`: `PoolEvent` keeps its
/// discriminant in a niche of the embedded `Cert`, CBMC does not see a constant there and would
/// execute every arm of `handle_pool_event` (3 M steps, measured).
fn deliver_cert(w: &mut World, kind: u8, s: u8, t: u8) {
    #[cfg(kani)]
    {
        // two equal certificate objects: one inside the event for `should_ignore_pool_event`, one for
        // `handle_cert_created` (a certificate taken back out of the event has lost its constant
        // discriminant, too)
        let ev = PoolEvent::CertCreated(mk_cert(w, kind, s, t));
        let ignored = w.votor.should_ignore_pool_event(&ev);
        std::mem::forget(ev);
        if !ignored {
            let c = mk_cert(w, kind, s, t);
            run!(w.votor.handle_cert_created(c));
        }
    }
    #[cfg(not(kani))]
    {
        let c = mk_cert(w, kind, s, t);
        run!(w.votor.handle_pool_event(PoolEvent::CertCreated(c)));
    }
}

/// One step of a history: the environment may produce `e` now; it is shown to the node; the
/// votes the node casts in response are checked as they are broadcast (`record_vote`).
fn step(w: &mut World, e: E) {
    let (votes_before, certs_before) = unsafe {
        vs::assume(G.mon.env_allows(e));
        G.mon.note_event(e);
        G.cur = e;
        (G.n, G.certs)
    };
    deliver(w, e);
    unsafe {
        vcheck!(!G.overflow, "VS-UNSUPPORTED: vote log full");
        if G.n == votes_before {
            G.mon.n_quiet += 1;
        }
        if e.k == STANDSTILL {
            // never ignored, whatever the state of the slot it names
            vcheck!(G.certs == certs_before + 1 && G.n == votes_before + 2, "standstill bundle not re-broadcast exactly");
        } else if e.k >= CNOTAR {
            vcheck!(G.certs <= certs_before + 1, "certificate broadcast more than once");
            if G.certs == certs_before {
                G.mon.n_ignored += 1;
            }
        } else {
            vcheck!(G.certs == certs_before, "certificate broadcast without a certificate event");
        }
    }
}

/// A concrete prefix, then K events each chosen by the solver among the family's menu.
macro_rules! history {
    ($name:ident, prefix [$($p:expr),* $(,)?], $k:literal of [$($e:expr),+ $(,)?], |$m:ident| $covers:block) => {
        history!($name, pool false, prefix [$($p),*], $k of [$($e),+], |$m| $covers);
    };
    ($name:ident, pool $pool:literal, prefix [$($p:expr),* $(,)?], $k:literal of [$($e:expr),+ $(,)?], |$m:ident| $covers:block) => {
        #[cfg_attr(kani, kani::proof)]
        #[cfg_attr(kani, kani::stub(crate::crypto::aggsig::SecretKey::sign, sign_id_stub))]
        #[cfg_attr(kani, kani::stub(log::max_level, log_off))]
        #[cfg_attr(kani, kani::stub(<crate::crypto::merkle::DoubleMerkleRoot as PEq>::eq, root_eq))]
        #[cfg_attr(kani, kani::unwind(10))]
        #[cfg_attr(verif_replay, test)]
        fn $name() {
            const MENU: &[E] = &[$($e),+];
            let mut w = fresh($pool);
            $( step(&mut w, $p); )*
            let mut i = 0;
            while i < $k {
                let sel = vs::any_below(MENU.len() as u8) as usize;
                let mut idx = 0;
                $(
                    if sel == idx {
                        step(&mut w, $e);
                    }
                    idx += 1;
                )+
                let _ = idx;
                i += 1;
            }
            let $m = unsafe { &G.mon };
            $covers;
            std::mem::forget(w);
        }
    };
}

// ---------------------------------------------------------------------------------------------
// families.  Window 0 (slots 1..3, parent of slot 1 = genesis): blocks A1 = 1, B1 = 2 in slot 1,
// A2 = 3 (child of A1), B2 = 4 (child of B1) in slot 2, A3 = 5 (child of A2) in slot 3.
// Window 1 (slots 4..7): candidate parents P = 6, Q = 7 in slot 3; blocks A4 = 1 (child of P),
// B4 = 2 (child of Q) in slot 4, A5 = 3 (child of A4) in slot 5, A6 = 4 (child of A5) in slot 6.
// ---------------------------------------------------------------------------------------------
const A1: E = blk(1, 1, 0, 0);
const B1: E = blk(1, 2, 0, 0);
const A2: E = blk(2, 3, 1, 1);
const B2: E = blk(2, 4, 1, 2);
const A3: E = blk(3, 5, 2, 3);
const A4: E = blk(4, 1, 3, 6);
const B4: E = blk(4, 2, 3, 7);
const A5: E = blk(5, 3, 4, 1);
const A6: E = blk(6, 4, 5, 3);
const RDY_P: E = pready(4, 3, 6);
const RDY_Q: E = pready(4, 3, 7);

// blocks arriving in any order, two competing chains
history!(c05_g_blocks_k2, prefix [], 2 of [A1, B1, A2, B2], |m| {
    vcover!(m.n_notar >= 2, "two notar votes are cast");
    vcover!(m.n_quiet >= 1, "a block is not voted for");
});
history!(c05_g_blocks_k3, prefix [], 3 of [A1, B1, A2, B2], |m| {
    vcover!(m.n_notar >= 2 && m.n_quiet >= 1, "two notar votes are cast, one block is not voted for");
    vcover!(m.n_quiet >= 2, "two blocks are not voted for");
});
// one chain over the whole window, in any order (pending blocks, cascade)
history!(c05_g_chain_k3, prefix [], 3 of [A1, A2, A3], |m| {
    vcover!(m.n_notar >= 3, "three notar votes are cast");
    vcover!(m.n_quiet >= 2, "two blocks wait for their parents");
});
// blocks that do not build on the preceding slot (a misbehaving leader: G3 = slot 3 on A1 with slot 2
// left out, G2 = slot 2 on genesis with slot 1 left out): in a non-first slot only the child of the
// block notarized in the preceding slot may be notarized
const G3: E = blk(3, 6, 1, 1);
const G2: E = blk(2, 7, 0, 0);
history!(c05_g_gap_k2, prefix [A1], 2 of [G3, G2, A2, ev(TIMEOUT, 2)], |m| {
    vcover!(m.n_notar >= 2, "slot 2 is notarized on the block notarized in slot 1");
    vcover!(m.n_quiet >= 2, "blocks that do not build on the preceding slot are not voted for");
});
// blocks against timeouts and invalid blocks
history!(c05_g_timeouts_k2, prefix [], 2 of [A1, A2, ev(TIMEOUT, 1), ev(TIMEOUT, 3), ev(INVALID, 2), ev(FIRST, 1)], |m| {
    vcover!(m.n_notar >= 1 && m.n_skip >= 1, "a notar vote and a skip vote are cast");
    vcover!(m.n_skip >= 3, "the whole window is skipped");
});
history!(c05_g_timeouts_k3, prefix [], 3 of [A1, A2, ev(TIMEOUT, 1), ev(TIMEOUT, 3), ev(INVALID, 2)], |m| {
    vcover!(m.n_notar >= 2 && m.n_skip >= 1, "two notar votes and a skip vote are cast");
    vcover!(m.n_quiet >= 1, "an event casts no vote");
});
// finalization against fallback votes, slot 1 notarized in the prefix
history!(c05_g_final_k2, prefix [A1], 2 of [evb(CNOTAR, 1, 1), evb(CNOTAR, 1, 2), evb(S2N, 1, 2), ev(S2S, 1), A2, ev(TIMEOUT, 2)], |m| {
    vcover!(m.n_final >= 1, "a final vote is cast");
    vcover!(m.n_nf >= 1, "a notar-fallback vote is cast");
    vcover!(m.n_sf >= 1, "a skip-fallback vote is cast");
    vcover!(m.n_nf + m.n_sf >= 1 && m.n_final == 0 && m.cert[1] & 2 != 0, "no final vote after a fallback vote although the certificate is there");
});
history!(c05_g_final_k3, prefix [A1], 3 of [evb(CNOTAR, 1, 1), evb(CNOTAR, 1, 2), evb(S2N, 1, 2), ev(S2S, 1), A2, evb(CNOTAR, 2, 3)], |m| {
    vcover!(m.n_final >= 2, "two final votes are cast");
    vcover!(m.n_nf >= 1 && m.n_sf >= 1, "both fallback votes are cast");
});
// certificates arriving before the blocks they name, two competing blocks in slot 1
history!(c05_g_certfirst_k2, prefix [], 2 of [evb(CNOTAR, 1, 1), evb(CNOTAR, 1, 2), A1, B1], |m| {
    vcover!(m.n_final >= 1, "a final vote is cast for a block whose certificate arrived first");
    vcover!(m.n_notar >= 1 && m.n_final == 0 && m.cert[1] != 0, "a block is notarized while only the other block's certificate is there: no final vote");
});
// after the final vote: the slot is retired
history!(c05_g_retired_k2, prefix [A1, evb(CNOTAR, 1, 1)], 2 of [evb(S2N, 1, 2), ev(S2S, 1), ev(TIMEOUT, 2), ev(INVALID, 1), B1, evb(CNOTAR, 1, 1), ev(CFINAL, 1)], |m| {
    vcover!(m.n_final >= 1, "a final vote is cast");
    vcover!(m.n_skip >= 1, "the rest of the window is skipped");
    vcover!(m.n_quiet >= 2, "two events cast no vote");
});
// skipped slot: fallback votes, late blocks and certificates
history!(c05_g_skipped_k2, prefix [ev(TIMEOUT, 1)], 2 of [A1, evb(S2N, 1, 1), evb(S2N, 1, 2), evb(CNOTAR, 1, 1), evb(CNFALL, 1, 1), ev(CSKIP, 1)], |m| {
    vcover!(m.n_nf >= 2, "two notar-fallback votes are cast");
    vcover!(m.n_ignored == 0 && m.n_quiet >= 1, "a certificate is re-broadcast without a vote");
});
// window 1: parents announced ready, two candidate parents
history!(c05_w_parent_k2, prefix [], 2 of [RDY_P, RDY_Q, A4, B4, A5, ev(CRASHED, 4)], |m| {
    vcover!(m.n_notar >= 1, "a notar vote is cast");
    vcover!(m.n_skip >= 4, "the window is skipped");
    vcover!(m.n_quiet >= 1, "an event casts no vote");
});
history!(c05_w_parent_k3, prefix [], 3 of [RDY_P, A4, A5, ev(TIMEOUT, 4)], |m| {
    vcover!(m.n_notar >= 2, "two notar votes are cast in one step (pending blocks)");
    vcover!(m.n_skip >= 4 && m.n_quiet >= 2, "a pending block is not voted for after the window was skipped");
});
history!(c05_w_crashed_k2, prefix [RDY_P], 2 of [ev(FIRST, 4), ev(CRASHED, 4), A4, ev(TIMEOUT, 4), ev(TIMEOUT, 6)], |m| {
    vcover!(m.n_notar >= 1 && m.n_skip >= 3, "a notar vote, then the rest of the window is skipped");
    vcover!(m.n_quiet >= 1, "an event casts no vote");
});
// window 1 with finalization certificates: pruning and events for old slots
history!(c05_w_prune_k2, prefix [RDY_P, A4], 2 of [ev(CFINAL, 5), evb(CFAST, 4, 1), evb(CNOTAR, 4, 1), A5, ev(TIMEOUT, 5), ev(TIMEOUT, 6), evb(S2N, 4, 2)], |m| {
    vcover!(m.n_final >= 1, "a final vote is cast");
    vcover!(m.n_skip >= 1, "a skip vote is cast");
    vcover!(m.n_quiet >= 1, "an event casts no vote");
});

// standstill recovery bundles are re-broadcast whatever the state of the slot they name
history!(c05_standstill_k2, prefix [A1], 2 of [evb(CNOTAR, 1, 1), ev(CFINAL, 5), E { k: STANDSTILL, s: 1, t: 0, ps: 2, pt: 0 }, E { k: STANDSTILL, s: 0, t: 0, ps: 3, pt: 0 }], |m| {
    vcover!(m.n_rebroadcast >= 2 && m.n_final >= 1, "a bundle is re-broadcast for a retired slot");
    vcover!(m.n_rebroadcast >= 2 && m.n_ignored == 0 && m.n_final == 0 && m.n_quiet == 0, "a bundle is re-broadcast for a pruned slot");
    vcover!(m.n_rebroadcast >= 4, "two bundles are re-broadcast");
});
// the pool's own slashing check sees every vote of the run
history!(c05_slash_final_k2, pool true, prefix [A1], 2 of [evb(CNOTAR, 1, 1), evb(S2N, 1, 2), ev(S2S, 1), ev(TIMEOUT, 2), A2], |m| {
    vcover!(m.n_final >= 1 && m.n_skip >= 1, "final and skip votes are shown to the pool");
    vcover!(m.n_nf >= 1 && m.n_sf >= 1, "both fallback votes are shown to the pool");
});
history!(c05_slash_skip_k2, pool true, prefix [], 2 of [A1, ev(TIMEOUT, 1), evb(S2N, 1, 1), evb(CNOTAR, 1, 1)], |m| {
    vcover!(m.n_skip >= 3 && m.n_nf >= 1, "skip and notar-fallback votes are shown to the pool");
    vcover!(m.n_notar >= 1 && m.n_final >= 1, "notar and final votes are shown to the pool");
});

// deeper histories (thorough tier)
history!(c05_g_final_k4, prefix [A1], 4 of [evb(CNOTAR, 1, 1), evb(S2N, 1, 2), ev(S2S, 1), A2, evb(CNOTAR, 2, 3)], |m| {
    vcover!(m.n_final >= 2, "two final votes are cast");
    vcover!(m.n_nf >= 1 && m.n_sf >= 1 && m.n_notar >= 2, "both fallback votes in slot 1, notar vote in slot 2");
});
history!(c05_g_retired_k3, prefix [A1, evb(CNOTAR, 1, 1)], 3 of [evb(S2N, 1, 2), ev(S2S, 1), ev(TIMEOUT, 2), ev(INVALID, 1), B1, evb(CNOTAR, 1, 1), A2], |m| {
    vcover!(m.n_final >= 1 && m.n_notar >= 2, "slot 2 is notarized after slot 1 was finalized");
    vcover!(m.n_quiet >= 3, "three events cast no vote");
});
history!(c05_g_skipped_k3, prefix [ev(TIMEOUT, 1)], 3 of [A1, evb(S2N, 1, 1), evb(S2N, 1, 2), evb(CNOTAR, 1, 1), A2, ev(CSKIP, 1)], |m| {
    vcover!(m.n_nf >= 2, "two notar-fallback votes are cast");
    vcover!(m.n_quiet >= 3, "three events cast no vote");
});
history!(c05_w_prune_k3, prefix [RDY_P, A4], 3 of [ev(CFINAL, 5), evb(CNOTAR, 4, 1), A5, ev(TIMEOUT, 5), ev(TIMEOUT, 6), evb(S2N, 4, 2)], |m| {
    vcover!(m.n_final >= 1 && m.n_skip >= 1, "a final vote and a skip vote are cast");
    vcover!(m.n_quiet >= 2, "two events cast no vote");
});
