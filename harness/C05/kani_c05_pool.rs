//! Overlay module `crate::consensus::pool::slot_state::kani_c05_pool` (child of the pool's
//! `slot_state`: sees `SlotState::check_slashable_offence` and the vote store).
//!
//! The pool-side view of ONE validator's votes: every vote the node under test broadcasts is
//! shown to the real `check_slashable_offence` of the slot's pool state, which holds exactly the
//! votes the node broadcast before (stored the way `add_vote` stores them; stake counting and
//! certificate creation, which `add_vote` also does, are not run).
#![allow(dead_code, unused_imports, clippy::all)]

use super::*;

const NSLOTS: usize = 8;

pub(crate) struct OwnVotes {
    epoch: Arc<ValidatorEpochInfo>,
    st: [Option<SlotState>; NSLOTS],
}

impl OwnVotes {
    pub(crate) fn new(epoch: Arc<ValidatorEpochInfo>) -> Self {
        Self { epoch, st: [None, None, None, None, None, None, None, None] }
    }

    /// Returns whether the pool reports `vote` as a slashable offence given the votes fed
    /// before; then stores it.
    pub(crate) fn feed(&mut self, vote: &Vote) -> bool {
        let slot = vote.slot();
        let s = slot.inner() as usize;
        assert!(s < NSLOTS, "VS-UNSUPPORTED: vote for a slot outside the pool-side model");
        let v = vote.signer().as_usize();
        if self.st[s].is_none() {
            // no drop of the (empty) old value: CBMC would execute the drop glue of a whole SlotState
            // SAFETY: the old value is `None`
            unsafe { std::ptr::write(&mut self.st[s], Some(empty_state(slot, self.epoch.clone()))) };
        }
        let st = self.st[s].as_mut().unwrap();
        let offence = st.check_slashable_offence(vote).is_some();
        match vote.clone() {
            Vote::Notar(x) => st.votes.notar[v] = Some(x),
            Vote::NotarFallback(x) => {
                let h = x.block_hash().clone();
                st.votes.notar_fallback[v].insert(h, x);
            }
            Vote::Skip(x) => st.votes.skip[v] = Some(x),
            Vote::SkipFallback(x) => st.votes.skip_fallback[v] = Some(x),
            Vote::Final(x) => st.votes.finalize[v] = Some(x),
        }
        offence
    }
}

/// `SlotState::new` for an epoch of NVAL validators, written out: the real constructor sizes
/// its vote tables from the validator list behind an `Arc`, which CBMC cannot see through (the
/// `vec![None; n]` loops then run to the unwinding bound).
const NVAL: usize = 2;
fn empty_state(slot: Slot, epoch_info: Arc<ValidatorEpochInfo>) -> SlotState {
    #[cfg(kani)]
    {
        SlotState {
            votes: SlotVotes {
                notar: vec![None, None],
                notar_fallback: vec![BTreeMap::new(), BTreeMap::new()],
                skip: vec![None, None],
                skip_fallback: vec![None, None],
                finalize: vec![None, None],
            },
            voted_stakes: SlotVotedStake::default(),
            certificates: SlotCertificates::default(),
            parents: SortedVecMap::new(),
            pending_safe_to_notar: SortedVecSet::new(),
            sent_safe_to_notar: SortedVecSet::new(),
            sent_safe_to_skip: false,
            slot,
            epoch_info,
        }
    }
    #[cfg(not(kani))]
    {
        assert!(epoch_info.epoch_info().validators().len() == NVAL);
        SlotState::new(slot, epoch_info)
    }
}
