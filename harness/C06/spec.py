MOD = "consensus::pool::slot_state::kani_c06"
SS = "src/consensus/pool/slot_state.rs"
COLL = {"src": "verif_coll.rs", "dest": "src/verif_coll.rs", "decl_in": "src/lib.rs", "decl": "pub mod verif_coll;"}
FIX = {"src": "kani_fix.rs", "dest": "src/consensus/kani_fix.rs", "decl_in": "src/consensus.rs", "decl": "pub(crate) mod kani_fix;"}
AGG = {"src": "kani_aggstub.rs", "dest": "src/crypto/aggsig/kani_aggstub.rs", "decl_in": "src/crypto/aggsig.rs", "decl": "pub(crate) mod kani_aggstub;"}
CERT = {"src": "kani_certstub.rs", "dest": "src/consensus/cert/kani_certstub.rs", "decl_in": "src/consensus/cert.rs", "decl": "pub(crate) mod kani_certstub;"}
SLOTFIX = {"src": "kani_slotfix.rs", "dest": "src/consensus/pool/slot_state/kani_slotfix.rs", "decl_in": SS, "decl": "mod kani_slotfix;"}
KINDS = ["notar", "nfallback", "skip", "sfallback", "final"]
import importlib.util, os
_c3 = importlib.util.spec_from_file_location("c03spec", os.path.join(os.path.dirname(os.path.dirname(os.path.abspath(__file__))), "C03", "spec.py")); _C3 = importlib.util.module_from_spec(_c3); _c3.loader.exec_module(_C3)
C03_BUILD = {"overlays": _C3.SPEC["overlays"], "redirects": _C3.SPEC["redirects"], "coll_cap": _C3.SPEC["coll_cap"]}

def redirect(file, line, repl):
    import re
    return {"file": file, "pattern": r"^" + re.escape(line) + r"$", "replacement": "#[cfg(not(kani))]\n" + line + "\n#[cfg(kani)]\n" + repl, "count": 1}

SLOT_STATE_REDIRECTS = [
    redirect(SS, "use std::collections::BTreeMap;", "use crate::verif_coll::BTreeMap;"),
    redirect(SS, "use smallvec::SmallVec;", "use crate::verif_coll::SmallVec;"),
    redirect(SS, "use super::sorted_vec::{SortedVecMap, SortedVecSet};", "use crate::verif_coll::{SortedVecMap, SortedVecSet};"),
]
STUBS = ["crypto::aggsig::SecretKey::sign"]
Q, T = ["quick", "thorough"], ["thorough"]
TRIG = [("notar_vote", "a notar vote arrives last"), ("skip_vote", "a skip vote arrives last"), ("own_notar_a", "the node's own notar(A) vote arrives last"),
        ("own_notar_b", "the node's own notar(B) vote arrives last"), ("own_skip", "the node's own skip vote arrives last"), ("parent_certified", "the parent's certificate arrives last")]

_pc = importlib.util.spec_from_file_location("pool_common", os.path.join(os.path.dirname(os.path.dirname(os.path.abspath(__file__))), "pool_common.py")); PC = importlib.util.module_from_spec(_pc); _pc.loader.exec_module(PC)
POOL_BUILD = {"overlays": PC.OVERLAYS + [{"src": "C06/kani_c06_cut.rs", "dest": "src/consensus/pool/slot_state/kani_c06_cut.rs", "decl_in": SS, "decl": "pub(crate) mod kani_c06_cut;"},
                                         {"src": "C06/kani_c06_pool.rs", "dest": "src/consensus/pool/kani_c06_pool.rs", "decl_in": PC.POOL, "decl": "mod kani_c06_pool;"}],
              # std Vec in pool.rs (the list of blocks waiting for one parent) -> typed contiguous stand-in: the length and the
              # elements of a std Vec behind its untyped heap block are symbolic to CBMC, the wake-up loop is then unrolled
              # to the unwind bound with a symbolic child slot each time (measured: > 16 min of symbolic execution)
              # the list of blocks waiting for one parent: typed contiguous stand-in instead of std Vec, for this field only (growing a
              # std Vec inside the map - realloc with a symbolic capacity - does not finish; redirecting every Vec of pool.rs bloats PoolEvent)
              "redirects": [{"file": PC.POOL, "pattern": r"^    s2n_waiting_parent_cert: BTreeMap<BlockId, Vec<BlockId>>,$",
                             "replacement": "    #[cfg(not(kani))]\n    s2n_waiting_parent_cert: BTreeMap<BlockId, Vec<BlockId>>,\n    #[cfg(kani)]\n    s2n_waiting_parent_cert: BTreeMap<BlockId, crate::verif_coll::tvec::Vec<BlockId>>,", "count": 1, "optional": True}] + PC.REDIRECTS, "coll_cap": 3}
POOL_TIERS = {}  # filled below once a harness has been observed to pass on the unchanged tree
S2S_TIERS = {}
def _wake(n, d):
    return {"name": n, "path": "consensus::pool::kani_c06_pool", "tiers": POOL_TIERS.get(n, T if os.environ.get("VERIF_EXPERIMENTAL") else []), "role": "pool hand-over/parent certificate and child block, " + d, "build": POOL_BUILD, "covers": 1,
            "stubs": [PC.SIGN_STUB, "log::max_level", "consensus::pool::PoolImpl::send_votor_event", "consensus::pool::PoolImpl::send_repair", "consensus::pool::PoolImpl::send_parent_ready_events", "consensus::pool::slot_state::SlotState::notify_parent_certified", "consensus::pool::PoolImpl::handle_finalization",
                      "ParentReadyTracker::mark_notar_fallback", "ParentReadyTracker::handle_finalization"], "timeout": {"quick": 900, "thorough": 1800}, "mem_gb": 24, "cbmc_args": PC.CBMC,
            "functions": ["PoolImpl::{add_block,add_cert,add_valid_cert,slot_state}", "SlotState::{notify_parent_known,add_cert,is_notar_fallback_or_stronger}", "FinalityTracker::{add_parent,mark_notarized,mark_fast_finalized}"],
            "bounds": "fresh pool, 2 validators; parent block in slot 1, child block(s) in slot 2 (and 3); " + d + "; concrete scenario per harness (the finite shape space kind x order x number of children is enumerated)"}
WAKE = [("c06_pool_wake_notar_one", "one block waits; the parent's notarization certificate arrives (one add_cert)"), ("c06_pool_wake_nfallback_one", "one block waits; the parent's notar-fallback certificate arrives"),
        ("c06_pool_wake_fastfinal_one", "one block waits; the parent's fast-finalization certificate arrives"), ("c06_pool_wake_notar_two", "two blocks (slots 2, 3) wait for the same parent; its notarization certificate arrives"),
        ("c06_pool_wake_nfallback_two", "two blocks wait for the same parent; its notar-fallback certificate arrives"), ("c06_pool_block_first", "a block arrives (one add_block), parent not certified: it waits"),
        ("c06_pool_block_second", "a block arrives while another block already waits for the same parent: both wait"), ("c06_pool_block_notar", "a block arrives after the parent's notarization certificate"),
        ("c06_pool_block_nfallback", "a block arrives after the parent's notar-fallback certificate"), ("c06_pool_block_fastfinal", "a block arrives after the parent's fast-finalization certificate")]
SPEC = {
    "property": "C06",
    "level_text": "PARTIAL claim: the safe-to-notar DECISION KERNEL only - one call of the real SlotState::check_safe_to_notar on an arbitrary state (3 validators, symbolic stakes, who holds what, parent status, own votes, pending flag): it answers SafeToNotar exactly under the condition of the property statement (own voted but not for this block; 40%, or 20% with 60% including skip - skip-fallback stake never counted; parent certified), asks for repair exactly when only the block is missing, and keeps the signalled / pending bookkeeping consistent (a block that only waits for a skip vote or the own vote is pending). NOT covered by a registered harness: (a) that every VOTE trigger re-evaluates (the as-soon-as half for votes) and the safe-to-skip condition - the step harnesses and two decoupled-counter kernels exist in kani_c06.rs but exceed the memory cap (DESIGN.md section 9); the defect of that half (own notar vote last) was found and fixed via a native test; (b) the POOL HAND-OVER of the parent's certificate (kani_c06_pool.rs: a block registered before its parent's certificate waits, every waiting block is told when a notarization / notar-fallback / fast-finalization certificate arrives): these harnesses found one genuine defect with the solver (fast-finalization certificate never woke the child, fix 46cf652) and led to a second (one waiting block per parent, fix 13529aa), but on the repaired tree their symbolic execution no longer finishes inside the caps (> 15 min; the list of waiting blocks inside the map), so they are kept unregistered.",
    "level_note": "Bounds: 3 validators, 2 competing blocks, one slot, one trigger from an arbitrary invariant pre-state. All certificates are pre-installed (so the trigger creates none: creation is C03). The pool-level hand-off (add_block / add_valid_cert calling notify_parent_certified, s2n_waiting_parent_cert) is outside. BLS signing stubbed; container stand-ins under Kani. Trusts Kani, CBMC, CaDiCaL.",
    "overlays": [COLL, FIX, AGG, CERT, SLOTFIX, {"src": "C06/kani_c06.rs", "dest": "src/consensus/pool/slot_state/kani_c06.rs", "decl_in": SS, "decl": "mod kani_c06;"}],
    "redirects": SLOT_STATE_REDIRECTS,
    "coll_cap": 3,
    "functions": ["consensus::pool::slot_state::SlotState::{add_vote,count_notar_stake,count_skip_stake,check_safe_to_notar,notify_parent_known,notify_parent_certified}"],
    "bounds": "3 validators, 16-bit stakes, blocks A and B, one trigger",
    "explanation": "Inductive one-trigger harnesses on the real SlotState; reference conditions s2n(b), s2s recomputed from ghost held sets (not from the code's counters). Decided by Kani -> CBMC -> CaDiCaL.",
    "assumptions": ["pre-state satisfies the invariant (established by SlotState::new, re-checked after every trigger)", "each validator's held votes are admissible (C04)", "all certificates already present"],
    "trusted_base": ["reference conds() in kani_c06.rs", "kani_slotfix", "verif_coll stand-ins"],
    "outside": ["pool-level parent hand-off (PoolImpl::add_block / add_valid_cert)", "notar-fallback votes in the pre-state (they do not enter the conditions; skip-fallback stake of the other validators is symbolic)", "more than 2 competing blocks"],
    "harnesses": [
        {"name": "c06_kernel_s2n", "path": MOD, "tiers": Q, "role": "safe-to-notar decision kernel", "stubs": STUBS, "covers": 4, "timeout": {"quick": 600, "thorough": 1500}, "mem_gb": 10,
         "functions": ["SlotState::check_safe_to_notar", "SlotState::notify_parent_known"], "bounds": "3 validators with symbolic 16-bit stakes, each holding notar(A) | notar(B) | skip | nothing, the two others possibly a skip-fallback vote on top of their notar vote; parent of A unknown / known / certified; A pending or not; one call"},
    ] + [
        {"name": n, "path": MOD, "tiers": (T if os.environ.get("VERIF_EXPERIMENTAL") else []), "role": "safe-to-skip kernel/" + d, "stubs": STUBS, "covers": 2, "timeout": {"quick": 600, "thorough": 1500}, "mem_gb": 14,
         "functions": ["SlotState::add_vote", "SlotState::count_skip_stake", "SlotState::count_notar_stake"], "bounds": "3 validators with symbolic 16-bit stakes; validator 0 casts its first vote (" + d + "), the two others hold notar(A) | notar(B) | skip | nothing; no block reaches 20% (pending set empty)"}
        for (n, d) in [("c06_kernel_s2s_skipvote", "a skip vote"), ("c06_kernel_s2s_ownskip", "the node's own skip vote"), ("c06_kernel_s2s_ownnotar", "the node's own notar vote"), ("c06_kernel_s2s_sfvote", "a skip-fallback vote")]
    ] + [_wake(n, d) for (n, d) in WAKE] + [
        {"name": n, "path": MOD, "tiers": S2S_TIERS.get(n, T if os.environ.get("VERIF_EXPERIMENTAL") else []), "role": "safe-to-skip threshold kernel/" + d, "stubs": STUBS + ["consensus::pool::slot_state::SlotState::check_safe_to_notar"], "covers": 2, "timeout": {"quick": 600, "thorough": 1500}, "mem_gb": 14,
         "functions": ["SlotState::add_vote", "SlotState::count_skip_stake", "SlotState::count_notar_stake"],
         "bounds": "2 validators; total stake, the voter's stake and the skip / skip-fallback / notar(A) / notar(B) counters arbitrary 16-bit values consistent with one another (decoupled from the stored votes: only the node's own notar vote and the new vote are stored); " + d + "; nothing pending for safe-to-notar, every certificate present"}
        for (n, d) in [("c06_s2s_skip_own1", "a skip vote arrives, the node holds a notar vote"), ("c06_s2s_notar_own1", "a notar vote arrives, the node holds a notar vote for the other block"),
                       ("c06_s2s_notar_own2", "the node's own notar vote arrives"), ("c06_s2s_sfallback_own1", "a skip-fallback vote arrives (must never count), the node holds a notar vote"),
                       ("c06_s2s_skip_own0", "a skip vote arrives, the node has not notarized anything")]
    ] + [
        # Safe-to-skip step harnesses were tried again late in the session (C03's step harness with the safe-to-skip
        # bookkeeping left open: 2.2 M symex steps, memory cap - a PoolEvent pushed under a symbolic guard makes CBMC
        # explore the drop glue of every PoolEvent variant) and are not registered: the seeded change C06-m2 is missed.
        # The trigger harnesses (c06_last_*, c06_kernel_s2s_*) exist in kani_c06.rs but exceed the time / memory caps
        # (one add_vote with the safe-to-notar re-evaluation loops: > 400 s of symbolic execution, measured) and are not registered.
    ],
}
