MOD = "consensus::pool::slot_state::kani_c06"
SS = "src/consensus/pool/slot_state.rs"
COLL = {"src": "verif_coll.rs", "dest": "src/verif_coll.rs", "decl_in": "src/lib.rs", "decl": "pub mod verif_coll;"}
FIX = {"src": "kani_fix.rs", "dest": "src/consensus/kani_fix.rs", "decl_in": "src/consensus.rs", "decl": "pub(crate) mod kani_fix;"}
AGG = {"src": "kani_aggstub.rs", "dest": "src/crypto/aggsig/kani_aggstub.rs", "decl_in": "src/crypto/aggsig.rs", "decl": "pub(crate) mod kani_aggstub;"}
CERT = {"src": "kani_certstub.rs", "dest": "src/consensus/cert/kani_certstub.rs", "decl_in": "src/consensus/cert.rs", "decl": "pub(crate) mod kani_certstub;"}
SLOTFIX = {"src": "kani_slotfix.rs", "dest": "src/consensus/pool/slot_state/kani_slotfix.rs", "decl_in": SS, "decl": "mod kani_slotfix;"}
KINDS = ["notar", "nfallback", "skip", "sfallback", "final"]
import importlib.util, os
_c3 = importlib.util.spec_from_file_location("c03spec", os.path.join(os.path.dirname(os.path.dirname(os.path.abspath(__file__))), "C03", "spec.py")); _C3 = importlib.util.module_from_spec(_c3); _c3.loader.exec_module(_C3)
C03_BUILD = {"overlays": _C3.SPEC["overlays"], "redirects": _C3.SPEC["redirects"], "coll_cap": _C3.SPEC["coll_cap"]}

def redirect(file, line, repl):
    import re
    return {"file": file, "pattern": r"^" + re.escape(line) + r"$", "replacement": "#[cfg(not(kani))]\n" + line + "\n#[cfg(kani)]\n" + repl, "count": 1}

SLOT_STATE_REDIRECTS = [
    redirect(SS, "use std::collections::BTreeMap;", "use crate::verif_coll::BTreeMap;"),
    redirect(SS, "use smallvec::SmallVec;", "use crate::verif_coll::SmallVec;"),
    redirect(SS, "use super::sorted_vec::{SortedVecMap, SortedVecSet};", "use crate::verif_coll::{SortedVecMap, SortedVecSet};"),
]
STUBS = ["crypto::aggsig::SecretKey::sign"]
Q, T = ["quick", "thorough"], ["thorough"]
TRIG = [("notar_vote", "a notar vote arrives last"), ("skip_vote", "a skip vote arrives last"), ("own_notar_a", "the node's own notar(A) vote arrives last"),
        ("own_notar_b", "the node's own notar(B) vote arrives last"), ("own_skip", "the node's own skip vote arrives last"), ("parent_certified", "the parent's certificate arrives last")]
SPEC = {
    "property": "C06",
    "level_text": "Registered: the safe-to-notar DECISION KERNEL only - one call of the real SlotState::check_safe_to_notar on an arbitrary state (3 validators, symbolic stakes, who holds what, parent status, own votes, pending flag): it answers SafeToNotar exactly under the condition of the property statement (own voted but not for this block; 40%, or 20% with 60% including skip; parent certified), asks for repair exactly when only the block is missing, and keeps the signalled / pending bookkeeping consistent (a block that only waits for a skip vote or the own vote is pending). NOT covered by the solver: that every trigger re-evaluates (the as-soon-as half) and the safe-to-skip condition - the harnesses for them (below) exist but one add_vote with the re-evaluation loops exceeds the caps; the defect of that half (own notar vote last) was found and fixed via a native test, not by the solver. Original plan, kept for the record: bounded symbolic verification of the real safe-to-notar / safe-to-skip logic as an inductive step: 3 validators with arbitrary 16-bit stakes, each holding notar(A), notar(B), skip or nothing (symbolic), parent status of both blocks symbolic, bookkeeping consistent with the invariant 'signalled <=> condition holds, and a block that only waits for a skip vote or the own vote is pending'. For each possible last-arriving ingredient (another validator's notar vote, a skip vote, the node's own notar(A) / notar(B) / skip vote, the parent's certificate) the solver shows that the events returned are exactly the conditions of the property statement that became true in this step (never early, never twice, never missing) and that the invariant holds again - which extends the claim to histories of any length within the bound.",
    "level_note": "Bounds: 3 validators, 2 competing blocks, one slot, one trigger from an arbitrary invariant pre-state. All certificates are pre-installed (so the trigger creates none: creation is C03). The pool-level hand-off (add_block / add_valid_cert calling notify_parent_certified, s2n_waiting_parent_cert) is outside. BLS signing stubbed; container stand-ins under Kani. Trusts Kani, CBMC, CaDiCaL.",
    "overlays": [COLL, FIX, AGG, CERT, SLOTFIX, {"src": "C06/kani_c06.rs", "dest": "src/consensus/pool/slot_state/kani_c06.rs", "decl_in": SS, "decl": "mod kani_c06;"}],
    "redirects": SLOT_STATE_REDIRECTS,
    "coll_cap": 3,
    "functions": ["consensus::pool::slot_state::SlotState::{add_vote,count_notar_stake,count_skip_stake,check_safe_to_notar,notify_parent_known,notify_parent_certified}"],
    "bounds": "3 validators, 16-bit stakes, blocks A and B, one trigger",
    "explanation": "Inductive one-trigger harnesses on the real SlotState; reference conditions s2n(b), s2s recomputed from ghost held sets (not from the code's counters). Decided by Kani -> CBMC -> CaDiCaL.",
    "assumptions": ["pre-state satisfies the invariant (established by SlotState::new, re-checked after every trigger)", "each validator's held votes are admissible (C04)", "all certificates already present"],
    "trusted_base": ["reference conds() in kani_c06.rs", "kani_slotfix", "verif_coll stand-ins"],
    "outside": ["pool-level parent hand-off (PoolImpl::add_block / add_valid_cert)", "notar-fallback votes in the pre-state (they do not enter the conditions; skip-fallback stake of the other validators is symbolic)", "more than 2 competing blocks"],
    "harnesses": [
        {"name": "c06_kernel_s2n", "path": MOD, "tiers": Q, "role": "safe-to-notar decision kernel", "stubs": STUBS, "covers": 4, "timeout": {"quick": 600, "thorough": 1500}, "mem_gb": 10,
         "functions": ["SlotState::check_safe_to_notar", "SlotState::notify_parent_known"], "bounds": "3 validators with symbolic 16-bit stakes, each holding notar(A) | notar(B) | skip | nothing, the two others possibly a skip-fallback vote on top of their notar vote; parent of A unknown / known / certified; A pending or not; one call"},
        # Safe-to-skip step harnesses were tried again late in the session (C03's step harness with the safe-to-skip
        # bookkeeping left open: 2.2 M symex steps, memory cap - a PoolEvent pushed under a symbolic guard makes CBMC
        # explore the drop glue of every PoolEvent variant) and are not registered: the seeded change C06-m2 is missed.
        # The trigger harnesses (c06_last_*, c06_kernel_s2s_*) exist in kani_c06.rs but exceed the time / memory caps
        # (one add_vote with the safe-to-notar re-evaluation loops: > 400 s of symbolic execution, measured) and are not registered.
    ],
}
