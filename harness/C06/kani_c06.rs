//! C06 harnesses (overlay module `crate::consensus::pool::slot_state::kani_c06`).
//!
//! One trigger on the real `SlotState` from an arbitrary admissible pre-state: 3 validators
//! with symbolic stakes, each holding notar(A) | notar(B) | skip | nothing (symbolic), parent
//! status of A and B symbolic (unknown / known / certified), and the bookkeeping consistent
//! with the invariant below.  Triggers: a notar vote, a skip vote, the node's OWN vote arriving
//! last (notar A / notar B / skip), the parent of A becoming certified.
//! Reference (from the property statement):
//!   s2n(b)  := own voted in the slot, but not notar(b)  ∧  parent(b) certified  ∧
//!              ( notar(b) ≥ 40 %  ∨  ( notar(b) ≥ 20 % ∧ skip + notar(b) ≥ 60 % ) )
//!   s2s     := own cast a notar vote  ∧  skip + Σ notar − max notar ≥ 40 %
//! Invariant assumed before and checked after: signalled(b) ⇔ s2n(b), signalled-skip ⇔ s2s
//! ("at most once" and "as soon as"), and the pending set contains every block whose remaining
//! missing ingredient is a skip vote or the own vote.  Events returned by the trigger must be
//! exactly the conditions that became true.
//! All certificates are already present in the pre-state (received from the network), so the
//! trigger creates none: certificate creation is C03's subject and would dominate the cost.
#![allow(dead_code, unused_imports, clippy::all)]

use super::kani_slotfix::*;
use super::*;
use crate::ValidatorIndex;
use crate::consensus::kani_fix::{block_hash, fixture, Fix};
use crate::verif_std as vs;
use crate::verif_std::{vcheck, vcover};

const N: usize = 3;

fn any_ns() -> Held {
    let mut h = NOTHING;
    let k = vs::any_below(4); // 0 none, 1 notar A, 2 notar B, 3 skip
    if k == 1 || k == 2 {
        h.notar = k;
    }
    if k == 3 {
        h.skip = true;
    }
    h
}

struct Cond {
    s2n: [bool; 3],
    s2s: bool,
    /// ≥ 20 % notar and not (yet) enough: a skip vote can complete it
    need_skip: [bool; 3],
    /// thresholds and parent fine, only the own vote is missing
    need_own: [bool; 3],
    weakest: [bool; 3],
}

fn conds(held: &[Held; N], stakes: &[u64; N], own: usize, parent: &[u8; 3]) -> Cond {
    let t = Totals::of(held, stakes);
    let own_voted = held[own].skip || held[own].notar != 0;
    let mut c = Cond { s2n: [false; 3], s2s: false, need_skip: [false; 3], need_own: [false; 3], weakest: [false; 3] };
    let mut b = 1usize;
    while b <= 2 {
        let n = t.notar[b];
        let thr = t.reaches(n, 2) || (t.reaches(n, 1) && t.reaches(n + t.skip, 3));
        c.weakest[b] = t.reaches(n, 1);
        c.s2n[b] = own_voted && held[own].notar != b as u8 && parent[b] == 2 && thr;
        c.need_skip[b] = t.reaches(n, 1) && !thr;
        c.need_own[b] = thr && parent[b] == 2 && !own_voted;
        b += 1;
    }
    c.s2s = held[own].notar != 0 && t.reaches(t.skip + t.notar[1] + t.notar[2] - t.top_notar(), 2);
    c
}

/// trigger: 0 notar(A) vote by validator 0, 1 skip vote by validator 0 (own = 2);
///          2/3/4 the node's own (validator 0) notar A / notar B / skip vote;
///          5 parent of A certified (own = 2)
fn body(trigger: u8) {
    let own = if trigger >= 2 && trigger <= 4 { 0 } else { 2 };
    let stakes: [u64; N] = [vs::any_u16() as u64, vs::any_u16() as u64, vs::any_u16() as u64];
    let mut held: [Held; N] = [any_ns(), any_ns(), any_ns()];
    if trigger != 5 {
        // the voter has not voted in this slot yet (its new vote is its first)
        held[0] = NOTHING;
    }
    let mut parent: [u8; 3] = [0, vs::any_below(3), vs::any_below(3)];
    if trigger == 5 {
        // the parent of A is known (block registered) and not yet certified
        vs::assume(parent[1] == 1);
    }
    let pend_extra: [bool; 3] = [false, vs::any_bool(), vs::any_bool()];
    let t0 = Totals::of(&held, &stakes);
    vs::assume(t0.total > 0);
    let c0 = conds(&held, &stakes, own, &parent);

    // --- real pre-state ---------------------------------------------------------------------
    let fx = fixture(&stakes, own);
    let mut st = SlotState::new(Slot::new(SLOT), fx.epoch.clone());
    // only the node's own stored votes are ever read back by this logic; the other validators
    // enter through the running totals (their stored votes would only add 112-byte objects
    // under symbolic guards to the formula)
    install(&mut st, &fx, own, &held[own]);
    install_totals(&mut st, &t0);
    // every certificate is already there: this trigger creates none
    let vals = fx.epoch.epoch_info().validators();
    let mut k = 0u8;
    while k < 5 {
        st.add_cert(crate::consensus::cert::kani_certstub::opaque(k, Slot::new(SLOT), block_hash(1), vals, &fx.sks[1]));
        k += 1;
    }
    st.add_cert(crate::consensus::cert::kani_certstub::opaque(1, Slot::new(SLOT), block_hash(2), vals, &fx.sks[1]));
    let mut b = 1u8;
    while b <= 2 {
        if parent[b as usize] >= 1 {
            st.notify_parent_known(&block_hash(b));
        }
        if parent[b as usize] == 2 {
            *st.parents.get_mut(&block_hash(b)).unwrap() = ParentStatus::Certified;
        }
        if c0.s2n[b as usize] {
            st.sent_safe_to_notar.insert(block_hash(b));
        } else if c0.weakest[b as usize] && (c0.need_skip[b as usize] || c0.need_own[b as usize] || pend_extra[b as usize]) {
            st.pending_safe_to_notar.insert(block_hash(b));
        }
        b += 1;
    }
    st.sent_safe_to_skip = c0.s2s;

    // --- the trigger --------------------------------------------------------------------------
    let mut held1 = held;
    let mut parent1 = parent;
    let mut events: Vec<PoolEvent> = Vec::new();
    match trigger {
        0 | 2 => {
            held1[0].notar = 1;
            let (_c, e, _r) = st.add_vote(mk_vote(&fx, 0, 0, 1), Stake::new(stakes[0]));
            events.extend(e);
        }
        3 => {
            held1[0].notar = 2;
            let (_c, e, _r) = st.add_vote(mk_vote(&fx, 0, 0, 2), Stake::new(stakes[0]));
            events.extend(e);
        }
        1 | 4 => {
            held1[0].skip = true;
            let (_c, e, _r) = st.add_vote(mk_vote(&fx, 0, 2, 1), Stake::new(stakes[0]));
            events.extend(e);
        }
        _ => {
            parent1[1] = 2;
            if let Some(Either::Left(e)) = st.notify_parent_certified(block_hash(1)) {
                events.push(e);
            }
        }
    }

    // --- reference ------------------------------------------------------------------------------
    let c1 = conds(&held1, &stakes, own, &parent1);
    let mut n_s2n = [0u8; 3];
    let mut n_s2s = 0u8;
    for e in events.iter() {
        match e {
            PoolEvent::SafeToNotar((s, h)) => {
                vcheck!(*s == Slot::new(SLOT), "safe-to-notar for the wrong slot");
                if *h == block_hash(1) {
                    n_s2n[1] += 1;
                } else if *h == block_hash(2) {
                    n_s2n[2] += 1;
                } else {
                    vcheck!(false, "safe-to-notar for an unknown block");
                }
            }
            PoolEvent::SafeToSkip(s) => {
                vcheck!(*s == Slot::new(SLOT), "safe-to-skip for the wrong slot");
                n_s2s += 1;
            }
            _ => vcheck!(false, "unexpected event"),
        }
    }
    let mut b = 1usize;
    while b <= 2 {
        let want = c1.s2n[b] && !c0.s2n[b];
        vcheck!(n_s2n[b] == want as u8, "safe-to-notar not signalled exactly when its conditions became true (missing, early, or repeated)");
        vcheck!(st.sent_safe_to_notar.contains(&block_hash(b as u8)) == c1.s2n[b], "safe-to-notar bookkeeping differs from the condition");
        if !c1.s2n[b] && c1.weakest[b] && (c1.need_skip[b] || c1.need_own[b]) {
            vcheck!(st.pending_safe_to_notar.contains(&block_hash(b as u8)), "a block that only waits for a skip vote or the own vote is not pending (it would never be signalled)");
        }
        if c1.s2n[b] {
            vcheck!(!st.pending_safe_to_notar.contains(&block_hash(b as u8)), "signalled block still pending");
        }
        b += 1;
    }
    vcheck!(n_s2s == (c1.s2s && !c0.s2s) as u8, "safe-to-skip not signalled exactly when its condition became true (missing, early, or repeated)");
    vcheck!(st.sent_safe_to_skip == c1.s2s, "safe-to-skip bookkeeping differs from the condition");

    vcover!(n_s2n[1] == 1, "safe-to-notar(A) is signalled");
    vcover!(n_s2n[1] == 0 && n_s2s == 0, "nothing is signalled");
    std::mem::forget(st);
    std::mem::forget(fx);
    std::mem::forget(events);
}

/// The decision kernel alone: one call of the real `check_safe_to_notar(A)` on an arbitrary
/// state (stakes, who holds what, parent status, own votes, bookkeeping all symbolic).
fn kernel_body() {
    let own = 2usize;
    let stakes: [u64; N] = [vs::any_u16() as u64, vs::any_u16() as u64, vs::any_u16() as u64];
    let mut held: [Held; N] = [any_ns(), any_ns(), any_ns()];
    // skip-fallback votes of the other validators (legitimate after a notar vote): their stake is
    // in the pool's counters and must not enter the condition
    let (sf0, sf1) = (vs::any_bool(), vs::any_bool());
    vs::assume((!sf0 || held[0].notar != 0) && (!sf1 || held[1].notar != 0));
    held[0].sf = sf0;
    held[1].sf = sf1;
    let parent: [u8; 3] = [0, vs::any_below(3), 0];
    let was_pending = vs::any_bool();
    let t0 = Totals::of(&held, &stakes);
    vs::assume(t0.total > 0);
    let fx = fixture(&stakes, own);
    let mut st = SlotState::new(Slot::new(SLOT), fx.epoch.clone());
    install(&mut st, &fx, own, &held[own]);
    install_totals(&mut st, &t0);
    if parent[1] >= 1 {
        st.notify_parent_known(&block_hash(1));
    }
    if parent[1] == 2 {
        *st.parents.get_mut(&block_hash(1)).unwrap() = ParentStatus::Certified;
    }
    if was_pending {
        st.pending_safe_to_notar.insert(block_hash(1));
    }
    let r = st.check_safe_to_notar(block_hash(1));

    let n = t0.notar[1];
    let thr = t0.reaches(n, 2) || (t0.reaches(n, 1) && t0.reaches(n + t0.skip, 3));
    let own_voted = held[own].skip || held[own].notar != 0;
    let cond = own_voted && held[own].notar != 1 && parent[1] == 2 && thr;
    vcheck!((r == SafeToNotarStatus::SafeToNotar) == cond, "safe-to-notar decided differently from the protocol condition");
    vcheck!((r == SafeToNotarStatus::MissingBlock) == (thr && parent[1] == 0), "block not requested for repair exactly when only the block itself is missing");
    vcheck!(st.sent_safe_to_notar.contains(&block_hash(1)) == cond, "signalled-set bookkeeping wrong");
    if cond {
        vcheck!(!st.pending_safe_to_notar.contains(&block_hash(1)), "signalled block still pending");
    }
    if !cond && t0.reaches(n, 1) && (!thr || (parent[1] == 2 && !own_voted)) {
        vcheck!(st.pending_safe_to_notar.contains(&block_hash(1)), "a block that only waits for a skip vote or the own vote is not pending");
    }
    vcover!(cond, "safe-to-notar holds");
    vcover!(!thr && t0.reaches(n, 1) && t0.reaches(n + t0.skip + t0.sf, 3), "skip-fallback stake would bridge the 60% threshold, skip stake alone does not");
    vcover!(r == SafeToNotarStatus::AwaitingVotes, "awaiting votes");
    vcover!(r == SafeToNotarStatus::MissingBlock, "missing block");
    std::mem::forget(st);
    std::mem::forget(fx);
}
#[cfg_attr(kani, kani::proof)]
#[cfg_attr(kani, kani::stub(crate::crypto::aggsig::SecretKey::sign, crate::consensus::kani_fix::sign_stub))]
#[cfg_attr(kani, kani::unwind(6))]
#[cfg_attr(verif_replay, test)]
fn c06_kernel_s2n() {
    kernel_body()
}

/// Safe-to-skip kernel: one vote arrives while no block is anywhere near safe-to-notar
/// (both blocks below 20 % before and after, so the pending set is concretely empty and the
/// safe-to-notar re-evaluation loops do not run).  trigger: 1 = a skip vote by validator 0
/// (own = 2), 6 = a skip-fallback vote by validator 0 (own = 2; it must never signal),
/// 4 = the node's own skip vote, 2 = the node's own notar(A) vote (own = 0).
fn s2s_body(trigger: u8, cov: fn(u8, bool)) {
    let own = if trigger == 1 || trigger == 6 { 2 } else { 0 };
    let stakes: [u64; N] = [vs::any_u16() as u64, vs::any_u16() as u64, vs::any_u16() as u64];
    let mut held: [Held; N] = [NOTHING, any_ns(), any_ns()];
    let parent: [u8; 3] = [0, 0, 0];
    let t0 = Totals::of(&held, &stakes);
    vs::assume(t0.total > 0);
    let c0 = conds(&held, &stakes, own, &parent);
    let fx = fixture(&stakes, own);
    let mut st = SlotState::new(Slot::new(SLOT), fx.epoch.clone());
    install(&mut st, &fx, own, &held[own]);
    install_totals(&mut st, &t0);
    let vals = fx.epoch.epoch_info().validators();
    let mut k = 0u8;
    while k < 5 {
        st.add_cert(crate::consensus::cert::kani_certstub::opaque(k, Slot::new(SLOT), block_hash(1), vals, &fx.sks[1]));
        k += 1;
    }
    st.sent_safe_to_skip = c0.s2s;
    let (kind, hash) = if trigger == 2 { (0u8, 1u8) } else if trigger == 6 { (3u8, 1u8) } else { (2u8, 1u8) };
    if kind == 0 {
        held[0].notar = 1;
    } else if kind == 3 {
        held[0].sf = true;
    } else {
        held[0].skip = true;
    }
    let t1 = Totals::of(&held, &stakes);
    // nothing near safe-to-notar, before or after
    vs::assume(!t1.reaches(t1.notar[1], 1) && !t1.reaches(t1.notar[2], 1));
    let (_c, events, _r) = st.add_vote(mk_vote(&fx, 0, kind, hash), Stake::new(stakes[0]));
    let c1 = conds(&held, &stakes, own, &parent);
    let mut n_s2s = 0u8;
    for e in events.iter() {
        match e {
            PoolEvent::SafeToSkip(s) => {
                vcheck!(*s == Slot::new(SLOT), "safe-to-skip for the wrong slot");
                n_s2s += 1;
            }
            _ => vcheck!(false, "unexpected event"),
        }
    }
    vcheck!(n_s2s == (c1.s2s && !c0.s2s) as u8, "safe-to-skip not signalled exactly when its condition became true (missing, early, or repeated)");
    vcheck!(st.sent_safe_to_skip == c1.s2s, "safe-to-skip bookkeeping differs from the condition");
    cov(n_s2s, c0.s2s);
    std::mem::forget(st);
    std::mem::forget(fx);
    std::mem::forget(events);
}
fn cov_signal(n_s2s: u8, _before: bool) {
    vcover!(n_s2s == 1, "safe-to-skip is signalled");
    vcover!(n_s2s == 0, "nothing is signalled");
}
/// a skip-fallback vote never makes the condition true
fn cov_never(n_s2s: u8, before: bool) {
    vcover!(n_s2s == 0 && before, "nothing is signalled, the condition held before");
    vcover!(n_s2s == 0 && !before, "nothing is signalled, the condition does not hold");
}
macro_rules! s2s {
    ($name:ident, $t:literal) => {
        s2s!($name, $t, cov_signal);
    };
    ($name:ident, $t:literal, $cov:ident) => {
        #[cfg_attr(kani, kani::proof)]
        #[cfg_attr(kani, kani::stub(crate::crypto::aggsig::SecretKey::sign, crate::consensus::kani_fix::sign_stub))]
        #[cfg_attr(kani, kani::unwind(6))]
        #[cfg_attr(verif_replay, test)]
        fn $name() {
            s2s_body($t, $cov)
        }
    };
}
s2s!(c06_kernel_s2s_skipvote, 1);
s2s!(c06_kernel_s2s_ownskip, 4);
s2s!(c06_kernel_s2s_ownnotar, 2);
s2s!(c06_kernel_s2s_sfvote, 6, cov_never);


macro_rules! h {
    ($name:ident, $t:literal) => {
        #[cfg_attr(kani, kani::proof)]
        #[cfg_attr(kani, kani::stub(crate::crypto::aggsig::SecretKey::sign, crate::consensus::kani_fix::sign_stub))]
        #[cfg_attr(kani, kani::unwind(6))]
        #[cfg_attr(verif_replay, test)]
        fn $name() {
            body($t)
        }
    };
}
h!(c06_last_notar_vote, 0);
h!(c06_last_skip_vote, 1);
h!(c06_last_own_notar_a, 2);
h!(c06_last_own_notar_b, 3);
h!(c06_last_own_skip, 4);
h!(c06_last_parent_certified, 5);

// ---------------------------------------------------------------------------------------------
// Safe-to-skip threshold kernel (`c06_s2s_*`), counters decoupled from the stored votes.
//
// The running totals the real code keeps (skip, skip-fallback, notar per block, notar-or-skip,
// top-notar) are arbitrary 16-bit values consistent with one another; of the stored votes only
// the node's own notar vote (present or not, fixed per harness) and the new vote exist.  No block
// is pending for safe-to-notar (the set is concretely empty) and the skip certificate is present,
// so the only thing one skip / skip-fallback / notar vote can raise is safe-to-skip.  Reference,
// from the property statement: s2s := the node notarized some block in the slot  AND
// skip stake + notar stake of all but the most-voted block >= 40 %  -  skip-FALLBACK stake does
// not count.  The event must be raised exactly when s2s becomes true and was not raised before.
// KIND: 2 skip vote, 3 skip-fallback vote, 0 notar vote for block A (all by validator 0).
// OWN: 0 the node has cast no notar vote, 1 it holds a stored notar vote (for B), 2 the new vote IS
// the node's own notar vote (KIND 0 only).
// ---------------------------------------------------------------------------------------------
fn s2s_thr_body<const KIND: u8, const OWN: u8, const CAN: bool>() {
    let total = vs::any_u16() as u64;
    let stake = vs::any_u16() as u64;
    let (skip, sf, n_a, n_b) = (vs::any_u16() as u64, vs::any_u16() as u64, vs::any_u16() as u64, vs::any_u16() as u64);
    let already = vs::any_bool();
    vs::assume(total > 0 && stake <= total);
    // each validator casts one initial vote (skip or notar) and possibly a skip-fallback vote
    vs::assume(skip + n_a + n_b + if KIND == 3 { 0 } else { stake } <= total);
    vs::assume(sf + if KIND == 3 { stake } else { 0 } <= total);
    let t0 = Totals { notar: [0, n_a, n_b], nf: [0, 0, 0], skip, sf, fin: 0, total };
    let own_notar0 = OWN == 1;
    let cond0 = own_notar0 && t0.reaches(skip + n_a + n_b - t0.top_notar(), 2);
    // raised as soon as the condition holds, never without it
    vs::assume(already == cond0);

    let own = if OWN == 2 { 0 } else { 1 };
    let stakes: [u64; 2] = [stake, total - stake];
    let fx = fixture(&stakes, own);
    let mut st = SlotState::new(Slot::new(SLOT), fx.epoch.clone());
    *st.voted_stakes.notar.get_or_insert_with(&block_hash(1), Stake::default) = Stake::new(n_a);
    *st.voted_stakes.notar.get_or_insert_with(&block_hash(2), Stake::default) = Stake::new(n_b);
    st.voted_stakes.skip = Stake::new(skip);
    st.voted_stakes.skip_fallback = Stake::new(sf);
    st.voted_stakes.notar_or_skip = Stake::new(skip + n_a + n_b);
    st.voted_stakes.top_notar = Stake::new(t0.top_notar());
    if OWN == 1 {
        st.votes.notar[1] = Some(NotarVote::new(Slot::new(SLOT), block_hash(2), &fx.sks[1], ValidatorIndex::new(1)));
    }
    // every certificate is already there: this vote creates none
    let vals = fx.epoch.epoch_info().validators();
    let mut k = 0u8;
    while k < 5 {
        st.add_cert(crate::consensus::cert::kani_certstub::opaque(k, Slot::new(SLOT), block_hash(1), vals, &fx.sks[1]));
        k += 1;
    }
    // safe-to-notar is not the subject: already signalled for both blocks, nothing pending
    st.sent_safe_to_notar.insert(block_hash(1));
    st.sent_safe_to_notar.insert(block_hash(2));
    st.sent_safe_to_skip = already;

    let (_c, events, _r) = st.add_vote(mk_vote(&fx, 0, KIND, 1), Stake::new(stake));

    let skip1 = skip + if KIND == 2 { stake } else { 0 };
    let n_a1 = n_a + if KIND == 0 { stake } else { 0 };
    let top1 = if n_a1 > n_b { n_a1 } else { n_b };
    let own_notar1 = OWN == 1 || OWN == 2;
    let cond1 = own_notar1 && t0.reaches(skip1 + n_a1 + n_b - top1, 2);
    let mut n_s2s = 0u8;
    for e in events.iter() {
        match e {
            PoolEvent::SafeToSkip(s) => {
                vcheck!(*s == Slot::new(SLOT), "safe-to-skip for the wrong slot");
                n_s2s += 1;
            }
            _ => vcheck!(false, "unexpected event"),
        }
    }
    vcheck!(n_s2s == (cond1 && !already) as u8, "safe-to-skip not signalled exactly when its condition became true (missing, early, or repeated)");
    vcheck!(st.sent_safe_to_skip == (cond1 || already), "safe-to-skip bookkeeping differs from the condition");
    if CAN {
        vcover!(n_s2s == 1, "safe-to-skip is signalled");
        vcover!(n_s2s == 0 && !already, "nothing is signalled, the condition does not hold");
    } else {
        // inputs that can never raise the signal: stake that must not count reaches the threshold
        let with_sf = skip1 + sf + if KIND == 3 { stake } else { 0 } + n_a1 + n_b - top1;
        vcover!(n_s2s == 0 && !already && t0.reaches(with_sf, 2), "nothing is signalled although skip-fallback stake (or a missing own notar vote) would complete the threshold");
        vcover!(n_s2s == 0 && !t0.reaches(with_sf, 2), "nothing is signalled, far from the threshold");
    }
    std::mem::forget(st);
    std::mem::forget(fx);
    std::mem::forget(events);
    std::mem::forget(_c);
    std::mem::forget(_r);
}
macro_rules! s2st {
    ($name:ident, $kind:literal, $own:literal, $can:literal) => {
        #[cfg_attr(kani, kani::proof)]
        #[cfg_attr(kani, kani::stub(crate::crypto::aggsig::SecretKey::sign, crate::consensus::kani_fix::sign_stub))]
        #[cfg_attr(kani, kani::stub(crate::consensus::pool::slot_state::SlotState::check_safe_to_notar, crate::consensus::pool::slot_state::kani_c06::s2n_cut))]
        #[cfg_attr(kani, kani::unwind(6))]
        #[cfg_attr(verif_replay, test)]
        fn $name() {
            s2s_thr_body::<$kind, $own, $can>()
        }
    };
}
/// Stub for `SlotState::check_safe_to_notar` in the safe-to-skip kernels (Kani only): both blocks
/// are already signalled, so the real code does not call it; CBMC cannot see that syntactically.
#[cfg(kani)]
pub(crate) fn s2n_cut(_this: &mut SlotState, _hash: BlockHash) -> SafeToNotarStatus {
    SafeToNotarStatus::AwaitingVotes
}
s2st!(c06_s2s_skip_own1, 2, 1, true);
s2st!(c06_s2s_notar_own1, 0, 1, true);
s2st!(c06_s2s_notar_own2, 0, 2, true);
// cannot raise the signal: the cover "is signalled" is replaced (see spec: covers)
s2st!(c06_s2s_sfallback_own1, 3, 1, false);
s2st!(c06_s2s_skip_own0, 2, 0, false);
