//! Accessors for the C06 pool-level harnesses (overlay module
//! `crate::consensus::pool::slot_state::kani_c06_cut`, child of `slot_state`: sees private fields).
#![allow(dead_code, unused_imports, clippy::all)]
use super::*;

/// Has this slot state been told that the parent of block `h` is certified?
pub(crate) fn parent_certified(st: &SlotState, h: &BlockHash) -> bool {
    st.parents.get(h) == Some(&ParentStatus::Certified)
}
/// Has this slot state been told that the parent of block `h` is known (block registered)?
pub(crate) fn parent_known(st: &SlotState, h: &BlockHash) -> bool {
    st.parents.get(h).is_some()
}

/// Recording stub for `SlotState::notify_parent_certified` (Kani only).  In the pool-level harnesses the
/// call itself is what is checked (which slot state is told about which block); what the call does - mark
/// the parent certified, evaluate safe-to-notar - is `c06_kernel_s2n`'s subject and, executed through the
/// pool's map of slot states, costs > 10 min of symbolic execution (measured).
#[cfg(kani)]
pub(crate) mod cut {
    use super::*;
    struct Ghost {
        magic: [u64; 2],
        calls: usize,
        slots: [u64; 4],
        tags: [u8; 4],
    }
    static mut G: Ghost = Ghost { magic: [0xC06_C07E_0000_0001, 0x9E37_79B9_7F4A_7C15], calls: 0, slots: [0; 4], tags: [0; 4] };
    /// how often the slot state of `slot` was told that the parent of block `tag` is certified
    pub(crate) fn told(slot: u64, tag: u8) -> usize {
        // (no loop: the harnesses run with a small unwind bound)
        unsafe {
            let hit = |i: usize| (i < G.calls && G.slots[i] == slot && G.tags[i] == tag) as usize;
            hit(0) + hit(1) + hit(2) + hit(3)
        }
    }
    pub(crate) fn calls() -> usize {
        unsafe { G.calls }
    }
    pub(crate) fn notify_parent_certified(this: &mut SlotState, hash: BlockHash) -> Option<either::Either<crate::consensus::pool::PoolEvent, crate::BlockId>> {
        // SAFETY: BlockHash is a transparent wrapper chain around [u8; 32]
        let b: [u8; 32] = unsafe { std::mem::transmute_copy::<BlockHash, [u8; 32]>(&hash) };
        unsafe {
            if G.calls < 4 {
                G.slots[G.calls] = this.slot.inner();
                G.tags[G.calls] = b[0];
            }
            G.calls += 1;
        }
        std::mem::forget(hash);
        None
    }
}
