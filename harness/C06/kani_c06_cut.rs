//! Accessors for the C06 pool-level harnesses (overlay module
//! `crate::consensus::pool::slot_state::kani_c06_cut`, child of `slot_state`: sees private fields).
#![allow(dead_code, unused_imports, clippy::all)]
use super::*;

/// Has this slot state been told that the parent of block `h` is certified?
pub(crate) fn parent_certified(st: &SlotState, h: &BlockHash) -> bool {
    st.parents.get(h) == Some(&ParentStatus::Certified)
}
/// Has this slot state been told that the parent of block `h` is known (block registered)?
pub(crate) fn parent_known(st: &SlotState, h: &BlockHash) -> bool {
    st.parents.get(h).is_some()
}
