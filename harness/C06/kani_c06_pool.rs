//! C06 at pool level: the hand-over "the parent's certificate arrives" (overlay module
//! `crate::consensus::pool::kani_c06_pool`, child of `pool`).
//!
//! Safe-to-notar for a block needs its parent certified by a notarization, notar-fallback or
//! fast-finalization certificate, and must be raised whichever ingredient arrives last.  The
//! slot state only learns about the parent through `PoolImpl`: `add_block` registers the child
//! (and certifies at once if the pool already holds a certificate for the parent), and
//! `add_valid_cert` wakes the children waiting in `s2n_waiting_parent_cert`.
//! Harness family (the finite shape space is enumerated: certificate kind x arrival order x one or
//! two children of the same parent; each member is one symbolic execution of the real
//! `PoolImpl::add_block` / `add_cert` / `add_valid_cert` / `SlotState::notify_parent_*` /
//! `FinalityTracker` / `ParentReadyTracker` code): after the child block(s) and the parent's
//! certificate have both arrived, every child's slot state has been told that its parent is
//! certified (the call that evaluates and raises safe-to-notar: `c06_kernel_s2n`).
#![allow(dead_code, unused_imports, clippy::all)]

use super::kani_poolfix::*;
use super::slot_state::kani_c06_cut::{parent_certified, parent_known};
use super::*;
use crate::consensus::cert::kani_certstub::opaque;
use crate::consensus::kani_fix::{block_hash, fixture};
use crate::verif_std as vs;
use crate::verif_std::{vcheck, vcover};

/// The waiting map in either representation (one child per parent, as on the original tree, or a list
/// of children, as after the repair): the harnesses compile against both, so a reversal of the repair
/// is reported as a violation and not as a build failure.
trait Waiting {
    fn put(&mut self, parent: BlockId, child: BlockId);
    fn has(&self, parent: &BlockId, child: &BlockId) -> bool;
}
impl Waiting for BTreeMap<BlockId, BlockId> {
    fn put(&mut self, parent: BlockId, child: BlockId) {
        self.insert(parent, child);
    }
    fn has(&self, parent: &BlockId, child: &BlockId) -> bool {
        match self.get(parent) {
            Some(c) => c == child,
            None => false,
        }
    }
}
#[cfg(kani)]
type WaitList = crate::verif_coll::tvec::Vec<BlockId>;
#[cfg(not(kani))]
type WaitList = Vec<BlockId>;
impl Waiting for BTreeMap<BlockId, WaitList> {
    fn put(&mut self, parent: BlockId, child: BlockId) {
        self.entry(parent).or_default().push(child);
    }
    fn has(&self, parent: &BlockId, child: &BlockId) -> bool {
        match self.get(parent) {
            Some(cs) => {
                let mut found = false;
                for c in cs.iter() {
                    found = found || c == child;
                }
                found
            }
            None => false,
        }
    }
}

/// Registers `child` (parent not certified) the way `add_block` leaves it.  Natively the real
/// `add_block` does it; under Kani the state is written directly (a second pool call per harness
/// exceeds the memory cap, measured) - that `add_block` leaves exactly this is `c06_pool_block_*`.
fn register_waiting(pool: &mut PoolImpl, child: BlockId, parent: BlockId) {
    #[cfg(kani)]
    {
        pool.slot_state(child.0).notify_parent_known(&child.1);
        pool.s2n_waiting_parent_cert.put(parent, child);
    }
    #[cfg(not(kani))]
    p_add_block(pool, child, parent);
}

/// Has the slot state of `slot` been told that the parent of block `tag` is certified?  Under Kani the
/// call is recorded by a stub (`kani_c06_cut::cut`), natively the real call leaves its mark in the slot state.
fn told(pool: &mut PoolImpl, slot: Slot, tag: u8) -> bool {
    #[cfg(kani)]
    {
        let _ = pool;
        super::slot_state::kani_c06_cut::cut::told(slot.inner(), tag) == 1
    }
    #[cfg(not(kani))]
    {
        parent_certified(pool.slot_state(slot), &block_hash(tag))
    }
}
fn not_told(pool: &mut PoolImpl, slot: Slot, tag: u8) -> bool {
    #[cfg(kani)]
    {
        let _ = pool;
        super::slot_state::kani_c06_cut::cut::told(slot.inner(), tag) == 0
    }
    #[cfg(not(kani))]
    {
        !parent_certified(pool.slot_state(slot), &block_hash(tag))
    }
}

/// The parent's certificate arrives last: one real `add_cert` -> `add_valid_cert`.
fn wake_body<const KIND: u8, const TWO: bool>() {
    // validator 0 holds 90 % (natively its single signature makes every certificate valid); the node is validator 1
    let fx = fixture(&[9, 1], 1);
    let (mut pool, _ch) = mk_pool(&fx);
    let vals = fx.epoch.epoch_info().validators();
    let (hp, ha, hb) = (block_hash(1), block_hash(2), block_hash(3));
    let (sp, sa, sb) = (Slot::new(1), Slot::new(2), Slot::new(3));
    let _ = pool.slot_state(sp);
    register_waiting(&mut pool, (sa, ha.clone()), (sp, hp.clone()));
    if TWO {
        register_waiting(&mut pool, (sb, hb.clone()), (sp, hp.clone()));
    }
    vcheck!(not_told(&mut pool, sa, 2), "parent reported certified before any certificate for it exists");
    let cert = opaque(KIND, sp, hp.clone(), vals, &fx.sks[0]);
    let r = p_add_cert(&mut pool, validated_cert(&fx, cert));
    vcheck!(r == Ok(()), "a fresh certificate inside the window was refused");
    vcheck!(told(&mut pool, sa, 2), "a block whose parent is certified (notarization, notar-fallback or fast-finalization certificate held) was never told so: safe-to-notar cannot be raised when the parent's certificate arrives last");
    if TWO {
        vcheck!(told(&mut pool, sb, 3), "a second block waiting for the same parent was never told that the parent is certified");
    }
    vcover!(true, "certificate delivered");
    std::mem::forget(pool);
    std::mem::forget(fx);
}

/// The block arrives: one real `add_block`.  `CERT`: kind of the certificate the pool already holds
/// for the parent (255 = none); `SECOND`: another block is already waiting for the same parent.
fn block_body<const CERT: u8, const SECOND: bool>() {
    let fx = fixture(&[9, 1], 1);
    let (mut pool, _ch) = mk_pool(&fx);
    let vals = fx.epoch.epoch_info().validators();
    let (hp, ha, hb) = (block_hash(1), block_hash(2), block_hash(3));
    let (sp, sa, sb) = (Slot::new(1), Slot::new(2), Slot::new(3));
    let _ = pool.slot_state(sp);
    if CERT != 255 {
        // held certificate, as add_valid_cert stores it
        pool.slot_state(sp).add_cert(opaque(CERT, sp, hp.clone(), vals, &fx.sks[0]));
    }
    if SECOND {
        register_waiting(&mut pool, (sa, ha.clone()), (sp, hp.clone()));
    }
    p_add_block(&mut pool, (sb, hb.clone()), (sp, hp.clone()));
    vcheck!(parent_known(pool.slot_state(sb), &hb), "registered block not known to its slot state");
    if CERT != 255 {
        vcheck!(told(&mut pool, sb, 3), "a block registered after its parent's certificate was never told that the parent is certified");
    } else {
        vcheck!(not_told(&mut pool, sb, 3), "parent reported certified before any certificate for it exists");
        vcheck!(pool.s2n_waiting_parent_cert.has(&(sp, hp.clone()), &(sb, hb.clone())), "a block whose parent is not yet certified is not waiting for the parent's certificate");
        if SECOND {
            vcheck!(pool.s2n_waiting_parent_cert.has(&(sp, hp.clone()), &(sa, ha.clone())), "a block waiting for its parent's certificate was dropped when another block with the same parent arrived: it is never told that the parent is certified");
        }
    }
    vcover!(true, "block delivered");
    std::mem::forget(pool);
    std::mem::forget(fx);
}

#[cfg(kani)]
pub(crate) fn log_off() -> log::LevelFilter {
    log::LevelFilter::Off
}

/// Cuts (Kani only).  What happens to the certificate / block besides the hand-over to the child's
/// slot state is other properties' subject and is replaced by recording stubs: the parent-ready tracker
/// (C07), the follow-up of a finalization event incl. pruning (C07 / C08) and the channel to Votor
/// (the event object with its certificate payload is what makes the un-cut harness exceed 20 min).
/// The finality tracker itself, `SlotState::{add_cert, notify_parent_known, notify_parent_certified,
/// check_safe_to_notar, is_notar_fallback_or_stronger}` and all of `add_block` / `add_cert` /
/// `add_valid_cert` run as they are.
#[cfg(kani)]
pub(crate) mod cut {
    use super::*;
    use crate::consensus::pool::finality_tracker::FinalizationEvent;
    use crate::consensus::pool::parent_ready_tracker::ParentReadyTracker;
    struct Ghost {
        magic: [u64; 2],
        events: usize,
        s2n: usize,
        s2n_slot: u64,
    }
    static mut G: Ghost = Ghost { magic: [0xC06_9001_0000_0001, 0x9E37_79B9_7F4A_7C15], events: 0, s2n: 0, s2n_slot: 0 };
    pub(crate) fn s2n_events() -> usize {
        unsafe { G.s2n }
    }
    pub(crate) fn send_votor_event(_this: &PoolImpl, event: PoolEvent) {
        unsafe {
            G.events += 1;
            if let PoolEvent::SafeToNotar((s, _)) = &event {
                G.s2n += 1;
                G.s2n_slot = s.inner();
            }
        }
        std::mem::forget(event);
    }
    pub(crate) fn send_parent_ready_events<I: IntoIterator<Item = (Slot, BlockId)>>(_this: &PoolImpl, parents: I) {
        std::mem::forget(parents);
    }
    pub(crate) fn send_repair(_this: &PoolImpl, block: BlockId) {
        std::mem::forget(block);
    }
    pub(crate) fn handle_finalization(_this: &mut PoolImpl, event: FinalizationEvent) {
        std::mem::forget(event);
    }
    pub(crate) fn mark_notar_fallback(_this: &mut ParentReadyTracker, _id: &BlockId) -> crate::c07_coll::SmallVec<[(Slot, BlockId); 1]> {
        crate::c07_coll::SmallVec::new()
    }
    pub(crate) fn prt_handle_finalization(_this: &mut ParentReadyTracker, event: FinalizationEvent) -> crate::c07_coll::SmallVec<[(Slot, BlockId); 1]> {
        std::mem::forget(event);
        crate::c07_coll::SmallVec::new()
    }
}

macro_rules! stubs {
    ($name:ident, $body:expr) => {
        #[cfg_attr(kani, kani::proof)]
        #[cfg_attr(kani, kani::stub(crate::crypto::aggsig::SecretKey::sign, crate::consensus::kani_fix::sign_stub))]
        #[cfg_attr(kani, kani::stub(log::max_level, crate::consensus::pool::kani_c06_pool::log_off))]
        #[cfg_attr(kani, kani::stub(crate::consensus::pool::PoolImpl::send_votor_event, crate::consensus::pool::kani_c06_pool::cut::send_votor_event))]
        #[cfg_attr(kani, kani::stub(crate::consensus::pool::slot_state::SlotState::notify_parent_certified, crate::consensus::pool::slot_state::kani_c06_cut::cut::notify_parent_certified))]
        #[cfg_attr(kani, kani::stub(crate::consensus::pool::PoolImpl::send_repair, crate::consensus::pool::kani_c06_pool::cut::send_repair))]
        #[cfg_attr(kani, kani::stub(crate::consensus::pool::PoolImpl::send_parent_ready_events, crate::consensus::pool::kani_c06_pool::cut::send_parent_ready_events))]
        #[cfg_attr(kani, kani::stub(crate::consensus::pool::PoolImpl::handle_finalization, crate::consensus::pool::kani_c06_pool::cut::handle_finalization))]
        #[cfg_attr(kani, kani::stub(crate::consensus::pool::parent_ready_tracker::ParentReadyTracker::mark_notar_fallback, crate::consensus::pool::kani_c06_pool::cut::mark_notar_fallback))]
        #[cfg_attr(kani, kani::stub(crate::consensus::pool::parent_ready_tracker::ParentReadyTracker::handle_finalization, crate::consensus::pool::kani_c06_pool::cut::prt_handle_finalization))]
        #[cfg_attr(kani, kani::unwind(3))]
        #[cfg_attr(verif_replay, test)]
        fn $name() {
            $body
        }
    };
}
// the parent's certificate arrives last
stubs!(c06_pool_wake_notar_one, wake_body::<0, false>());
stubs!(c06_pool_wake_nfallback_one, wake_body::<1, false>());
stubs!(c06_pool_wake_fastfinal_one, wake_body::<3, false>());
stubs!(c06_pool_wake_notar_two, wake_body::<0, true>());
stubs!(c06_pool_wake_nfallback_two, wake_body::<1, true>());
// the block arrives: parent uncertified (it waits), or certified by a held certificate
stubs!(c06_pool_block_first, block_body::<255, false>());
stubs!(c06_pool_block_second, block_body::<255, true>());
stubs!(c06_pool_block_notar, block_body::<0, false>());
stubs!(c06_pool_block_nfallback, block_body::<1, false>());
stubs!(c06_pool_block_fastfinal, block_body::<3, false>());
