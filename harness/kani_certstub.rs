//! Overlay module `crate::consensus::cert::kani_certstub` (child of `cert`: sees the private
//! fields of the certificate structs and the private `aggsig_from_votes`).
#![allow(dead_code, unused_imports, clippy::all)]

use super::*;
use crate::crypto::aggsig::kani_aggstub::mask_of;

/// Stub for `cert::aggsig_from_votes` (Kani only): no BLS aggregation, no BitVec; the
/// returned object carries exactly the signer set of the votes it was given.  The real
/// function's own preconditions are kept as assertions: non-empty, signers in range, no
/// duplicate signer (`AggregateSignature::new` panics on these).
#[cfg(kani)]
pub(crate) fn aggsig_from_votes_stub<V: SignedVote>(votes: &[V], validators: &[ValidatorInfo]) -> AggregateSignature {
    assert!(!votes.is_empty(), "sigs and indices must not be empty");
    let mut mask = 0u64;
    for v in votes {
        let i = v.signer().as_usize();
        assert!(i < validators.len(), "validator index >= num_bits");
        assert!(mask & (1u64 << i) == 0, "duplicate signer index");
        mask |= 1u64 << i;
    }
    crate::crypto::aggsig::kani_aggstub::token_aggsig(mask)
}

/// What a certificate says about itself, for harness assertions.
pub(crate) struct CertView {
    /// 0 notar, 1 notar-fallback, 2 skip, 3 fast-final, 4 final
    pub kind: u8,
    pub slot: Slot,
    pub hash: Option<BlockHash>,
    /// signer masks of the (first, second) aggregate; single-aggregate types use the first
    pub mask1: Option<u64>,
    pub mask2: Option<u64>,
    pub stake: Stake,
}

pub(crate) fn view(c: &Cert) -> CertView {
    match c {
        Cert::Notar(n) => CertView { kind: 0, slot: n.slot, hash: Some(n.block_hash.clone()), mask1: Some(mask_of(&n.agg_sig)), mask2: None, stake: n.stake },
        Cert::NotarFallback(n) => CertView {
            kind: 1,
            slot: n.slot,
            hash: Some(n.block_hash.clone()),
            mask1: n.agg_sig_notar.as_ref().map(mask_of),
            mask2: n.agg_sig_notar_fallback.as_ref().map(mask_of),
            stake: n.stake,
        },
        Cert::Skip(s) => CertView { kind: 2, slot: s.slot, hash: None, mask1: s.agg_sig_skip.as_ref().map(mask_of), mask2: s.agg_sig_skip_fallback.as_ref().map(mask_of), stake: s.stake },
        Cert::FastFinal(f) => CertView { kind: 3, slot: f.slot, hash: Some(f.block_hash.clone()), mask1: Some(mask_of(&f.agg_sig)), mask2: None, stake: f.stake },
        Cert::Final(f) => CertView { kind: 4, slot: f.slot, hash: None, mask1: Some(mask_of(&f.agg_sig)), mask2: None, stake: f.stake },
    }
}

/// An opaque certificate object of the given type for (slot, block): what the slot state
/// holds after a certificate was received from the network (it only looks at type and block).
pub(crate) fn opaque(kind: u8, slot: Slot, block_hash: BlockHash, validators: &[ValidatorInfo], signer_sk: &crate::crypto::aggsig::SecretKey) -> Cert {
    #[cfg(kani)]
    {
        let _ = (validators, signer_sk);
        let a = || crate::crypto::aggsig::kani_aggstub::token_aggsig(1);
        match kind {
            0 => Cert::Notar(NotarCert { slot, block_hash, agg_sig: a(), stake: Stake::new(0) }),
            1 => Cert::NotarFallback(NotarFallbackCert { slot, block_hash, agg_sig_notar: Some(a()), agg_sig_notar_fallback: None, stake: Stake::new(0) }),
            2 => Cert::Skip(SkipCert { slot, agg_sig_skip: Some(a()), agg_sig_skip_fallback: None, stake: Stake::new(0) }),
            3 => Cert::FastFinal(FastFinalCert { slot, block_hash, agg_sig: a(), stake: Stake::new(0) }),
            _ => Cert::Final(FinalCert { slot, agg_sig: a(), stake: Stake::new(0) }),
        }
    }
    #[cfg(not(kani))]
    {
        let id = ValidatorIndex::new(0);
        match kind {
            0 => Cert::Notar(NotarCert::new(&[NotarVote::new(slot, block_hash, signer_sk, id)], validators)),
            1 => Cert::NotarFallback(NotarFallbackCert::new(&[NotarVote::new(slot, block_hash, signer_sk, id)], &[], validators)),
            2 => Cert::Skip(SkipCert::new(&[SkipVote::new(slot, signer_sk, id)], &[], validators)),
            3 => Cert::FastFinal(FastFinalCert::new(&[NotarVote::new(slot, block_hash, signer_sk, id)], validators)),
            _ => Cert::Final(FinalCert::new(&[FinalVote::new(slot, signer_sk, id)], validators)),
        }
    }
}

// ---------------------------------------------------------------------------------------------
// Stubs for the five `XCert::new` constructors (Kani only).  The real `try_new` indexes
// `validators[signer]` (a ~450-byte struct per validator) with the symbolic signer of each
// collected vote, which alone costs ~8 M SAT variables per call (measured); the pool-level
// harnesses therefore stub the constructor and keep what it is *given* (slot, block, signer set
// of each half, with the real preconditions as assertions), and `try_new` itself is verified
// separately (C03 `c03_trynew_*`).
// ---------------------------------------------------------------------------------------------
#[cfg(kani)]
fn mask_of_votes<V: SignedVote>(votes: &[V], n: usize) -> u64 {
    let mut mask = 0u64;
    for v in votes {
        let i = v.signer().as_usize();
        assert!(i < n, "validator index >= num_bits");
        assert!(mask & (1u64 << i) == 0, "duplicate signer index");
        mask |= 1u64 << i;
    }
    mask
}
#[cfg(kani)]
fn tok(mask: u64) -> Option<AggregateSignature> {
    if mask == 0 { None } else { Some(crate::crypto::aggsig::kani_aggstub::token_aggsig(mask)) }
}
#[cfg(kani)]
pub(crate) fn notar_new_stub(votes: &[NotarVote], validators: &[ValidatorInfo]) -> NotarCert {
    assert!(!votes.is_empty(), "votes must not be empty");
    for v in votes {
        assert!(v.slot() == votes[0].slot() && v.block_hash() == votes[0].block_hash(), "votes should form a valid certificate");
    }
    NotarCert { slot: votes[0].slot(), block_hash: votes[0].block_hash().clone(), agg_sig: tok(mask_of_votes(votes, validators.len())).unwrap(), stake: Stake::new(0) }
}
#[cfg(kani)]
pub(crate) fn fastfinal_new_stub(votes: &[NotarVote], validators: &[ValidatorInfo]) -> FastFinalCert {
    assert!(!votes.is_empty(), "votes must not be empty");
    for v in votes {
        assert!(v.slot() == votes[0].slot() && v.block_hash() == votes[0].block_hash(), "votes should form a valid certificate");
    }
    FastFinalCert { slot: votes[0].slot(), block_hash: votes[0].block_hash().clone(), agg_sig: tok(mask_of_votes(votes, validators.len())).unwrap(), stake: Stake::new(0) }
}
#[cfg(kani)]
pub(crate) fn final_new_stub(votes: &[FinalVote], validators: &[ValidatorInfo]) -> FinalCert {
    assert!(!votes.is_empty(), "votes must not be empty");
    for v in votes {
        assert!(v.slot() == votes[0].slot(), "votes should form a valid certificate");
    }
    FinalCert { slot: votes[0].slot(), agg_sig: tok(mask_of_votes(votes, validators.len())).unwrap(), stake: Stake::new(0) }
}
#[cfg(kani)]
pub(crate) fn nfallback_new_stub(notar_votes: &[NotarVote], nf_votes: &[NotarFallbackVote], validators: &[ValidatorInfo]) -> NotarFallbackCert {
    let (slot, block_hash) = if let Some(v) = notar_votes.first() {
        (v.slot(), v.block_hash().clone())
    } else {
        let v = nf_votes.first().expect("at least one vote required");
        (v.slot(), v.block_hash().clone())
    };
    for v in notar_votes {
        assert!(v.slot() == slot && v.block_hash() == &block_hash, "votes should form a valid certificate");
    }
    for v in nf_votes {
        assert!(v.slot() == slot && v.block_hash() == &block_hash, "votes should form a valid certificate");
    }
    NotarFallbackCert {
        slot,
        block_hash,
        agg_sig_notar: tok(mask_of_votes(notar_votes, validators.len())),
        agg_sig_notar_fallback: tok(mask_of_votes(nf_votes, validators.len())),
        stake: Stake::new(0),
    }
}
#[cfg(kani)]
pub(crate) fn skip_new_stub(skip_votes: &[SkipVote], sf_votes: &[SkipFallbackVote], validators: &[ValidatorInfo]) -> SkipCert {
    let slot = if let Some(v) = skip_votes.first() { v.slot() } else { sf_votes.first().expect("at least one vote required").slot() };
    for v in skip_votes {
        assert!(v.slot() == slot, "votes should form a valid certificate");
    }
    for v in sf_votes {
        assert!(v.slot() == slot, "votes should form a valid certificate");
    }
    SkipCert { slot, agg_sig_skip: tok(mask_of_votes(skip_votes, validators.len())), agg_sig_skip_fallback: tok(mask_of_votes(sf_votes, validators.len())), stake: Stake::new(0) }
}
