//! C17 harnesses (overlay module `crate::disseminator::rotor::sampling_strategy::kani_c17`,
//! child of `sampling_strategy`: sees the private fields of the samplers).
//!
//! Shape per harness (const generics): `N` validators, committee size `K`, random tape of `L`
//! arbitrary words, and for the sample kernels `R` deterministic seats / `M` medium nodes or
//! shares per bin.  Stakes, weights, owners, probabilities and random words are symbolic.  The
//! random source is `kani_samp::TapeRng` (a real `rand` generator in both modes); `rand`'s
//! `WeightedIndex`, `Uniform`, `Bernoulli`, `shuffle` and all f64 arithmetic are the real ones.
//!
//! Constructors whose layout depends on the stakes are decided separately from `sample_quorum`
//! (which then starts from a symbolic state built by struct literal): see the section comments
//! for what was measured not to fit.
#![allow(dead_code, unused_imports, clippy::all)]

use super::kani_samp::*;
use super::*;
use crate::verif_std as vs;
use crate::verif_std::{vcheck, vcover};

/// Well-formedness shared by every strategy.
fn check_wellformed<const N: usize>(q: &[ValidatorIndex], k: usize) {
    vcheck!(q.len() == k, "committee size differs from the configured quorum size");
    let mut j = 0;
    while j < q.len() {
        vcheck!(q[j].as_usize() < N, "committee member is not in the validator set");
        j += 1;
    }
}

/// `floor(stake * k / total)` in integers.
fn floor_seats(stake: u64, k: u64, total: u64) -> u64 {
    stake * k / total
}

/// `round(stake * k / total)` (half away from zero) in integers.
fn round_seats(stake: u64, k: u64, total: u64) -> u64 {
    (2 * stake * k + total) / (2 * total)
}

// ---------------------------------------------------------------------------------------
// UniformSampler / StakeWeightedSampler behind IidQuorumSampler
// ---------------------------------------------------------------------------------------

fn uniform_body<const N: usize, const K: usize, const L: usize>() {
    let stakes = any_stakes::<N>(1, 8);
    let mut rng = TapeRng::<L>::draw();
    let s = UniformSampler::new(validators(&stakes)).into_quorum_strategy(K);
    vcheck!(s.quorum_size() == K, "quorum_size differs from the configured size");
    let q = s.sample_quorum(&mut rng);
    check_wellformed::<N>(&q, K);
    vcover!(N > 1 && q[0].as_usize() == N - 1, "last validator drawn");
    vcover!(q[0].as_usize() == 0, "first validator drawn");
    std::mem::forget(s);
    std::mem::forget(q);
}

/// Stakes 0..=8 with a positive total: zero-weight validators are part of the input.
fn stakew_body<const N: usize, const K: usize, const L: usize>() {
    let stakes = any_stakes::<N>(0, 8);
    vs::assume(total(&stakes) > 0);
    let mut rng = TapeRng::<L>::draw();
    let s = StakeWeightedSampler::new(validators(&stakes)).into_quorum_strategy(K);
    vcheck!(s.quorum_size() == K, "quorum_size differs from the configured size");
    let q = s.sample_quorum(&mut rng);
    check_wellformed::<N>(&q, K);
    let mut j = 0;
    while j < K {
        vcheck!(stakes[q[j].as_usize()] > 0, "zero-weight validator drawn");
        j += 1;
    }
    vcover!(rng.pos > K, "a draw was rejected by the unbiased integer sampler");
    vcover!(N > 1 && stakes[0] == 0 && q[0].as_usize() == N - 1, "zero-weight validator present, last validator drawn");
    std::mem::forget(s);
    std::mem::forget(q);
}

// ---------------------------------------------------------------------------------------
// DecayingAcceptanceSampler
// ---------------------------------------------------------------------------------------

/// `max_samples` is `CAP2 / 2` (so 2 => 1.0 = without replacement, 3 => 1.5, 4 => 2.0); the
/// seat cap is `ceil(max_samples)`.
fn decay_body<const N: usize, const K: usize, const L: usize, const CAP2: u64>() {
    let max_samples = CAP2 as f64 / 2.0;
    let cap = (CAP2 + 1) / 2;
    let stakes = any_stakes::<N>(1, 8);
    let mut rng = TapeRng::<L>::draw();
    let s = DecayingAcceptanceSampler::new(validators(&stakes), max_samples, K);
    vcheck!(s.quorum_size() == K, "quorum_size differs from the configured size");
    // native replay only: the same validator set and the same random source give the same committee
    // (under Kani any use of ambient randomness inside sampling_strategy.rs is reported where it happens)
    #[cfg(not(kani))]
    {
        let mut seed = 1u64;
        while seed <= 64 {
            let a = s.sample_quorum(&mut SweepRng(seed));
            let mut rep = 0;
            while rep < 8 {
                let b = s.sample_quorum(&mut SweepRng(seed));
                vcheck!(a == b, "sampling consults ambient randomness: the committee is not a function of the validator set and the supplied random source only");
                rep += 1;
            }
            seed += 1;
        }
    }
    let q = s.sample_quorum(&mut rng);
    check_wellformed::<N>(&q, K);
    let mut i = 0;
    while i < N {
        vcheck!(count_of(&q, i) <= cap, "validator drawn more often than its seat cap");
        i += 1;
    }
    {
        let c = s.sample_count.lock();
        let mut i = 0;
        while i < N {
            vcheck!(c[i] == 0, "acceptance counters not reset after sample_quorum");
            i += 1;
        }
        vcheck!(c.len() == N, "acceptance counters resized");
    }
    vcover!(rng.pos > 2 * K, "a candidate was rejected");
    vcover!(count_of(&q, 0) == cap.min(K as u64), "validator 0 fills its cap");
    std::mem::forget(s);
    std::mem::forget(q);
}

// ---------------------------------------------------------------------------------------
// PartitionSampler
// ---------------------------------------------------------------------------------------
//
// `PartitionSampler::new` does not fit (measured: even ONE validator and 2 bins is 360 k symex
// steps and CNF generation exceeds 10 GB; 2 validators 550 k steps: the bins are `Vec<Vec<_>>`
// pushed at a stake-dependent index with stake-dependent reallocations, validators are 400-byte
// structs swapped at a random index; concrete stakes do not help because values moved through
// a >64-byte struct copy are no longer constants for the symbolic executor).  Only
// `sample_quorum` is decided here, from a symbolic sampler state of fixed shape that satisfies
// the invariants `new` is documented to establish (`partition_sample_body`).

/// Every bin of the integer partition is non-empty iff the first `K-1` bins of
/// `ceil(total/K)` stake each leave something for the last one.
fn partition_feasible(total: u64, k: u64) -> bool {
    k >= 1 && total > total.div_ceil(k) * (k - 1)
}

fn partition_invariants<const N: usize>(s: &PartitionSampler, stakes: &[u64; N], k: usize) {
    vcheck!(s.bin_validators.len() == k && s.bin_stakes.len() == k && s.bins.len() == k, "number of bins differs from the configured size");
    let t = total(stakes);
    let per_bin = t.div_ceil(k as u64);
    let mut got = [0u64; N];
    let mut b = 0;
    while b < k {
        let vals = &s.bin_validators[b];
        let stk = &s.bin_stakes[b];
        vcheck!(vals.len() == stk.len(), "bin validators and bin stakes differ in length");
        vcheck!(!vals.is_empty(), "empty bin");
        vcheck!(s.bins[b].total_weight() > 0, "bin without weight");
        let mut sum = 0u64;
        let mut j = 0;
        while j < vals.len() {
            let id = vals[j].as_usize();
            vcheck!(id < N, "bin holds a validator outside the set");
            vcheck!(stk[j].inner() > 0, "bin holds a zero-stake share");
            if id < N {
                got[id] += stk[j].inner();
            }
            sum += stk[j].inner();
            j += 1;
        }
        vcheck!(s.bins[b].total_weight() == sum, "bin sampler weight differs from the bin stake");
        vcheck!(sum <= per_bin, "bin holds more than ceil(total/bins) stake");
        vcheck!(b + 1 == k || sum == per_bin, "a bin before the last one is not full");
        b += 1;
    }
    let mut i = 0;
    while i < N {
        vcheck!(got[i] == stakes[i], "stake of a validator not fully distributed over the bins");
        i += 1;
    }
}

/// `sample_quorum` from a symbolic sampler state: `K` bins of `M` shares each, share weights
/// 0..=8 (positive total per bin), arbitrary validator ids.
fn partition_sample_body<const N: usize, const K: usize, const M: usize, const L: usize>() {
    let mut bins = Vec::with_capacity(K);
    let mut bin_validators = Vec::with_capacity(K);
    let mut bin_stakes = Vec::with_capacity(K);
    let mut ids = [[0usize; M]; K];
    let mut ws = [[0u64; M]; K];
    let mut b = 0;
    while b < K {
        let w = any_stakes::<M>(0, 8);
        vs::assume(total(&w) > 0);
        let mut vals = Vec::with_capacity(M);
        let mut stk = Vec::with_capacity(M);
        let mut j = 0;
        while j < M {
            let id = vs::any_below(N as u8) as usize;
            ids[b][j] = id;
            ws[b][j] = w[j];
            vals.push(ValidatorIndex::new(id as u64));
            stk.push(Stake::new(w[j]));
            j += 1;
        }
        bins.push(WeightedIndex::new(w.iter().copied()).expect("positive total"));
        bin_validators.push(vals);
        bin_stakes.push(stk);
        b += 1;
    }
    let mut rng = TapeRng::<L>::draw();
    let s = PartitionSampler { bins, bin_validators, bin_stakes };
    vcheck!(s.quorum_size() == K, "quorum_size differs from the configured size");
    let q = s.sample_quorum(&mut rng);
    check_wellformed::<N>(&q, K);
    let mut b = 0;
    while b < K && b < q.len() {
        let mut ok = false;
        let mut j = 0;
        while j < M {
            if ids[b][j] == q[b].as_usize() && ws[b][j] > 0 {
                ok = true;
            }
            j += 1;
        }
        vcheck!(ok, "seat not drawn from a positive share of its own bin");
        b += 1;
    }
    vcover!(M > 1 && q[0].as_usize() == ids[0][M - 1] && ids[0][0] != ids[0][M - 1], "last share of the first bin drawn");
    vcover!(rng.pos > K, "a draw was rejected by the unbiased integer sampler");
    std::mem::forget(s);
    std::mem::forget(q);
}

// ---------------------------------------------------------------------------------------
// Fait Accompli 1
// ---------------------------------------------------------------------------------------
//
// Split (the number of deterministic seats is stake-dependent; `sample_quorum` after a
// symbolic construction exceeds the memory cap, measured):
//   * construction from symbolic stakes, checked on the constructed state (`fa1w_new_body`),
//   * `sample_quorum` from a symbolic state with `R` deterministic seats (`fa1_sample_body`).
// `new_with_partition_fallback` runs `PartitionSampler::new`, which does not fit (see above): cut by a stub in fa1p_new_body.

/// FA1 with the IID stake-weighted fallback: constructed state.
///
/// The owner ids stored in `required_samples` are not read back: any read of that vector
/// (filled by `extend` calls of stake-dependent length, i.e. reallocations of symbolic size)
/// takes the formula from 0.5 M to 12 M variables and past the memory cap (measured).  The
/// per-validator seat numbers are pinned instead through what they determine: the length of
/// `required_samples` (their sum) and the residual fallback weights
/// `stake_i - seats_i * total / k` (strictly monotone in `seats_i` because `total >= k`).
fn fa1w_new_body<const N: usize, const K: usize>() {
    let stakes = any_stakes::<N>(1, 8);
    let st: [u16; N] = std::array::from_fn(|i| stakes[i] as u16);
    let k = K as u16;
    let mut t = 0u16;
    let mut i = 0;
    while i < N {
        t += st[i];
        i += 1;
    }
    vs::assume(t >= k);
    let s = FaitAccompli1Sampler::new_with_stake_weighted_fallback(validators(&stakes), K as u64);
    vcheck!(s.quorum_size() == K, "quorum_size differs from the configured size");
    let mut fsum = 0u16;
    let mut rsum = 0u16;
    let mut i = 0;
    while i < N {
        let fl = st[i] * k / t;
        fsum += fl;
        rsum += st[i] - fl * t / k;
        i += 1;
    }
    vcheck!(s.required_samples.len() == fsum as usize, "number of deterministic seats differs from the sum of floor(stake fraction * k)");
    vcheck!(s.fallback_sampler.quorum_size() == K - fsum as usize, "fallback size is not the number of remaining seats");
    let fb = &s.fallback_sampler.inner;
    vcheck!(fb.validators.len() == N, "fallback sampler lost validators");
    let mut wsum = 0u64;
    let mut i = 0;
    while i < N {
        let w = fb.validators[i].stake.inner();
        vcheck!(fb.validators[i].id.as_usize() == i, "fallback sampler reordered validators");
        let fl = st[i] * k / t;
        let residual = st[i] - fl * t / k;
        // nobody has a remainder: the fallback (never asked for a seat... unless fsum < K) keeps the full stakes
        let expect = if rsum == 0 { st[i] } else { residual };
        vcheck!(w == expect as u64, "fallback weight differs from stake - floor(stake fraction * k) * total / k");
        wsum += w;
        i += 1;
    }
    vcheck!(fb.stake_index.total_weight() == wsum && wsum > 0, "fallback weight index differs from the fallback stakes");
    vcover!(fsum > 0 && (fsum as usize) < K, "deterministic and sampled seats both present");
    vcover!(N > K || fsum as usize == K, "all seats deterministic");
    std::mem::forget(s);
}

/// FA1 with the partition fallback: the seat computation of `new_with_partition_fallback`.
///
/// `PartitionSampler::new` itself does not fit (and consults the ambient generator: C16's
/// finding); under Kani it is cut by a stub that records what it is handed - the validator list
/// with the residual stakes and the number of remaining seats - and returns an empty sampler.
/// Natively the real constructor runs and the owners of the deterministic seats are read back.
#[cfg(kani)]
pub(crate) mod cut {
    use super::*;
    struct Ghost {
        magic: [u64; 2],
        calls: usize,
        bins: usize,
        n: usize,
        stakes: [u64; 4],
        ids_in_order: bool,
    }
    static mut G: Ghost = Ghost { magic: [0xC17_FA1B_0000_0001, 0x9E37_79B9_7F4A_7C15], calls: 0, bins: 0, n: 0, stakes: [0; 4], ids_in_order: true };
    pub(crate) fn calls() -> usize {
        unsafe { G.calls }
    }
    pub(crate) fn bins() -> usize {
        unsafe { G.bins }
    }
    pub(crate) fn n() -> usize {
        unsafe { G.n }
    }
    pub(crate) fn stake(i: usize) -> u64 {
        unsafe { G.stakes[i] }
    }
    pub(crate) fn ids_in_order() -> bool {
        unsafe { G.ids_in_order }
    }
    pub(crate) fn partition_new(validators: Vec<ValidatorInfo>, num_bins: usize) -> PartitionSampler {
        unsafe {
            G.calls += 1;
            G.bins = num_bins;
            G.n = validators.len();
            let mut i = 0;
            while i < validators.len() && i < 4 {
                G.stakes[i] = validators[i].stake.inner();
                G.ids_in_order &= validators[i].id.as_usize() == i;
                i += 1;
            }
        }
        std::mem::forget(validators);
        PartitionSampler { bins: Vec::new(), bin_validators: Vec::new(), bin_stakes: Vec::new() }
    }
}

fn fa1p_new_body<const N: usize, const K: usize>() {
    let stakes = any_stakes::<N>(1, 8);
    let st: [u16; N] = std::array::from_fn(|i| stakes[i] as u16);
    let k = K as u16;
    let mut t = 0u16;
    let mut i = 0;
    while i < N {
        t += st[i];
        i += 1;
    }
    vs::assume(t >= k);
    let s = FaitAccompli1Sampler::new_with_partition_fallback(validators(&stakes), K as u64);
    vcheck!(s.quorum_size() == K, "quorum_size differs from the configured size");
    let mut fsum = 0u16;
    let mut rsum = 0u16;
    let mut i = 0;
    while i < N {
        let fl = st[i] * k / t;
        fsum += fl;
        rsum += st[i] - fl * t / k;
        i += 1;
    }
    vcheck!(s.required_samples.len() == fsum as usize, "number of deterministic seats differs from the sum of floor(stake fraction * k)");
    #[cfg(kani)]
    {
        vcheck!(cut::calls() == 1 && cut::bins() == K - fsum as usize, "fallback size is not the number of remaining seats");
        vcheck!(cut::n() == N && cut::ids_in_order(), "fallback sampler lost or reordered validators");
        let mut i = 0;
        while i < N {
            let fl = st[i] * k / t;
            let residual = st[i] - fl * t / k;
            let expect = if rsum == 0 { st[i] } else { residual };
            vcheck!(cut::stake(i) == expect as u64, "fallback weight differs from stake - floor(stake fraction * k) * total / k");
            i += 1;
        }
    }
    #[cfg(not(kani))]
    {
        vcheck!(s.fallback_sampler.quorum_size() == K - fsum as usize, "fallback size is not the number of remaining seats");
        let mut i = 0;
        while i < N {
            let fl = (st[i] * k / t) as usize;
            let got = s.required_samples.iter().filter(|v| v.as_usize() == i).count();
            vcheck!(got == fl, "a validator's deterministic seats differ from floor(stake fraction * k)");
            i += 1;
        }
    }
    vcover!(fsum > 0 && (fsum as usize) < K, "deterministic and sampled seats both present");
    vcover!(N > K || fsum as usize == K, "all seats deterministic");
    std::mem::forget(s);
}

/// `FaitAccompli1Sampler::sample_quorum` from a symbolic state: `R` deterministic seats
/// (arbitrary ids), IID fallback over weights 0..=8 (positive total) for the other `K-R`.
fn fa1_sample_body<const N: usize, const K: usize, const R: usize, const L: usize>() {
    let mut req = Vec::with_capacity(R);
    let mut rid = [0usize; R];
    let mut j = 0;
    while j < R {
        rid[j] = vs::any_below(N as u8) as usize;
        req.push(ValidatorIndex::new(rid[j] as u64));
        j += 1;
    }
    let w = any_stakes::<N>(0, 8);
    vs::assume(total(&w) > 0);
    let mut rng = TapeRng::<L>::draw();
    let fallback_sampler = StakeWeightedSampler::new(validators(&w)).into_quorum_strategy(K - R);
    let s = FaitAccompli1Sampler { required_samples: req, fallback_sampler, k: K };
    let q = s.sample_quorum(&mut rng);
    check_wellformed::<N>(&q, K);
    let mut j = 0;
    while j < K && j < q.len() {
        if j < R {
            vcheck!(q[j].as_usize() == rid[j], "deterministic seats are not the committee prefix");
        } else {
            vcheck!(w[q[j].as_usize()] > 0, "zero-weight validator drawn");
        }
        j += 1;
    }
    vcover!(R == K || q[K - 1].as_usize() == N - 1, "last validator drawn by the fallback");
    vcover!(R == K || rng.pos > K - R, "a draw was rejected by the unbiased integer sampler (or no draw needed)");
    std::mem::forget(s);
    std::mem::forget(q);
}

// ---------------------------------------------------------------------------------------
// Fait Accompli 2
// ---------------------------------------------------------------------------------------

/// DEFECT harness: `minimize_f` (the first thing `FaitAccompli2Sampler::new` computes after
/// the deterministic seats) for every positive stake vector.  The only check that can fail
/// is its own `assert!(f.iter().sum::<f64>() <= 1.0)`.  Called directly: through `new` the
/// solver's assignment cannot be extracted (the un-sliced playback formula exceeds the memory
/// cap, measured); `new` calls it unconditionally with the same arguments.
fn fa2_minf_body<const N: usize, const K: usize>() {
    let stakes = any_stakes::<N>(1, 8);
    let v = validators(&stakes);
    let f = FaitAccompli2Sampler::minimize_f(&v, K as u64);
    vcover!(f.len() == N, "minimize_f returned");
    std::mem::forget(f);
    std::mem::forget(v);
}

/// `minimize_f` on the inputs it accepts: `f_i * k` is `round(stake_i * k / total)`.
fn fa2_minf_ok_body<const N: usize, const K: usize>() {
    let stakes = any_stakes::<N>(1, 8);
    let st: [u16; N] = std::array::from_fn(|i| stakes[i] as u16);
    let k = K as u16;
    let mut t = 0u16;
    let mut i = 0;
    while i < N {
        t += st[i];
        i += 1;
    }
    let mut rsum = 0u16;
    let mut i = 0;
    while i < N {
        rsum += (2 * st[i] * k + t) / (2 * t);
        i += 1;
    }
    vs::assume(rsum <= k);
    let v = validators(&stakes);
    let f = FaitAccompli2Sampler::minimize_f(&v, K as u64);
    vcheck!(f.len() == N, "minimize_f returned a vector of the wrong length");
    let mut i = 0;
    while i < N {
        let rd = (2 * st[i] * k + t) / (2 * t);
        vcheck!((f[i] * K as f64).round() == rd as f64, "f_i * k differs from round(stake fraction * k)");
        i += 1;
    }
    vcover!(rsum == k, "rounded seats fill the committee exactly");
    vcover!((2 * st[0] * k + t) / (2 * t) > st[0] * k / t, "the stake fraction of validator 0 rounds up");
    std::mem::forget(f);
    std::mem::forget(v);
}

/// Constructed state on the inputs `minimize_f` accepts.  As for FA1 the contents of the
/// stake-dependent vectors (`required_samples`, `medium_nodes`) are not read back (memory cap,
/// measured); their lengths are.
fn fa2_state_body<const N: usize, const K: usize>() {
    let stakes = any_stakes::<N>(1, 8);
    let st: [u16; N] = std::array::from_fn(|i| stakes[i] as u16);
    let k = K as u16;
    let mut t = 0u16;
    let mut i = 0;
    while i < N {
        t += st[i];
        i += 1;
    }
    let mut fsum = 0u16;
    let mut rsum = 0u16;
    let mut ups = 0u16;
    let mut i = 0;
    while i < N {
        let fl = st[i] * k / t;
        let rd = (2 * st[i] * k + t) / (2 * t);
        fsum += fl;
        rsum += rd;
        if rd > fl {
            ups += 1;
        }
        i += 1;
    }
    // the inputs for which minimize_f's assertion holds in exact arithmetic
    vs::assume(rsum <= k);
    let s = FaitAccompli2Sampler::new(validators(&stakes), K as u64);
    vcheck!(s.quorum_size() == K, "quorum_size differs from the configured size");
    vcheck!(s.required_samples.len() == fsum as usize, "number of deterministic seats differs from the sum of floor(stake fraction * k)");
    vcheck!(s.medium_nodes.len() == ups as usize, "number of medium nodes differs from the number of stake fractions that round up");
    vcheck!(s.required_samples.len() + s.medium_nodes.len() <= K, "deterministic plus medium seats exceed the committee size");
    let fb = &s.fallback_sampler;
    vcheck!(fb.validators.len() == N, "fallback sampler lost validators");
    let mut wsum = 0u64;
    let mut i = 0;
    while i < N {
        vcheck!(fb.validators[i].id.as_usize() == i, "fallback sampler reordered validators");
        wsum += fb.validators[i].stake.inner();
        i += 1;
    }
    vcheck!(fb.stake_index.total_weight() == wsum && wsum > 0, "fallback weight index differs from the fallback stakes");
    vcover!(ups > 0, "a medium node exists");
    vcover!(fsum > 0, "a deterministic seat exists");
    std::mem::forget(s);
}

/// `FaitAccompli2Sampler::sample_quorum` from a symbolic state: `R` deterministic seats, `M`
/// medium nodes with arbitrary probabilities in [0, 1], IID fallback over weights 0..=8.
/// Only the committee SIZE is decided: the committee is built by `push` calls of which a
/// stake- and coin-dependent number run, and reading back a vector with conditional
/// reallocation paths exceeds the memory cap (6 M variables at K = 2, measured).
fn fa2_sample_body<const N: usize, const K: usize, const R: usize, const M: usize, const L: usize>() {
    let mut req = Vec::with_capacity(R);
    let mut j = 0;
    while j < R {
        req.push(ValidatorIndex::new(vs::any_below(N as u8) as u64));
        j += 1;
    }
    let mut med = Vec::with_capacity(M);
    let mut j = 0;
    while j < M {
        let id = vs::any_below(N as u8) as u64;
        let p = f64::from_bits(vs::any_u64());
        vs::assume(p >= 0.0 && p <= 1.0);
        med.push((ValidatorIndex::new(id), p));
        j += 1;
    }
    let w = any_stakes::<N>(0, 8);
    vs::assume(total(&w) > 0);
    let mut rng = TapeRng::<L>::draw();
    let fallback_sampler = StakeWeightedSampler::new(validators(&w));
    let s = FaitAccompli2Sampler { required_samples: req, medium_nodes: med, fallback_sampler, k: K };
    let q = s.sample_quorum(&mut rng);
    vcheck!(q.len() == K, "committee size differs from the configured quorum size");
    vcover!(rng.pos == M + (K - R - M), "no medium node drawn, every remaining seat from the fallback");
    vcover!(rng.pos == M + (K - R - M) - M, "every medium node drawn");
    std::mem::forget(s);
    std::mem::forget(q);
}

// ---------------------------------------------------------------------------------------
// instances
// ---------------------------------------------------------------------------------------

macro_rules! h {
    ($name:ident, $unwind:literal, $body:ident :: < $($g:literal),* >) => {
        #[cfg_attr(kani, kani::proof)]
        #[cfg_attr(kani, kani::unwind($unwind))]
        #[cfg_attr(verif_replay, test)]
        fn $name() {
            $body::<$($g),*>()
        }
    };
}

// Unwind bound: every rejection loop can run until the tape is exhausted, so it is L + 2.
// uniform: L = 2K (Canon's method draws at most twice per sample), no rejection loop
h!(c17_uniform_n2_k2, 6, uniform_body::<2, 2, 4>);
h!(c17_uniform_n3_k4, 10, uniform_body::<3, 4, 8>);
// stake weighted: L = K + 1 (one rejection of the unbiased sampler)
h!(c17_stakew_n2_k2, 5, stakew_body::<2, 2, 3>);
h!(c17_stakew_n3_k2, 5, stakew_body::<3, 2, 3>);
h!(c17_stakew_n3_k4, 7, stakew_body::<3, 4, 5>);
// decaying acceptance: L = 2K + 2 (one rejected candidate)
h!(c17_decay_n2_k2_c1, 8, decay_body::<2, 2, 6, 2>);
h!(c17_decay_n3_k2_c1, 8, decay_body::<3, 2, 6, 2>);
h!(c17_decay_n2_k2_c2, 8, decay_body::<2, 2, 6, 3>);
// partition: sample_quorum from a symbolic state (N, K bins, M shares per bin, L = K + 1)
h!(c17_partition_sample_k2_m2, 5, partition_sample_body::<3, 2, 2, 3>);
h!(c17_partition_sample_k3_m2, 6, partition_sample_body::<3, 3, 2, 4>);
h!(c17_partition_sample_k4_m2, 7, partition_sample_body::<3, 4, 2, 5>);
// FA1
h!(c17_fa1w_new_n2_k2, 6, fa1w_new_body::<2, 2>);
h!(c17_fa1w_new_n3_k2, 6, fa1w_new_body::<3, 2>);
h!(c17_fa1w_new_n3_k3, 6, fa1w_new_body::<3, 3>);
h!(c17_fa1w_new_n3_k4, 7, fa1w_new_body::<3, 4>);

macro_rules! hp {
    ($name:ident, $unwind:literal, $body:ident :: < $($g:literal),* >) => {
        #[cfg_attr(kani, kani::proof)]
        #[cfg_attr(kani, kani::stub(crate::disseminator::rotor::sampling_strategy::PartitionSampler::new, crate::disseminator::rotor::sampling_strategy::kani_c17::cut::partition_new))]
        #[cfg_attr(kani, kani::unwind($unwind))]
        #[cfg_attr(verif_replay, test)]
        fn $name() {
            $body::<$($g),*>()
        }
    };
}
hp!(c17_fa1p_new_n2_k2, 6, fa1p_new_body::<2, 2>);
hp!(c17_fa1p_new_n2_k3, 6, fa1p_new_body::<2, 3>);
hp!(c17_fa1p_new_n3_k3, 6, fa1p_new_body::<3, 3>);
h!(c17_fa1_sample_k2_r0, 5, fa1_sample_body::<3, 2, 0, 3>);
h!(c17_fa1_sample_k2_r1, 5, fa1_sample_body::<3, 2, 1, 2>);
h!(c17_fa1_sample_k2_r2, 5, fa1_sample_body::<3, 2, 2, 1>);
h!(c17_fa1_sample_k4_r1, 6, fa1_sample_body::<3, 4, 1, 4>);
h!(c17_fa1_sample_k4_r3, 6, fa1_sample_body::<3, 4, 3, 2>);
// FA2
h!(c17_fa2_minf_n2_k1, 5, fa2_minf_body::<2, 1>);
h!(c17_fa2_minf_n3_k2, 5, fa2_minf_body::<3, 2>);
h!(c17_fa2_minfok_n2_k2, 5, fa2_minf_ok_body::<2, 2>);
h!(c17_fa2_minfok_n3_k3, 5, fa2_minf_ok_body::<3, 3>);
h!(c17_fa2_state_n2_k2, 6, fa2_state_body::<2, 2>);
h!(c17_fa2_state_n3_k2, 6, fa2_state_body::<3, 2>);
h!(c17_fa2_state_n3_k3, 6, fa2_state_body::<3, 3>);
h!(c17_fa2_sample_k2_r0_m1, 6, fa2_sample_body::<3, 2, 0, 1, 4>);
h!(c17_fa2_sample_k2_r1_m1, 5, fa2_sample_body::<3, 2, 1, 1, 2>);
h!(c17_fa2_sample_k3_r1_m2, 6, fa2_sample_body::<3, 3, 1, 2, 4>);
h!(c17_fa2_sample_k3_r1_m1, 6, fa2_sample_body::<3, 3, 1, 1, 4>);

