MOD = "disseminator::rotor::sampling_strategy::kani_c17"
SS = "src/disseminator/rotor/sampling_strategy.rs"
FIX = {"src": "kani_fix.rs", "dest": "src/consensus/kani_fix.rs", "decl_in": "src/consensus.rs", "decl": "pub(crate) mod kani_fix;"}
SAMP = {"src": "C17/kani_samp.rs", "dest": "src/disseminator/rotor/sampling_strategy/kani_samp.rs", "decl_in": SS, "decl": "pub(crate) mod kani_samp;"}
# Kani build only: the ambient generator `rand::rng()` inside sampling_strategy.rs becomes an arbitrary
# pre-drawn stream (kani_samp::ambient_rng).  Native replay keeps the real thread-local generator.
AMBIENT2 = {"file": SS, "pattern": r"(?<![\w.:])rand::random\b", "replacement": "crate::disseminator::rotor::sampling_strategy::kani_samp::ambient_random", "optional": True}
AMBIENT = {"file": SS, "pattern": r"rand::rng\(\)", "replacement": "crate::disseminator::rotor::sampling_strategy::kani_samp::ambient_rng()"}

# Kani build only: parking_lot::Mutex (reaching it is a Kani 0.68 internal compiler error, intrinsics.rs:243)
# becomes a single-threaded cell with the same lock()/guard API.
MUTEX = {"file": SS, "pattern": r"^use parking_lot::Mutex;$", "replacement": "#[cfg(not(kani))]\nuse parking_lot::Mutex;\n#[cfg(kani)]\nuse self::kani_samp::Mutex;", "count": 1}

Q, T = ["quick", "thorough"], ["thorough"]
CAP_Q = {"quick": 720, "thorough": 1500}
CAP_T = {"quick": 900, "thorough": 1500}
STAKES = "stakes symbolic integers 1..=8 per validator"
RNG = "random source = tape of L arbitrary 64-bit words (every stream prefix of that length; streams that need more words are outside the bound)"


def _h(name, tiers, role, functions, bounds, covers, timeout=None, **kw):
    d = {"name": name, "path": MOD, "tiers": tiers, "role": role, "functions": list(functions), "bounds": bounds,
         "covers": covers, "timeout": timeout or (CAP_Q if tiers is Q else CAP_T), "mem_gb": 10}
    d.update(kw)
    return d


RAND = ["rand::distr::weighted::WeightedIndex::{new,sample} (real)", "rand UniformInt::{new,sample,sample_single} (real)"]


def _uniform(n, k, tiers):
    return _h(f"c17_uniform_n{n}_k{k}", tiers, "well-formed/UniformSampler",
              ["UniformSampler::{new,sample}", "IidQuorumSampler::{new,quorum_size,sample_quorum}", "rand RngExt::random_range (real)"],
              f"{n} validators, committee of {k}; {RNG}, L = {2*k}", 2)


def _stakew(n, k, tiers):
    return _h(f"c17_stakew_n{n}_k{k}", tiers, "well-formed + zero-weight/StakeWeightedSampler",
              ["StakeWeightedSampler::{new,sample}", "IidQuorumSampler::{new,quorum_size,sample_quorum}"] + RAND,
              f"{n} validators, stakes symbolic 0..=8 with positive total, committee of {k}; {RNG}, L = {k+1} (one rejection of the unbiased integer sampler)", 2)


def _decay(n, k, cap2, tiers):
    return _h(f"c17_decay_n{n}_k{k}_c{(cap2+1)//2}", tiers, "well-formed + seat cap/DecayingAcceptanceSampler",
              ["DecayingAcceptanceSampler::{new,sample_one,reset,quorum_size,sample_quorum}", "StakeWeightedSampler::{new,sample}", "rand StandardUniform f64 (real)"] + RAND,
              f"{n} validators, {STAKES}, committee of {k}, max_samples = {cap2/2} (seat cap {(cap2+1)//2}); {RNG}, L = {2*k+2} (one rejected candidate)", 2)


def _psample(k, m, tiers):
    return _h(f"c17_partition_sample_k{k}_m{m}", tiers, "well-formed/PartitionSampler::sample_quorum from a symbolic state",
              ["PartitionSampler::{quorum_size,sample_quorum}"] + RAND,
              f"sampler state built by struct literal: {k} bins of {m} shares each, share weights symbolic 0..=8 with positive total per bin, share owners arbitrary among 3 validators; {RNG}, L = {k+1}", 2)


def _fa1new(n, k, tiers):
    return _h(f"c17_fa1w_new_n{n}_k{k}", tiers, "floor guarantee + residual weights/FA1 construction",
              ["FaitAccompli1Sampler::new_with_stake_weighted_fallback", "StakeWeightedSampler::new", "IidQuorumSampler::{new,quorum_size}", "f64 division/multiplication/floor of the seat computation (bit-precise)", "WeightedIndex::new (real)"],
              f"{n} validators, {STAKES}, committee of {k}; constructed state inspected (number of deterministic seats, fallback size, fallback weights)", 2, kani_args=["--solver", "kissat"])


def _fa1pnew(n, k, tiers):
    return _h(f"c17_fa1p_new_n{n}_k{k}", tiers, "floor guarantee + residual weights/FA1 construction with partition fallback",
              ["FaitAccompli1Sampler::new_with_partition_fallback (PartitionSampler::new cut by a recording stub)", "f64 division/multiplication/floor of the seat computation (bit-precise)"],
              f"{n} validators, {STAKES}, committee of {k}; number of deterministic seats, and the validator list / residual stakes / number of bins handed to PartitionSampler::new", 2,
              stubs=["disseminator::rotor::sampling_strategy::PartitionSampler::new"], kani_args=["--solver", "kissat"])


def _fa1sample(k, r, tiers):
    return _h(f"c17_fa1_sample_k{k}_r{r}", tiers, "well-formed/FaitAccompli1Sampler::sample_quorum from a symbolic state",
              ["FaitAccompli1Sampler::{quorum_size,sample_quorum}", "IidQuorumSampler::sample_quorum", "StakeWeightedSampler::{new,sample}"] + RAND,
              f"sampler state built by struct literal: {r} deterministic seats with arbitrary owners among 3 validators, IID fallback of {k-r} seats over weights symbolic 0..=8 (positive total); {RNG}, L = {k-r+1}", 2)


def _fa2state(n, k, tiers):
    return _h(f"c17_fa2_state_n{n}_k{k}", tiers, "floor guarantee + medium nodes/FA2 construction",
              ["FaitAccompli2Sampler::{new,minimize_f,quorum_size}", "StakeWeightedSampler::new", "f64 arithmetic of new/minimize_f (bit-precise)", "WeightedIndex::new (real)"],
              f"{n} validators, {STAKES}, committee of {k}, inputs with sum_i round(stake_i*{k}/total) <= {k} (the ones minimize_f accepts); constructed state inspected (lengths, fallback weight index)", 2, kani_args=["--solver", "kissat"])


def _fa2sample(k, r, m, l, tiers):
    return _h(f"c17_fa2_sample_k{k}_r{r}_m{m}", tiers, "well-formed/FaitAccompli2Sampler::sample_quorum from a symbolic state",
              ["FaitAccompli2Sampler::{quorum_size,sample_quorum}", "StakeWeightedSampler::{new,sample}", "rand Bernoulli::{new,sample}, RngExt::random_bool (real)"] + RAND,
              f"sampler state built by struct literal: {r} deterministic seats, {m} medium nodes with arbitrary owners among 3 validators and arbitrary f64 probabilities in [0, 1], IID fallback over weights symbolic 0..=8 (positive total); {RNG}, L = {l}", 2)


DEFECT_PART = "DEFECT/PartitionSampler::new builds an empty bin"
HARNESSES = [
    _uniform(2, 2, Q), _uniform(3, 4, T),
    _stakew(2, 2, Q), _stakew(3, 2, T), _stakew(3, 4, T),
    _decay(2, 2, 2, T), _decay(3, 2, 2, T), _decay(2, 2, 3, Q),
    _psample(2, 2, Q), _psample(3, 2, T), _psample(4, 2, T),
    _fa1new(2, 2, Q), _fa1new(3, 2, T), _fa1new(3, 3, T), _fa1new(3, 4, T),
    _fa1pnew(2, 3, Q), _fa1pnew(2, 2, T), _fa1pnew(3, 3, T),
    _fa1sample(2, 0, T), _fa1sample(2, 1, Q), _fa1sample(2, 2, T), _fa1sample(4, 1, T), _fa1sample(4, 3, T),
    _h("c17_fa2_minf_n2_k1", Q, "DEFECT/FA2 rounding assertion", ["FaitAccompli2Sampler::minimize_f"], f"2 validators, {STAKES}, committee of 1", 1),
    _h("c17_fa2_minf_n3_k2", T, "DEFECT/FA2 rounding assertion", ["FaitAccompli2Sampler::minimize_f"], f"3 validators, {STAKES}, committee of 2", 1),
    _h("c17_fa2_minfok_n2_k2", Q, "rounded seat fractions/FA2 minimize_f", ["FaitAccompli2Sampler::minimize_f", "f64 division/multiplication/round (bit-precise)"], f"2 validators, {STAKES}, committee of 2, inputs with sum_i round(stake_i*2/total) <= 2", 2),
    _h("c17_fa2_minfok_n3_k3", T, "rounded seat fractions/FA2 minimize_f", ["FaitAccompli2Sampler::minimize_f", "f64 division/multiplication/round (bit-precise)"], f"3 validators, {STAKES}, committee of 3, inputs with sum_i round(stake_i*3/total) <= 3", 2),
    _fa2state(2, 2, Q), _fa2state(3, 2, T), _fa2state(3, 3, T),
    _fa2sample(2, 0, 1, 4, T), _fa2sample(2, 1, 1, 2, Q), _fa2sample(3, 1, 2, 4, T), _fa2sample(3, 1, 1, 4, T),
]

SPEC = {
    "property": "C17",
    "level_text": "Bounded symbolic verification of the real committee samplers with an arbitrary random stream (a rand generator whose every 64-bit word is chosen by the solver; rand's WeightedIndex, Uniform, Bernoulli and f64 arithmetic bit-precise). Decided for <= 3 validators, stakes 1..=8 (0..=8 where zero weights are allowed), committees of <= 4: UniformSampler / StakeWeightedSampler / DecayingAcceptanceSampler return exactly k members of the set, never a zero-weight validator, never more than the seat cap, counters reset; FaitAccompli1Sampler (stake-weighted fallback) is constructed with exactly sum floor(f_i k) deterministic seats, k minus that many fallback seats and residual weights stake_i - floor(f_i k) total / k (which pins each validator's number of deterministic seats), and its sample_quorum returns the deterministic seats as prefix plus members of positive weight; PartitionSampler::sample_quorum draws one positive share from each bin; FaitAccompli2Sampler is constructed with sum floor(f_i k) deterministic seats and one medium node per stake fraction that rounds up, at most k together, and its sample_quorum returns exactly k. c17_fa2_minf_* FAIL on the current tree: minimize_f's assertion sum f_i <= 1 is violated e.g. for two equal stakes and k = 1 (genuine defect, replayed natively). PartitionSampler::new (and so FA1 with the partition fallback, what Rotor::new_fa1 builds) does NOT fit into the solver and is outside the claim; its empty-bin panic is demonstrated natively only.",
    "level_note": "Split into constructor kernels (symbolic stakes, constructed state inspected) and sample_quorum kernels (symbolic sampler state of fixed shape built by struct literal): a stake-dependent committee layout followed by sampling exceeds the memory cap (measured). Contents of stake-dependent vectors (owner ids in required_samples, medium_nodes entries, FA2 committee members) are not read back (memory cap); lengths and weights are. Random streams longer than the tape of each harness are outside its bound. Trusts Kani, CBMC (float bit-blasting), CaDiCaL/kissat; pointer-validity checks off.",
    "design_ref": "DESIGN.md §4 C17",
    "overlays": [FIX, SAMP, {"src": "C17/kani_c17.rs", "dest": "src/disseminator/rotor/sampling_strategy/kani_c17.rs", "decl_in": SS, "decl": "mod kani_c17;"}],
    "redirects": [AMBIENT, AMBIENT2, MUTEX],
    "functions": [
        "disseminator::rotor::sampling_strategy::{UniformSampler, StakeWeightedSampler}::{new,sample}, IidQuorumSampler::{new,quorum_size,sample_quorum}",
        "DecayingAcceptanceSampler::{new,sample_one,reset,quorum_size,sample_quorum}",
        "PartitionSampler::{quorum_size,sample_quorum}",
        "FaitAccompli1Sampler::{new_with_stake_weighted_fallback,quorum_size,sample_quorum}",
        "FaitAccompli2Sampler::{new,minimize_f,quorum_size,sample_quorum}",
        "rand 0.10: WeightedIndex::{new,sample}, UniformInt::{new,sample,sample_single}, Bernoulli::{new,sample}, StandardUniform f64 (real, bit-precise)",
    ],
    "bounds": "<= 3 validators, stakes symbolic 1..=8 (0..=8 with positive total where zero weights are part of the input), committee size <= 4, random tape of K+1 .. 2K+2 arbitrary 64-bit words per harness (one spare rejection), decaying acceptance with max_samples 1.0 / 1.5",
    "explanation": "Bounded symbolic verification (Kani -> CBMC -> CaDiCaL/kissat) of the real sampler code compiled from /repo's working tree. The random source is kani_samp::TapeRng, an implementation of rand's TryRng whose words are all symbolic (the same type replays the solver's words natively); nothing of rand is stubbed. Shape discriminants (validators, seats, deterministic seats, medium nodes, shares per bin, tape length) are fixed per harness and enumerated in the harness list; stakes, weights, owners, probabilities and the random words are symbolic. Expected seat numbers are computed in integer arithmetic in the harness (floor(s k / T), round half up) and compared with what the f64 code produced.",
    "assumptions": [
        "random streams that need more words than the tape of a harness (more than one spare rejection by the unbiased integer sampler / the acceptance test) are outside its bound",
        "sample_quorum kernels start from a sampler state of fixed shape with arbitrary contents that satisfies what the constructor harnesses establish (lengths, positive total weight); owner ids of deterministic seats are arbitrary there, so the floor guarantee per validator composes from: number of deterministic seats per validator (pinned by the residual weights, constructor harness) + deterministic seats are a prefix of every committee (sample harness)",
        "FA2: inputs restricted to those minimize_f accepts in exact arithmetic (sum_i round(stake_i k / total) <= k) except in the c17_fa2_minf_* defect harnesses",
        "parking_lot::Mutex is replaced by a single-threaded cell under Kani (reaching it is a Kani 0.68 internal compiler error); rand::rng() inside sampling_strategy.rs by an arbitrary pre-drawn stream",
        "pointer-validity checks of CBMC are off; Rust panics, overflow and unwinding assertions stay on",
    ],
    "trusted_base": ["kani_samp::TapeRng / ambient stream / Mutex stand-in", "kani_fix validator fixtures", "integer reference formulas floor(s k / T), round(s k / T) in kani_c17.rs"],
    "outside": [
        "PartitionSampler::new and FaitAccompli1Sampler::new_with_partition_fallback (what Rotor::new_fa1 builds): do not fit - ONE validator and 2 bins is 360 k symex steps and > 10 GB in CNF generation, 2 validators 550 k steps (stake-dependent Vec<Vec<_>> layout, 400-byte ValidatorInfo moved at random indices; concrete stakes do not help). Their defects are demonstrated natively only: empty last bin -> WeightedIndex::new panics, e.g. stakes (2,2) with 3 bins, (4) with 3 bins, four validators of stake 1 with k = 3 through FA1, 65 validators of stake 1 with k = 64 (Rotor::new_fa1's parameters)",
        "TurbineSampler (triple f64 loop with powi) and AllSameSampler (trivial)",
        "contents of stake-dependent vectors after construction: owner ids in required_samples, (id, probability) pairs in medium_nodes (so: probabilities within [0, 1] is assumed in the FA2 sample kernel), members of an FA2 committee (only its size is decided): any read of a vector that may have been reallocated with a symbolic size takes the formula from < 1 M to > 6 M variables (measured)",
        "more than 3 validators, stakes above 8, committees above 4 - in particular float rounding at larger sizes: natively, 49 equal stakes with k = 49 give 0 deterministic seats instead of 49 because 1.0/49.0*49.0 < 1.0 (reported, outside the bounds)",
        "statistical properties (proportionality in expectation, variance) of any sampler",
    ],
    "harnesses": HARNESSES,
}
