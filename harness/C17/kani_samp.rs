//! Shared fixtures for the committee-sampling harnesses (overlay module
//! `crate::disseminator::rotor::sampling_strategy::kani_samp`; used by C16 and C17).
//!
//! * [`TapeRng`]: a `rand` random source whose stream is a tape of pre-drawn arbitrary `u64`
//!   values (the same type runs symbolically and in native replay; no stub involved).  A stream
//!   that needs more values than the tape holds is outside the harness bound
//!   (`vs::assume(false)`): this is what bounds every rejection loop.
//! * the *ambient* source: under Kani `rand::rng()` inside `sampling_strategy.rs` is redirected
//!   (spec.py `redirects`) to [`ambient_rng`], which pops from a second pre-drawn tape held in
//!   ghost state.  Natively nothing is redirected: the real thread-local generator runs.
//! * [`validators`]: a validator set with the given stakes.
#![allow(dead_code, unused_imports, clippy::all, static_mut_refs)]

use core::convert::Infallible;

use rand::TryRng;

use crate::verif_std as vs;
use crate::{Stake, ValidatorIndex, ValidatorInfo};

/// Random source = a tape of `L` arbitrary words, drawn up-front by the harness.
pub(crate) struct TapeRng<const L: usize> {
    pub vals: [u64; L],
    pub pos: usize,
}

impl<const L: usize> TapeRng<L> {
    /// Draws the `L` tape values (call order matters for replay: call exactly once, up-front).
    pub(crate) fn draw() -> Self {
        let mut vals = [0u64; L];
        let mut i = 0;
        while i < L {
            vals[i] = vs::any_u64();
            i += 1;
        }
        Self { vals, pos: 0 }
    }
    /// Same tape, rewound.
    pub(crate) fn rewound(&self) -> Self {
        Self { vals: self.vals, pos: 0 }
    }
    fn pop(&mut self) -> u64 {
        // a stream longer than the tape is outside the bound of the harness
        vs::assume(self.pos < L);
        // (an array of scalars: a symbolic index is cheap)
        let v = self.vals[self.pos];
        self.pos += 1;
        v
    }
}

impl<const L: usize> TryRng for TapeRng<L> {
    type Error = Infallible;
    fn try_next_u32(&mut self) -> Result<u32, Infallible> {
        Ok(self.pop() as u32)
    }
    fn try_next_u64(&mut self) -> Result<u64, Infallible> {
        Ok(self.pop())
    }
    fn try_fill_bytes(&mut self, dst: &mut [u8]) -> Result<(), Infallible> {
        let mut i = 0;
        while i < dst.len() {
            let w = self.pop().to_le_bytes();
            let mut j = 0;
            while j < 8 && i < dst.len() {
                dst[i] = w[j];
                i += 1;
                j += 1;
            }
        }
        Ok(())
    }
}

// ---------------------------------------------------------------------------------------
// ambient randomness (Kani only): `rand::rng()` inside sampling_strategy.rs
// ---------------------------------------------------------------------------------------

pub(crate) const AMBIENT_CAP: usize = 8;

/// All ghost state in ONE static with a unique first field (see harness/README.md).
struct Ghost {
    magic: [u64; 2],
    tape: [u64; AMBIENT_CAP],
    len: usize,
    pos: usize,
    /// number of `rand::rng()` handles the code under test asked for
    handles: usize,
    /// asking for the ambient generator is itself the violation (C16 `c16_ambient_partition`)
    forbid: bool,
}
static mut G: Ghost = Ghost { magic: [0x5eed_c17a_0b1e_0017, 0x9e37_79b9_7f4a_7c17], tape: [0; AMBIENT_CAP], len: 0, pos: 0, handles: 0, forbid: false };

/// Draws `n` ambient values (both modes, to keep the draw sequence aligned; natively they are
/// discarded: the real `rand::rng()` runs).
pub(crate) fn draw_ambient(n: usize) {
    assert!(n <= AMBIENT_CAP);
    let mut i = 0;
    while i < n {
        let v = vs::any_u64();
        // SAFETY: harnesses are single-threaded
        unsafe {
            G.tape[i] = v;
        }
        i += 1;
    }
    unsafe {
        G.len = n;
        G.pos = 0;
        G.handles = 0;
    }
}

/// Concrete ambient stream for the enumeration harnesses (Kani: what `rand::rng()` yields;
/// natively ignored: the real thread-local generator runs, any shuffle outcome is as good).
pub(crate) fn set_ambient(vals: &[u64]) {
    assert!(vals.len() <= AMBIENT_CAP);
    unsafe {
        let mut i = 0;
        while i < vals.len() {
            G.tape[i] = vals[i];
            i += 1;
        }
        G.len = vals.len();
        G.pos = 0;
    }
}

/// How many times the code under test obtained the ambient generator (Kani only; natively 0).
pub(crate) fn ambient_handles() -> usize {
    unsafe { G.handles }
}

/// What `rand::rng()` is redirected to under Kani.
pub(crate) struct AmbientRng;

pub(crate) fn ambient_rng() -> AmbientRng {
    unsafe {
        G.handles += 1;
        if G.forbid {
            // The check lives here so that the path can end here: everything the code under test
            // would do with the ambient stream afterwards is beyond the memory cap (C17).
            assert!(false, "construction of the partition sampler depends on ambient randomness, two nodes partition the same validator set differently");
            vs::assume(false);
        }
    }
    AmbientRng
}

/// From now on obtaining the ambient generator is reported as a violation (Kani only; natively
/// `rand::rng()` is not redirected and the harness compares results instead).
pub(crate) fn forbid_ambient() {
    unsafe {
        G.forbid = true;
    }
}

impl AmbientRng {
    fn pop(&mut self) -> u64 {
        unsafe {
            if G.len == 0 {
                vs::unsupported("ambient randomness used by a harness that drew no ambient tape");
            }
            // an ambient stream longer than the tape is outside the bound of the harness
            vs::assume(G.pos < G.len);
            let v = G.tape[G.pos];
            G.pos += 1;
            v
        }
    }
}

impl TryRng for AmbientRng {
    type Error = Infallible;
    fn try_next_u32(&mut self) -> Result<u32, Infallible> {
        Ok(self.pop() as u32)
    }
    fn try_next_u64(&mut self) -> Result<u64, Infallible> {
        Ok(self.pop())
    }
    fn try_fill_bytes(&mut self, _dst: &mut [u8]) -> Result<(), Infallible> {
        vs::unsupported("ambient fill_bytes not modelled")
    }
}


/// What `rand::random()` inside sampling_strategy.rs is redirected to under Kani: any use is a
/// violation ("a function of the validator set and the supplied random source only").  Natively
/// nothing is redirected; the harnesses' determinism sweep (`SweepRng`) shows the same thing.
#[cfg(kani)]
pub(crate) fn ambient_random<T>() -> T {
    unsafe {
        G.handles += 1;
    }
    assert!(false, "sampling consults ambient randomness: the committee is not a function of the validator set and the supplied random source only");
    vs::assume(false);
    // SAFETY: unreachable
    unsafe { std::mem::zeroed() }
}

/// Native-only endless random source (xorshift64*) for determinism sweeps.
#[cfg(not(kani))]
pub(crate) struct SweepRng(pub u64);
#[cfg(not(kani))]
impl SweepRng {
    fn step(&mut self) -> u64 {
        let mut x = self.0;
        x ^= x >> 12;
        x ^= x << 25;
        x ^= x >> 27;
        self.0 = x;
        x.wrapping_mul(0x2545_F491_4F6C_DD1D)
    }
}
#[cfg(not(kani))]
impl TryRng for SweepRng {
    type Error = Infallible;
    fn try_next_u32(&mut self) -> Result<u32, Infallible> {
        Ok((self.step() >> 32) as u32)
    }
    fn try_next_u64(&mut self) -> Result<u64, Infallible> {
        Ok(self.step())
    }
    fn try_fill_bytes(&mut self, dst: &mut [u8]) -> Result<(), Infallible> {
        for b in dst.iter_mut() {
            *b = self.step() as u8;
        }
        Ok(())
    }
}

// ---------------------------------------------------------------------------------------
// validator sets
// ---------------------------------------------------------------------------------------

/// `stakes.len()` validators with ids `0..n` and the given stakes.
pub(crate) fn validators(stakes: &[u64]) -> Vec<ValidatorInfo> {
    let fix = crate::consensus::kani_fix::fixture(stakes, 0);
    let v = fix.epoch.epoch_info().validators().to_vec();
    std::mem::forget(fix);
    v
}

/// `N` stakes in `lo..=hi`.
pub(crate) fn any_stakes<const N: usize>(lo: u8, hi: u8) -> [u64; N] {
    let mut s = [0u64; N];
    let mut i = 0;
    while i < N {
        let v = vs::any_u8();
        vs::assume(v >= lo && v <= hi);
        s[i] = v as u64;
        i += 1;
    }
    s
}

pub(crate) fn total<const N: usize>(s: &[u64; N]) -> u64 {
    let mut t = 0;
    let mut i = 0;
    while i < N {
        t += s[i];
        i += 1;
    }
    t
}

/// Number of occurrences of validator `i` in a committee.
pub(crate) fn count_of(q: &[ValidatorIndex], i: usize) -> u64 {
    let mut c = 0;
    let mut j = 0;
    while j < q.len() {
        if q[j].as_usize() == i {
            c += 1;
        }
        j += 1;
    }
    c
}

// ---------------------------------------------------------------------------------------
// parking_lot::Mutex stand-in (Kani only; single-threaded harnesses)
// ---------------------------------------------------------------------------------------

#[cfg(kani)]
pub(crate) struct Mutex<T>(core::cell::UnsafeCell<T>);
// SAFETY: harnesses are single-threaded
#[cfg(kani)]
unsafe impl<T: Send> Sync for Mutex<T> {}
#[cfg(kani)]
unsafe impl<T: Send> Send for Mutex<T> {}
#[cfg(kani)]
pub(crate) struct MutexGuard<'a, T>(&'a mut T);
#[cfg(kani)]
impl<T> Mutex<T> {
    pub(crate) fn new(v: T) -> Self {
        Self(core::cell::UnsafeCell::new(v))
    }
    pub(crate) fn lock(&self) -> MutexGuard<'_, T> {
        // SAFETY: single-threaded; the code under test never holds two guards at once
        MutexGuard(unsafe { &mut *self.0.get() })
    }
}
#[cfg(kani)]
impl<T> core::ops::Deref for MutexGuard<'_, T> {
    type Target = T;
    fn deref(&self) -> &T {
        self.0
    }
}
#[cfg(kani)]
impl<T> core::ops::DerefMut for MutexGuard<'_, T> {
    fn deref_mut(&mut self) -> &mut T {
        self.0
    }
}
