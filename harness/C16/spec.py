ROTOR = "disseminator::rotor::kani_c16_rotor"
TURB = "disseminator::turbine::kani_c16_turbine"
SS = "src/disseminator/rotor/sampling_strategy.rs"
RS, TS = "src/disseminator/rotor.rs", "src/disseminator/turbine.rs"
ENV = "crate::disseminator::kani_c16_env"

OVERLAYS = [
    {"src": "kani_fix.rs", "dest": "src/consensus/kani_fix.rs", "decl_in": "src/consensus.rs", "decl": "pub(crate) mod kani_fix;"},
    {"src": "C17/kani_samp.rs", "dest": "src/disseminator/rotor/sampling_strategy/kani_samp.rs", "decl_in": SS, "decl": "pub(crate) mod kani_samp;"},
    {"src": "C16/kani_c16_env.rs", "dest": "src/disseminator/kani_c16_env.rs", "decl_in": "src/disseminator.rs", "decl": "pub(crate) mod kani_c16_env;"},
    {"src": "C16/kani_c16_shred.rs", "dest": "src/shredder/kani_c16_shred.rs", "decl_in": "src/shredder.rs", "decl": "pub(crate) mod kani_c16_shred;"},
    {"src": "C16/kani_c16_rotor.rs", "dest": "src/disseminator/rotor/kani_c16_rotor.rs", "decl_in": RS, "decl": "mod kani_c16_rotor;"},
    {"src": "C16/kani_c16_turbine.rs", "dest": "src/disseminator/turbine/kani_c16_turbine.rs", "decl_in": TS, "decl": "mod kani_c16_turbine;"},
]


def _split(file, line, repl):
    import re
    return {"file": file, "pattern": r"^" + re.escape(line) + r"$", "replacement": "#[cfg(not(kani))]\n" + line + "\n#[cfg(kani)]\n" + repl, "count": 1}


def _shadow(file, line, extra):
    import re
    return {"file": file, "pattern": r"^" + re.escape(line) + r"$", "replacement": line + "\n#[cfg(kani)]\n" + extra, "count": 1}


# Kani build only (the native replay uses the real items):
REDIRECTS = [
    # quick_cache (concurrent sharded map, ahash) -> one-entry memo that may forget
    _split(RS, "use quick_cache::sync::Cache;", f"use {ENV}::Cache;"),
    _split(TS, "use quick_cache::sync::Cache;", f"use {ENV}::Cache;"),
    # ChaCha12 StdRng -> injective stream model (stream = seed); an explicit import shadows the glob
    _shadow(RS, "use rand::prelude::*;", f"use {ENV}::StdRng;"),
    _shadow(TS, "use rand::prelude::*;", f"use {ENV}::StdRng;"),
    # stake-weighted shuffle -> arbitrary pre-drawn permutation (the real one is decided by c16_wshuffle_*)
    _split(TS, "pub(crate) use self::weighted_shuffle::WeightedShuffle;", f"pub(crate) use {ENV}::WeightedShuffle;"),
    # the ambient generator inside sampling_strategy.rs -> counted arbitrary stream (kani_samp::ambient_rng)
    {"file": SS, "pattern": r"rand::rng\(\)", "replacement": "crate::disseminator::rotor::sampling_strategy::kani_samp::ambient_rng()"},
    {"file": SS, "pattern": r"(?<![\w.:])rand::random\b", "replacement": "crate::disseminator::rotor::sampling_strategy::kani_samp::ambient_random", "optional": True},
]

Q, T = ["quick", "thorough"], ["thorough"]
CAP_Q = {"quick": 720, "thorough": 1500}
CAP_T = {"quick": 900, "thorough": 1500}
KEY = "slot any u64, slice any index < 1024, shred index any < 64"


def _h(name, path, tiers, role, functions, bounds, covers, timeout=None, **kw):
    d = {"name": name, "path": path, "tiers": tiers, "role": role, "functions": list(functions), "bounds": bounds,
         "covers": covers, "timeout": timeout or (CAP_Q if tiers is Q else CAP_T), "mem_gb": 10}
    d.update(kw)
    return d


ROTOR_FNS = ["Rotor::broadcast_if_relay", "Rotor::send_as_leader", "Rotor::sample_relay", "Rotor::sample_relays", "<Rotor as Disseminator>::{send,forward}", "EpochInfo::{leader,validator,validators}", "ValidatorEpochInfo::own_id"]
TREE_FNS = ["TurbineTree::{new,get_root,get_parent,get_children}"]


def _dest(n, tiers):
    return _h(f"c16_rotor_dest_n{n}", ROTOR, tiers, "relay broadcast destinations", ROTOR_FNS,
              f"{n} validators, own id symbolic, {KEY}; relay committee of period 8 over 8 arbitrary validators (mock QuorumSamplingStrategy); recording Network", 3, kani_args=["--solver", "kissat"])


def _leader(n, tiers):
    return _h(f"c16_rotor_leader_n{n}", ROTOR, tiers, "leader unicast destination", ROTOR_FNS,
              f"{n} validators, own id symbolic, {KEY}; relay committee of period 8 over 8 arbitrary validators (mock QuorumSamplingStrategy); recording Network", 2)


def _tree(n, tiers):
    return _h(f"c16_turbine_tree_n{n}", TURB, tiers, "tree views of two nodes fit", TREE_FNS,
              f"{n} validators, shuffle order = arbitrary permutation of {n}, fanout symbolic 1..=3, two arbitrary different nodes, slot any u64, index in slot any < 65536", 5)


def _reach(n, tiers):
    return _h(f"c16_turbine_reach_n{n}", TURB, tiers, "every validator delivered exactly once, connected to the root", TREE_FNS,
              f"{n} validators, all {n} views of one tree, shuffle order = arbitrary permutation of {n}, fanout symbolic 1..=3, slot any u64, index in slot any < 65536", 2)


HARNESSES = [
    _h("c16_rotor_seed", ROTOR, Q, "relay sampler seed = injective function of (slot, slice) only", ["Rotor::sample_relays"],
       "two nodes (ids symbolic among 3, each with its own fresh cache and arbitrary committee), two (slot, slice) pairs over all of u64 x usize", 3),
    _h("c16_rotor_cache", ROTOR, Q, "memoisation does not change routing", ["Rotor::sample_relay", "Rotor::sample_relays"],
       f"3 validators; a node that routed one shred before (cache keeps or forgets each committee) vs a fresh node, second shred arbitrary; {KEY} for both; committee depends on the generator stream", 2),
    _h("c16_rotor_resample", ROTOR, Q, "exchanging the sampler invalidates cached committees", ["Rotor::with_sampler", "Rotor::sample_relay", "Rotor::sample_relays"],
       f"3 validators; a node that routed one shred under sampler S1 and was switched to S2 (Rotor::with_sampler) vs a node built with S2; both shreds arbitrary ({KEY}), S1 / S2 arbitrary stream-dependent committees", 2),
    _dest(2, T), _dest(3, Q), _dest(4, T),
    _leader(2, T), _leader(4, Q),
    _h("c16_turbine_seed", TURB, Q, "tree shuffle seed = injective function of (slot, shred index) only", ["TurbineTree::new"],
       "two nodes (ids symbolic among 16), two (slot, shred index) pairs over all of u64 x usize", 3, kani_args=["--solver", "kissat"]),
    _h("c16_ambient_partition", ROTOR, Q, "DEFECT/construction of the partition sampler consults ambient randomness", ["PartitionSampler::new"],
       "3 validators, stakes symbolic 1..=4, 2 bins; Kani: rand::rng() redirected to a counted arbitrary stream; native: 33 constructions compared", 1),
    _tree(2, T), _tree(3, Q), _tree(4, T), _tree(5, T),
    _reach(1, T), _reach(3, Q), _reach(4, T),
]

SPEC = {
    "property": "C16",
    "level_text": "Bounded symbolic verification of the real routing code (Rotor relay selection and forwarding, Turbine tree construction), kernel by kernel. (1) Seeds: the 32-byte seed that Rotor::sample_relays / TurbineTree::new hand to the random generator is decided to be an injective function of (slot, slice) resp. (slot, shred index) and of nothing else (not the node id, not the cache, not the committee), over all of u64 x usize. (2) Turbine: for every order the stake-weighted shuffle can produce (arbitrary permutation of 1..=5 validators), every fanout 1..=3 and every pair of nodes, the two nodes' views of the tree fit (same root; b is a child of a exactly if a is the parent of b; root has no parent, every other node exactly one; no child beyond the set, no duplicates); with all views of one tree (<= 4 validators) every validator is delivered the shred exactly once and is connected to the root. (3) Rotor: on a recording Network the relay of a shred, and only the relay, broadcasts it once to exactly the validators other than itself and the leader; the leader sends it to exactly relays[shred index]; a node with cached committees and a fresh node pick the same relay. (4) c16_ambient_partition FAILS on the current tree: the partition sampler behind Rotor::new_fa1 is built with the thread-local generator (genuine defect, replayed natively). Not a proof; the end-to-end run over a network is not claimed.",
    "level_note": "Under Kani: ChaCha12 (StdRng) is modelled as an injective stream function of its seed, quick_cache as a one-entry memo that may forget, the stake-weighted shuffle as an arbitrary permutation (its real implementation is NOT decided: assumption), the committee sampler as an arbitrary committee; native replay uses the real items. Bounds: <= 5 validators (Turbine pair), <= 4 (all views, Rotor), fanout 1..=3, committees of period 8. Trusts Kani, CBMC, CaDiCaL/kissat; pointer-validity checks off.",
    "design_ref": "DESIGN.md §4 C16",
    "overlays": OVERLAYS,
    "redirects": REDIRECTS,
    "functions": [
        "disseminator::rotor::Rotor::{sample_relays,sample_relay,broadcast_if_relay,send_as_leader}, <Rotor as Disseminator>::{send,forward}",
        "disseminator::turbine::TurbineTree::{new,get_root,get_parent,get_children}",
        "consensus::EpochInfo::{new,leader,validator,validators}, ValidatorEpochInfo::{new,own_id,epoch_info}",
        "disseminator::rotor::sampling_strategy::PartitionSampler::new (only up to its request for the ambient generator)",
    ],
    "bounds": "Turbine: 2..=5 validators (two views) / 1..=4 validators (all views), fanout 1..=3, shuffle order any permutation, slot any u64, index in slot < 65536; seeds: all of u64 x usize; Rotor: 2..=4 validators, own id symbolic, slot any u64, slice < 1024, shred index < 64, committee of period 8 over 8 arbitrary validators",
    "explanation": "Bounded symbolic verification (Kani -> CBMC -> CaDiCaL/kissat) of the real routing functions compiled from /repo's working tree, split into kernels: seed functions (observed through the first 4 words a consumer reads from the seeded generator: the seed itself under the ChaCha model, the ChaCha12 key stream natively), Turbine tree arithmetic over an arbitrary shuffle order, Rotor destinations on a recording implementation of the crate's Network trait driven by a poll-once executor, memoisation independence against a cache that keeps or forgets every entry. Counterexamples are re-executed natively on the real ChaCha12, the real quick_cache and the real weighted shuffle; because the native shuffle order is not the solver's, the Turbine replays evaluate the same universally quantified assertions for every pair of nodes over 64 consecutive slots.",
    "assumptions": [
        "the stake-weighted shuffle (turbine::weighted_shuffle) yields every validator index exactly once and is a function of the weights and the generator stream only: NOT decided (2.1 M symex steps for two weights, beyond the memory cap); replaced by an arbitrary permutation under Kani",
        "ChaCha12 seeded with different seeds gives different streams (modelled: stream = seed); nothing about its statistical quality is claimed",
        "every eviction policy of quick_cache is a refinement of 'an inserted entry is kept or forgotten, a returned value is one inserted under that key'",
        "the committee sampler is a function of its own state and the generator it is handed (C17 decides that for the shipped samplers, except PartitionSampler::new: see the finding)",
        "all nodes hold the same validator list (EpochInfo::new) and the Network delivers what it is given (fault-free run)",
        "pointer-validity checks of CBMC are off; Rust panics, overflow and unwinding assertions stay on",
    ],
    "trusted_base": ["kani_c16_env stand-ins (Cache, StdRng stream model, WeightedShuffle permutation), recording Network, poll-once executor", "kani_fix validator fixtures", "MockSampler / KeyedSampler implementations of QuorumSamplingStrategy"],
    "outside": [
        "the end-to-end delivery run over a (simulated) network: composition of the kernels is argued, not executed",
        "turbine::weighted_shuffle::WeightedShuffle itself (permutation property assumed; did not fit: measured 2.1 M steps / > 10 GB for 2 weights)",
        "Turbine::{forward_shred, send_shred_to_root, get_tree}: the mapping of children/root to addresses and the tree cache (did not fit: cloning a child list of position-dependent length, > 10 GB for 3 validators)",
        "quick_cache's own implementation (concurrent sharded map) and ChaCha12 itself",
        "more than 5 validators, fanout above 3 (DEFAULT_FANOUT = 200 is far outside), TOTAL_SHREDS-wide arbitrary committees (period-8 committees only)",
        "PartitionSampler::new beyond its first request for the ambient generator (C17: does not fit)",
    ],
    "harnesses": HARNESSES,
}
