//! Environment of the C16 harnesses (overlay module `crate::disseminator::kani_c16_env`).
//!
//! Real in both modes (no stub): the recording network [`RecNet`] (an implementation of the
//! crate's `Network` trait), the poll-once executor, the validator fixtures.
//!
//! Kani only (by import redirection in `rotor.rs` / `turbine.rs`, see spec.py; the native replay
//! uses the real items):
//! * [`Cache`] for `quick_cache::sync::Cache`: a one-entry memo that may forget (every eviction
//!   policy is a refinement of "an inserted entry is kept or not");
//! * [`StdRng`] for `rand::rngs::StdRng`: ChaCha12 modelled as an injective stream function of
//!   the seed — the stream IS the seed (4 words).  What a consumer reads from the generator is
//!   therefore the seed itself under Kani and the ChaCha12 key stream natively;
//! * [`WeightedShuffle`] for `turbine::weighted_shuffle::WeightedShuffle`: yields an arbitrary
//!   pre-drawn permutation and records the 4 stream words it was given.
#![allow(dead_code, unused_imports, clippy::all, static_mut_refs)]

use core::cell::UnsafeCell;
use core::convert::Infallible;
use std::borrow::Borrow;
use std::future::Future;
use std::io;
use std::net::{IpAddr, Ipv4Addr, SocketAddr};
use std::sync::Arc;
use std::task::{Context, Poll, Waker};

use rand::{Rng, TryRng};

use crate::consensus::{EpochInfo, ValidatorEpochInfo};
use crate::network::Network;
use crate::shredder::Shred;
use crate::verif_std as vs;
use crate::{Stake, ValidatorIndex, ValidatorInfo};

// ---------------------------------------------------------------------------------------
// ghost state (ONE static, unique first field: see harness/README.md)
// ---------------------------------------------------------------------------------------

pub(crate) const PERM_CAP: usize = 16;

struct Ghost {
    magic: [u64; 2],
    /// pre-drawn permutation the stand-in shuffle yields
    perm: [usize; PERM_CAP],
    perm_len: usize,
    /// stream words seen by the last consumer (stand-in shuffle / mock sampler)
    fp: [u64; 4],
    /// how many times a consumer ran
    consumers: usize,
    /// cache retention decisions, one per insert
    keep: [bool; 4],
    keep_len: usize,
    inserts: usize,
    hits: usize,
}
static mut G: Ghost = Ghost {
    magic: [0x5eed_c16a_0b1e_0016, 0x9e37_79b9_7f4a_7c16],
    perm: [0; PERM_CAP],
    perm_len: 0,
    fp: [0; 4],
    consumers: 0,
    keep: [true; 4],
    keep_len: 0,
    inserts: 0,
    hits: 0,
};

/// Records the 4 stream words a consumer of the seeded generator saw.
pub(crate) fn record_stream<R: Rng>(rng: &mut R) {
    let w = [rng.next_u64(), rng.next_u64(), rng.next_u64(), rng.next_u64()];
    // SAFETY: harnesses are single-threaded
    unsafe {
        G.fp = w;
        G.consumers += 1;
    }
}
pub(crate) fn last_stream() -> [u64; 4] {
    unsafe { G.fp }
}
pub(crate) fn consumers() -> usize {
    unsafe { G.consumers }
}
pub(crate) fn cache_hits() -> usize {
    unsafe { G.hits }
}

/// Draws an arbitrary permutation of `0..N` (N <= 5) for the stand-in shuffle (both modes, to
/// keep the draw sequence aligned; natively the real weighted shuffle runs and ignores it).
pub(crate) fn draw_perm<const N: usize>() -> [usize; N] {
    let mut p = [0usize; N];
    let mut i = 0;
    while i < N {
        p[i] = vs::any_below(N as u8) as usize;
        let mut j = 0;
        while j < i {
            vs::assume(p[j] != p[i]);
            j += 1;
        }
        i += 1;
    }
    set_perm(&p);
    p
}
pub(crate) fn set_perm(p: &[usize]) {
    assert!(p.len() <= PERM_CAP);
    unsafe {
        let mut i = 0;
        while i < p.len() {
            G.perm[i] = p[i];
            i += 1;
        }
        G.perm_len = p.len();
    }
}

/// Draws the retention decision of the next `n` cache inserts (Kani: used by the stand-in
/// cache; natively discarded, quick_cache decides itself).
pub(crate) fn draw_cache_policy(n: usize) {
    assert!(n <= 4);
    let mut i = 0;
    while i < n {
        let b = vs::any_bool();
        unsafe {
            G.keep[i] = b;
        }
        i += 1;
    }
    unsafe {
        G.keep_len = n;
        G.inserts = 0;
    }
}

// ---------------------------------------------------------------------------------------
// stand-ins (Kani build only, by import redirection)
// ---------------------------------------------------------------------------------------

/// One-entry memo that may forget.
pub(crate) struct Cache<K, V> {
    slot: UnsafeCell<Option<(K, V)>>,
}
// SAFETY: harnesses are single-threaded
unsafe impl<K, V> Sync for Cache<K, V> {}
unsafe impl<K, V> Send for Cache<K, V> {}

impl<K: PartialEq, V: Clone> Cache<K, V> {
    pub(crate) fn new(_capacity: usize) -> Self {
        Self { slot: UnsafeCell::new(None) }
    }
    pub(crate) fn get(&self, key: &K) -> Option<V> {
        // SAFETY: single-threaded, no reference escapes
        let s = unsafe { &*self.slot.get() };
        match s {
            Some((k, v)) if k == key => {
                unsafe {
                    G.hits += 1;
                }
                Some(v.clone())
            }
            _ => None,
        }
    }
    pub(crate) fn insert(&self, key: K, value: V) {
        let keep = unsafe {
            let i = G.inserts;
            G.inserts += 1;
            if i < G.keep_len { G.keep[i] } else { true }
        };
        if keep {
            // SAFETY: as above
            let old = unsafe { (*self.slot.get()).replace((key, value)) };
            std::mem::forget(old);
        } else {
            std::mem::forget((key, value));
        }
    }
}

/// ChaCha12 as an injective stream function of the seed: the stream is the seed.
pub(crate) struct StdRng {
    w: [u64; 4],
    pos: usize,
}
impl StdRng {
    pub(crate) fn from_seed(seed: [u8; 32]) -> Self {
        Self { w: vs::bytes_to_words(&seed), pos: 0 }
    }
}
impl TryRng for StdRng {
    type Error = Infallible;
    fn try_next_u32(&mut self) -> Result<u32, Infallible> {
        vs::unsupported("seeded generator model: only 64-bit reads are modelled")
    }
    fn try_next_u64(&mut self) -> Result<u64, Infallible> {
        if self.pos >= 4 {
            vs::unsupported("seeded generator model: stream longer than the seed");
        }
        let v = self.w[self.pos];
        self.pos += 1;
        Ok(v)
    }
    fn try_fill_bytes(&mut self, _dst: &mut [u8]) -> Result<(), Infallible> {
        vs::unsupported("seeded generator model: fill_bytes not modelled")
    }
}

/// Arbitrary pre-drawn permutation instead of the stake-weighted shuffle.
pub(crate) struct WeightedShuffle {
    n: usize,
}
impl WeightedShuffle {
    pub(crate) fn new<I>(weights: I) -> Self
    where
        I: IntoIterator<Item: Borrow<Stake>>,
        <I as IntoIterator>::IntoIter: ExactSizeIterator,
    {
        Self { n: weights.into_iter().len() }
    }
    pub(crate) fn shuffle<'a, R: Rng>(&'a mut self, rng: &'a mut R) -> impl Iterator<Item = usize> + 'a {
        record_stream(rng);
        let n = self.n;
        if n != unsafe { G.perm_len } {
            vs::unsupported("stand-in shuffle: no permutation of that length was drawn");
        }
        (0..n).map(|i| unsafe { G.perm[i] })
    }
}

// ---------------------------------------------------------------------------------------
// recording network (real in both modes)
// ---------------------------------------------------------------------------------------

pub(crate) const DEST_CAP: usize = 8;

#[derive(Clone, Copy)]
pub(crate) struct Rec {
    /// `send` calls and the port of the last one
    pub sends: usize,
    pub send_port: u16,
    /// `send_to_many` calls, destinations of all of them in order
    pub many_calls: usize,
    pub many_n: usize,
    pub many_ports: [u16; DEST_CAP],
}

pub(crate) struct RecNet {
    rec: UnsafeCell<Rec>,
}
// SAFETY: harnesses are single-threaded
unsafe impl Sync for RecNet {}
unsafe impl Send for RecNet {}

impl RecNet {
    pub(crate) fn new() -> Self {
        Self { rec: UnsafeCell::new(Rec { sends: 0, send_port: 0, many_calls: 0, many_n: 0, many_ports: [0; DEST_CAP] }) }
    }
    pub(crate) fn rec(&self) -> Rec {
        // SAFETY: single-threaded
        unsafe { *self.rec.get() }
    }
    /// How many recorded broadcast destinations equal `port`.
    pub(crate) fn many_count(&self, port: u16) -> usize {
        let r = self.rec();
        let mut c = 0;
        let mut i = 0;
        while i < DEST_CAP {
            if i < r.many_n && r.many_ports[i] == port {
                c += 1;
            }
            i += 1;
        }
        c
    }
}

impl Network for RecNet {
    type Send = Shred;
    type Recv = Shred;

    // Both sends record when called and return a ready future: the callers await them on the
    // spot, and keeping the destination iterator out of a future's state keeps its bounds
    // constant for the symbolic executor (a future is moved as one >64-byte block).
    fn send(&self, _message: &Shred, addr: SocketAddr) -> impl Future<Output = io::Result<()>> + Send {
        // SAFETY: single-threaded
        let r = unsafe { &mut *self.rec.get() };
        r.sends += 1;
        r.send_port = addr.port();
        std::future::ready(Ok(()))
    }

    fn send_to_many(&self, _message: &Shred, addrs: impl IntoIterator<Item = SocketAddr> + Send) -> impl Future<Output = io::Result<()>> + Send {
        // SAFETY: single-threaded
        let r = unsafe { &mut *self.rec.get() };
        r.many_calls += 1;
        for a in addrs {
            if r.many_n >= DEST_CAP {
                vs::unsupported("recording network: more destinations than the model holds");
            }
            r.many_ports[r.many_n] = a.port();
            r.many_n += 1;
        }
        std::future::ready(Ok(()))
    }

    fn receive(&self) -> impl Future<Output = io::Result<Shred>> + Send {
        std::future::pending()
    }
}

/// Polls once with a no-op waker; none of the handlers under test can legitimately suspend on
/// the recording network.
pub(crate) fn block_on_ready<F: Future>(fut: F) -> F::Output {
    let w = Waker::noop();
    let mut cx = Context::from_waker(w);
    let mut fut = std::pin::pin!(fut);
    match fut.as_mut().poll(&mut cx) {
        Poll::Ready(v) => v,
        Poll::Pending => vs::unsupported("handler suspended on the recording network"),
    }
}

/// `true` iff `Ok`; the error (never produced by the recording network) is forgotten, not
/// dropped (drop glue of `io::Error` is dynamic dispatch).
pub(crate) fn is_ok(r: io::Result<()>) -> bool {
    match r {
        Ok(()) => true,
        Err(e) => {
            std::mem::forget(e);
            false
        }
    }
}

// ---------------------------------------------------------------------------------------
// fixtures
// ---------------------------------------------------------------------------------------

/// Dissemination port of validator `i`.
pub(crate) fn port_of(i: usize) -> u16 {
    1000 + i as u16
}

/// Validators `0..n` with the given stakes and pairwise distinct dissemination addresses.
pub(crate) fn validators(stakes: &[u64]) -> Vec<ValidatorInfo> {
    let fix = crate::consensus::kani_fix::fixture(stakes, 0);
    let mut v = fix.epoch.epoch_info().validators().to_vec();
    std::mem::forget(fix);
    let mut i = 0;
    while i < v.len() {
        v[i].disseminator_address = SocketAddr::new(IpAddr::V4(Ipv4Addr::LOCALHOST), port_of(i));
        i += 1;
    }
    v
}

pub(crate) fn epoch(stakes: &[u64], own: usize) -> Arc<ValidatorEpochInfo> {
    Arc::new(ValidatorEpochInfo::new(ValidatorIndex::new(own as u64), EpochInfo::new(validators(stakes))))
}
