//! Shred fixture for C16 (overlay module `crate::shredder::kani_c16_shred`, child of `shredder`:
//! builds a `Shred` by struct literal).  Routing reads only `header.slot`,
//! `header.slice_index` and `shred_index`; payload, signature and Merkle path are empty.
#![allow(dead_code, unused_imports, clippy::all)]

use super::*;
use crate::Slot;
use crate::crypto::merkle::SliceProof;
use crate::types::slice_index::MAX_SLICES_PER_BLOCK;
use crate::types::{SliceHeader, SliceIndex};

/// `slice < MAX_SLICES_PER_BLOCK`, `index < TOTAL_SHREDS` (the invariants of the index types).
pub(crate) fn mk_shred(slot: u64, slice: usize, index: usize) -> Shred {
    assert!(slice < MAX_SLICES_PER_BLOCK && index < TOTAL_SHREDS);
    // SAFETY: SliceIndex is repr(transparent) over usize; the range invariant was just checked
    let slice_index: SliceIndex = unsafe { std::mem::transmute::<usize, SliceIndex>(slice) };
    let shred_index = ShredIndex::new(index).expect("index checked above");
    let payload = ShredPayload { header: SliceHeader { slot: Slot::new(slot), slice_index, is_last: false }, shred_index, data: Vec::new() };
    Shred {
        payload_type: ShredPayloadType::Data(payload),
        // SAFETY: 64 plain bytes, never verified by the routing code
        slice_sig: unsafe { std::mem::zeroed() },
        merkle_path: SliceProof::from(Vec::new()),
    }
}
