//! C16 harnesses, Rotor part (overlay module `crate::disseminator::rotor::kani_c16_rotor`,
//! child of `rotor`: builds `Rotor` by struct literal, calls its private methods).
//!
//! The committee sampler is [`MockSampler`], an implementation of the crate's
//! `QuorumSamplingStrategy` trait (a real type parameter in both modes, not a stub): it returns
//! an arbitrary pre-drawn committee and records the first 4 words of the generator it is handed.
//! Under Kani the generator is `kani_c16_env::StdRng` (stream = seed), natively the real
//! ChaCha12 `StdRng`: equal records <=> equal seeds in both modes (natively up to a collision
//! of 256 key-stream bits).
#![allow(dead_code, unused_imports, clippy::all)]

use super::*;
use crate::disseminator::kani_c16_env::{self as env, RecNet, block_on_ready, is_ok, port_of};
use crate::shredder::kani_c16_shred::mk_shred;
use crate::types::slice_index::MAX_SLICES_PER_BLOCK;
use crate::verif_std as vs;
use crate::verif_std::{vcheck, vcover};

/// Arbitrary committee of period 8 (`committee[i] = base[i % 8]`, 8 arbitrary validators; a
/// single routing decision reads one position, and `i % 8` reaches every base entry), built
/// without loops so that the harness unwind bound can stay small.  The generator's first
/// words are recorded in `kani_c16_env`.
pub(crate) struct MockSampler<const N: usize> {
    committee: [ValidatorIndex; TOTAL_SHREDS],
}
const _: () = assert!(TOTAL_SHREDS == 64);
fn spread(b: [u8; 8]) -> [ValidatorIndex; TOTAL_SHREDS] {
    let v = |x: u8| ValidatorIndex::new(x as u64);
    [v(b[0]), v(b[1]), v(b[2]), v(b[3]), v(b[4]), v(b[5]), v(b[6]), v(b[7]), v(b[0]), v(b[1]), v(b[2]), v(b[3]), v(b[4]), v(b[5]), v(b[6]), v(b[7]), v(b[0]), v(b[1]), v(b[2]), v(b[3]), v(b[4]), v(b[5]), v(b[6]), v(b[7]), v(b[0]), v(b[1]), v(b[2]), v(b[3]), v(b[4]), v(b[5]), v(b[6]), v(b[7]), v(b[0]), v(b[1]), v(b[2]), v(b[3]), v(b[4]), v(b[5]), v(b[6]), v(b[7]), v(b[0]), v(b[1]), v(b[2]), v(b[3]), v(b[4]), v(b[5]), v(b[6]), v(b[7]), v(b[0]), v(b[1]), v(b[2]), v(b[3]), v(b[4]), v(b[5]), v(b[6]), v(b[7]), v(b[0]), v(b[1]), v(b[2]), v(b[3]), v(b[4]), v(b[5]), v(b[6]), v(b[7])]
}
fn any_base<const N: usize>() -> [u8; 8] {
    [vs::any_below(N as u8), vs::any_below(N as u8), vs::any_below(N as u8), vs::any_below(N as u8), vs::any_below(N as u8), vs::any_below(N as u8), vs::any_below(N as u8), vs::any_below(N as u8)]
}
impl<const N: usize> MockSampler<N> {
    fn draw() -> Self {
        Self { committee: spread(any_base::<N>()) }
    }
    fn relay(&self, index: usize) -> usize {
        self.committee[index].as_usize()
    }
}
impl<const N: usize> QuorumSamplingStrategy for MockSampler<N> {
    fn quorum_size(&self) -> usize {
        TOTAL_SHREDS
    }
    fn sample_quorum<R: Rng>(&self, rng: &mut R) -> Vec<ValidatorIndex> {
        env::record_stream(rng);
        self.committee.to_vec()
    }
}

type MockRotor<const N: usize> = Rotor<RecNet, MockSampler<N>>;

fn rotor<const N: usize>(own: usize, sampler: MockSampler<N>) -> MockRotor<N> {
    Rotor { network: RecNet::new(), sampler, epoch_info: env::epoch(&[1u64; N], own), relay_cache: Cache::new(MAX_CACHED_COMMITTEES) }
}

struct Key {
    slot: u64,
    slice: usize,
    index: usize,
}
fn any_key() -> Key {
    let slot = vs::any_u64();
    let slice = vs::any_u16() as usize;
    vs::assume(slice < MAX_SLICES_PER_BLOCK);
    let index = vs::any_below(TOTAL_SHREDS as u8) as usize;
    Key { slot, slice, index }
}

/// `forward` (= `broadcast_if_relay`): the relay of the shred, and only the relay, broadcasts
/// it once, to every validator except itself and the leader.
fn dest_body<const N: usize>() {
    let own = vs::any_below(N as u8) as usize;
    let key = any_key();
    let sampler = MockSampler::<N>::draw();
    let relay = sampler.relay(key.index);
    let r = rotor::<N>(own, sampler);
    let shred = mk_shred(key.slot, key.slice, key.index);
    let leader = r.epoch_info.epoch_info().leader(Slot::new(key.slot)).id.as_usize();

    let ok = is_ok(block_on_ready(Disseminator::forward(&r, &shred)));
    vcheck!(ok, "forward failed on a network that never fails");
    let rec = r.network.rec();
    vcheck!(rec.sends == 0, "forward used a unicast send");
    if own == relay {
        vcheck!(rec.many_calls == 1, "the relay did not broadcast exactly once");
        let mut expected = 0;
        let mut i = 0;
        while i < N {
            let want = if i != relay && i != leader { 1 } else { 0 };
            vcheck!(r.network.many_count(port_of(i)) == want, "relay broadcast does not reach exactly the validators other than relay and leader, once each");
            expected += want;
            i += 1;
        }
        vcheck!(rec.many_n == expected, "relay broadcast has destinations outside the validator set");
    } else {
        vcheck!(rec.many_calls == 0 && rec.many_n == 0, "a validator that is not the relay of the shred sent it");
    }
    vcover!(own == relay && relay == leader, "the leader is its own relay");
    vcover!(own == relay && relay != leader, "a relay other than the leader broadcasts");
    vcover!(own != relay, "not the relay");
    std::mem::forget(r);
    std::mem::forget(shred);
}

/// `send` (= `send_as_leader`): exactly one unicast, to the relay at the shred's position.
fn leader_body<const N: usize>() {
    let own = vs::any_below(N as u8) as usize;
    let key = any_key();
    let sampler = MockSampler::<N>::draw();
    let relay = sampler.relay(key.index);
    let r = rotor::<N>(own, sampler);
    let shred = mk_shred(key.slot, key.slice, key.index);
    let ok = is_ok(block_on_ready(Disseminator::send(&r, &shred)));
    vcheck!(ok, "send failed on a network that never fails");
    let rec = r.network.rec();
    vcheck!(rec.sends == 1 && rec.many_calls == 0, "the leader did not send the shred exactly once");
    vcheck!(rec.send_port == port_of(relay), "the leader sent the shred to a validator that is not its relay");
    vcover!(relay == own, "leader is the relay");
    vcover!(relay != own, "leader is not the relay");
    std::mem::forget(r);
    std::mem::forget(shred);
}

/// The generator seed is a function of (slot, slice) only — not of the node, its cache or the
/// committee — and an injective one.
fn seed_body() {
    const N: usize = 3;
    let a = vs::any_below(N as u8) as usize;
    let b = vs::any_below(N as u8) as usize;
    let (slot1, slice1) = (vs::any_u64(), vs::any_usize());
    let (slot2, slice2) = (vs::any_u64(), vs::any_usize());
    let ra = rotor::<N>(a, MockSampler::<N>::draw());
    let rb = rotor::<N>(b, MockSampler::<N>::draw());
    let before = env::consumers();
    let ca = ra.sample_relays(Slot::new(slot1), slice1);
    let fa = env::last_stream();
    let cb = rb.sample_relays(Slot::new(slot2), slice2);
    let fb = env::last_stream();
    vcheck!(env::consumers() == before + 2, "sample_relays did not run the sampler once per fresh node");
    let same_key = slot1 == slot2 && slice1 == slice2;
    let same_seed = vs::words_eq(&fa, &fb);
    vcheck!(!same_key || same_seed, "two nodes seed the relay sampler differently for the same slot and slice");
    vcheck!(same_key || !same_seed, "two different (slot, slice) pairs give the same relay sampler seed");
    vcheck!(ca.len() == TOTAL_SHREDS && cb.len() == TOTAL_SHREDS, "relay committee does not have one relay per shred");
    vcover!(same_key && a != b, "same key on two different nodes");
    vcover!(!same_key && slot1 == slot2, "same slot, different slice");
    vcover!(!same_key && slice1 == slice2, "same slice, different slot");
    std::mem::forget(ra);
    std::mem::forget(rb);
    std::mem::forget(ca);
    std::mem::forget(cb);
}

/// Memoisation does not change routing: a node that has routed shred A before (its cache may or
/// may not have kept that committee) and a fresh node agree on the relay of shred B.
fn cache_body() {
    const N: usize = 3;
    // the committee must depend on the key for a stale cache entry to show: both nodes get the
    // same sampler, which picks one of two arbitrary committees by the generator stream
    let own = vs::any_below(N as u8) as usize;
    let ka = any_key();
    let kb = any_key();
    env::draw_cache_policy(2);
    let (even, odd) = (spread(any_base::<N>()), spread(any_base::<N>()));
    let seasoned = Rotor { network: RecNet::new(), sampler: KeyedSampler { even, odd }, epoch_info: env::epoch(&[1u64; N], own), relay_cache: Cache::new(MAX_CACHED_COMMITTEES) };
    let fresh = Rotor { network: RecNet::new(), sampler: KeyedSampler { even, odd }, epoch_info: env::epoch(&[1u64; N], own), relay_cache: Cache::new(MAX_CACHED_COMMITTEES) };
    let sa = mk_shred(ka.slot, ka.slice, ka.index);
    let _ = seasoned.sample_relay(&sa);
    // natively the solver's key need not be the one that separates the two committees under
    // the real ChaCha stream: the property is universal, so further slices are tried as well
    let reps = if cfg!(kani) { 1 } else { 32 };
    let mut d = 0;
    while d < reps {
        let slice_b = (kb.slice + d) % MAX_SLICES_PER_BLOCK;
        let sb = mk_shred(kb.slot, slice_b, kb.index);
        let r1 = seasoned.sample_relay(&sb);
        let r2 = fresh.sample_relay(&sb);
        vcheck!(r1 == r2, "a node with cached committees and a fresh node route the same shred to different relays");
        vcheck!(r1.as_usize() < N, "relay outside the validator set");
        let r3 = seasoned.sample_relay(&sb);
        vcheck!(r3 == r1, "asking twice for the relay of one shred gives two answers");
        std::mem::forget(sb);
        d += 1;
    }
    vcover!(env::cache_hits() > 0 || !cfg!(kani), "a committee was served from the cache");
    vcover!(ka.slot == kb.slot && ka.slice != kb.slice, "same slot, different slice");
    std::mem::forget(seasoned);
    std::mem::forget(fresh);
    std::mem::forget(sa);
}

/// Exchanging the sampler (`Rotor::with_sampler`) leaves no trace of the old one: a node that
/// routed shred A under sampler S1 and was then switched to S2, and a node that only ever had
/// S2, agree on the relay of every shred B - including B in the slice routed before the switch.
fn resample_body() {
    const N: usize = 3;
    let own = vs::any_below(N as u8) as usize;
    let ka = any_key();
    let kb = any_key();
    env::draw_cache_policy(3);
    let (e1, o1) = (spread(any_base::<N>()), spread(any_base::<N>()));
    let (e2, o2) = (spread(any_base::<N>()), spread(any_base::<N>()));
    // natively the real ChaCha stream decides which of the two committees a key gets, which need
    // not be the one the solver's model picked: the property is universal, so the same pair of
    // keys shifted over further slices is tried as well
    let reps = if cfg!(kani) { 1 } else { 32 };
    let mut d = 0;
    while d < reps {
        let seasoned = Rotor { network: RecNet::new(), sampler: KeyedSampler { even: e1, odd: o1 }, epoch_info: env::epoch(&[1u64; N], own), relay_cache: Cache::new(MAX_CACHED_COMMITTEES) };
        let fresh = Rotor { network: RecNet::new(), sampler: KeyedSampler { even: e2, odd: o2 }, epoch_info: env::epoch(&[1u64; N], own), relay_cache: Cache::new(MAX_CACHED_COMMITTEES) };
        let sa = mk_shred(ka.slot, (ka.slice + d) % MAX_SLICES_PER_BLOCK, ka.index);
        let _ = seasoned.sample_relay(&sa);
        let switched = seasoned.with_sampler(KeyedSampler { even: e2, odd: o2 });
        let sb = mk_shred(kb.slot, (kb.slice + d) % MAX_SLICES_PER_BLOCK, kb.index);
        let r1 = switched.sample_relay(&sb);
        let r2 = fresh.sample_relay(&sb);
        vcheck!(r1 == r2, "after the sampler was exchanged a node still routes by the old sampler's cached committee");
        vcheck!(r1.as_usize() < N, "relay outside the validator set");
        std::mem::forget(sa);
        std::mem::forget(sb);
        std::mem::forget(switched);
        std::mem::forget(fresh);
        d += 1;
    }
    vcover!(ka.slot == kb.slot && ka.slice == kb.slice, "the slice routed before the switch is routed again after it");
    vcover!(ka.slot == kb.slot && ka.slice != kb.slice, "same slot, different slice");
}

/// One of two arbitrary committees, chosen by the generator stream (a sampler whose output
/// depends on the random stream, as the real ones do).
pub(crate) struct KeyedSampler {
    even: [ValidatorIndex; TOTAL_SHREDS],
    odd: [ValidatorIndex; TOTAL_SHREDS],
}
impl QuorumSamplingStrategy for KeyedSampler {
    fn quorum_size(&self) -> usize {
        TOTAL_SHREDS
    }
    fn sample_quorum<R: Rng>(&self, rng: &mut R) -> Vec<ValidatorIndex> {
        let w = rng.next_u64() ^ rng.next_u64() ^ rng.next_u64() ^ rng.next_u64();
        if w.count_ones() % 2 == 0 { self.even.to_vec() } else { self.odd.to_vec() }
    }
}

/// DEFECT harness: what `Rotor::new_fa1` builds its relay sampler from must not depend on
/// anything but the validator set.  `PartitionSampler::new` as a whole is far beyond the memory
/// cap (C17), so the two modes observe the defect differently, under one check identity:
/// * Kani: `rand::rng()` inside sampling_strategy.rs is redirected to `kani_samp::ambient_rng`,
///   which reports being asked at all (and ends the path there);
/// * native replay: 33 constructions over the same validator set must give identical bins.
/// Fail-closed: on a tree that no longer asks for the ambient generator the whole constructor
/// is executed symbolically and the harness ends inconclusive (memory cap), never as a pass.
fn ambient_body() {
    use super::sampling_strategy::kani_samp;
    const N: usize = 3;
    let stakes = kani_samp::any_stakes::<N>(1, 4);
    let v = kani_samp::validators(&stakes);
    kani_samp::forbid_ambient();
    let a = PartitionSampler::new(v.clone(), 2);
    #[cfg(not(kani))]
    {
        let mut i = 0;
        while i < 32 {
            let b = PartitionSampler::new(v.clone(), 2);
            vcheck!(a.bin_validators == b.bin_validators && a.bin_stakes == b.bin_stakes, "construction of the partition sampler depends on ambient randomness, two nodes partition the same validator set differently");
            i += 1;
        }
    }
    vcover!(a.quorum_size() == 2, "construction succeeded");
    std::mem::forget(a);
    std::mem::forget(v);
}

macro_rules! h {
    ($name:ident, $unwind:literal, $body:ident $(:: < $($g:literal),* >)?) => {
        #[cfg_attr(kani, kani::proof)]
        #[cfg_attr(kani, kani::unwind($unwind))]
        #[cfg_attr(verif_replay, test)]
        fn $name() {
            $body$(::<$($g),*>)?()
        }
    };
}

h!(c16_rotor_dest_n2, 10, dest_body::<2>);
h!(c16_rotor_dest_n3, 10, dest_body::<3>);
h!(c16_rotor_dest_n4, 10, dest_body::<4>);
h!(c16_rotor_leader_n2, 10, leader_body::<2>);
h!(c16_rotor_leader_n4, 10, leader_body::<4>);
h!(c16_rotor_seed, 10, seed_body);
h!(c16_rotor_cache, 10, cache_body);
h!(c16_rotor_resample, 10, resample_body);
h!(c16_ambient_partition, 6, ambient_body);
