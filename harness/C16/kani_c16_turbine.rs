//! C16 harnesses, Turbine part (overlay module `crate::disseminator::turbine::kani_c16_turbine`,
//! child of `turbine`: sees `TurbineTree::new`, the private fields and the real
//! `weighted_shuffle` module).
//!
//! Under Kani `TurbineTree::new` runs with `WeightedShuffle` redirected to the stand-in of
//! `kani_c16_env` (an arbitrary pre-drawn permutation), so the tree arithmetic is decided for
//! every order the shuffle could produce, i.e. for every stake distribution and every seed.  The
//! real weighted shuffle is decided separately (`c16_wshuffle_*`: it yields a permutation).
//! Natively the real shuffle and the real ChaCha12 run; the permutation then is whatever they
//! produce, so the native replay evaluates the same (universally quantified) assertions for
//! every pair of nodes and a range of slots instead of the solver's single pair.
#![allow(dead_code, unused_imports, clippy::all)]

use super::*;
use crate::Stake;
use crate::disseminator::kani_c16_env::{self as env, RecNet, block_on_ready, is_ok, port_of};
use crate::shredder::TOTAL_SHREDS;
use crate::shredder::kani_c16_shred::mk_shred;
use crate::types::slice_index::MAX_SLICES_PER_BLOCK;
use crate::verif_std as vs;
use crate::verif_std::{vcheck, vcover};

fn contains(c: &[ValidatorIndex], x: usize) -> usize {
    let mut n = 0;
    let mut i = 0;
    while i < c.len() {
        if c[i].as_usize() == x {
            n += 1;
        }
        i += 1;
    }
    n
}

/// The two views of one tree held by nodes `a != b`.
fn check_pair<const N: usize>(validators: &[ValidatorInfo], fanout: usize, a: usize, b: usize, slot: u64, shred: usize) -> (TurbineTree, TurbineTree) {
    let ta = TurbineTree::new(validators, fanout, ValidatorIndex::new(a as u64), Slot::new(slot), shred);
    let tb = TurbineTree::new(validators, fanout, ValidatorIndex::new(b as u64), Slot::new(slot), shred);
    let root = ta.get_root().as_usize();
    vcheck!(tb.get_root().as_usize() == root, "two nodes disagree on the root of the tree of one shred");
    vcheck!(root < N, "root outside the validator set");
    // root has no parent, every other node has one (a valid, different validator)
    vcheck!(ta.get_parent().is_none() == (a == root), "parent missing for a non-root node or present for the root");
    if let Some(p) = ta.get_parent() {
        vcheck!(p.as_usize() < N && p.as_usize() != a, "parent outside the validator set or the node itself");
    }
    // children: at most fanout, valid, distinct, never the node itself or the root
    let ca = ta.get_children();
    vcheck!(ca.len() <= fanout, "more children than the fanout");
    let mut i = 0;
    while i < ca.len() {
        let c = ca[i].as_usize();
        vcheck!(c < N, "child position beyond the validator set");
        vcheck!(c != a && c != root, "a node or the root listed as child");
        vcheck!(contains(ca, c) == 1, "a validator listed twice as child of one node");
        i += 1;
    }
    // the two views fit: b is a child of a exactly if a is the parent of b (both directions)
    let b_child_of_a = contains(ca, b) == 1;
    let a_parent_of_b = tb.get_parent().map(|p| p.as_usize()) == Some(a);
    vcheck!(b_child_of_a == a_parent_of_b, "child lists and parent pointers of two nodes do not fit");
    let a_child_of_b = contains(tb.get_children(), a) == 1;
    let b_parent_of_a = ta.get_parent().map(|p| p.as_usize()) == Some(b);
    vcheck!(a_child_of_b == b_parent_of_a, "child lists and parent pointers of two nodes do not fit");
    vcheck!(!(a_parent_of_b && b_parent_of_a), "two nodes are each other's parent");
    (ta, tb)
}

fn tree_body<const N: usize>() {
    let stakes: [u64; N] = std::array::from_fn(|_| 1 + vs::any_below(4) as u64);
    let _perm = env::draw_perm::<N>();
    let fanout = 1 + vs::any_below(3) as usize;
    let a = vs::any_below(N as u8) as usize;
    let b = vs::any_below(N as u8) as usize;
    vs::assume(a != b);
    let slot = vs::any_u64();
    let shred = vs::any_u16() as usize;
    vs::assume(shred < MAX_SLICES_PER_BLOCK * TOTAL_SHREDS);
    let validators = env::validators(&stakes);
    #[cfg(kani)]
    {
        let (ta, tb) = check_pair::<N>(&validators, fanout, a, b, slot, shred);
        vcover!(contains(ta.get_children(), b) == 1, "b is a child of a");
        vcover!(ta.get_parent().is_none() && fanout == 1, "a is the root of a chain");
        vcover!(ta.get_children().is_empty() && tb.get_children().is_empty() || N <= 2, "two leaves");
        vcover!(N <= 2 || (ta.get_children().len() == 2 && fanout == 2), "a has a full set of 2 children");
        vcover!(N <= 2 || (ta.get_parent().is_some() && tb.get_parent().is_some()), "two non-root nodes");
        std::mem::forget(ta);
        std::mem::forget(tb);
    }
    #[cfg(not(kani))]
    {
        let mut d = 0u64;
        while d < 64 {
            let mut x = 0;
            while x < N {
                let mut y = 0;
                while y < N {
                    if x != y {
                        let _ = check_pair::<N>(&validators, fanout, x, y, slot.wrapping_add(d), shred);
                    }
                    y += 1;
                }
                x += 1;
            }
            d += 1;
        }
        let _ = (a, b);
    }
    std::mem::forget(validators);
}

/// All N views of one tree: following parents from any node reaches the root in at most N-1
/// steps, and every non-root node is in exactly one child list, once — a shred entering at the
/// root and forwarded to children reaches every validator exactly once.
fn reach_body<const N: usize>() {
    let stakes: [u64; N] = std::array::from_fn(|_| 1 + vs::any_below(4) as u64);
    let _perm = env::draw_perm::<N>();
    let fanout = 1 + vs::any_below(3) as usize;
    let slot = vs::any_u64();
    let shred = vs::any_u16() as usize;
    vs::assume(shred < MAX_SLICES_PER_BLOCK * TOTAL_SHREDS);
    let validators = env::validators(&stakes);
    let reps = if cfg!(kani) { 1 } else { 64 };
    let mut d = 0u64;
    while d < reps {
        let trees: [TurbineTree; N] = std::array::from_fn(|i| TurbineTree::new(&validators, fanout, ValidatorIndex::new(i as u64), Slot::new(slot.wrapping_add(d)), shred));
        let root = trees[0].get_root().as_usize();
        vcheck!(root < N, "root outside the validator set");
        let mut i = 0;
        while i < N {
            vcheck!(trees[i].get_root().as_usize() == root, "two nodes disagree on the root of the tree of one shred");
            // exactly one delivery: i is the root, or in exactly one child list, exactly once
            let mut deliveries = 0;
            let mut j = 0;
            while j < N {
                deliveries += contains(trees[j].get_children(), i);
                j += 1;
            }
            vcheck!(deliveries == if i == root { 0 } else { 1 }, "a validator is not delivered the shred exactly once (root: by the leader; others: by exactly one parent)");
            // walk to the root
            let mut cur = i;
            let mut steps = 0;
            while steps < N {
                if cur < N && cur != root {
                    cur = match trees[cur].get_parent() {
                        Some(p) => p.as_usize(),
                        None => N, // a non-root node without parent: caught below
                    };
                }
                steps += 1;
            }
            vcheck!(cur == root, "following parents from a node does not reach the root");
            i += 1;
        }
        if d == 0 {
            vcover!(N <= 2 || trees[root].get_children().len() == 1, "root with a single child (chain)");
            vcover!(N <= 2 || trees[root].get_children().len() == N - 1, "root feeds everybody");
        }
        std::mem::forget(trees);
        d += 1;
    }
    std::mem::forget(validators);
}

/// Stream words the shuffle of the tree for (slot, shred) was seeded with.  Kani: the words
/// the stand-in shuffle recorded (= the seed).  Natively: an encoding of the whole order the
/// real shuffle produced over 16 equal-stake validators (root, then the root's children under
/// fanout 16): equal orders <=> equal seeds up to a collision among 16! orders.
fn tree_stream(validators: &[ValidatorInfo], own: usize, slot: u64, shred: usize) -> [u64; 4] {
    let t = TurbineTree::new(validators, 16, ValidatorIndex::new(own as u64), Slot::new(slot), shred);
    #[cfg(kani)]
    {
        std::mem::forget(t);
        env::last_stream()
    }
    #[cfg(not(kani))]
    {
        let root = t.get_root();
        let full = TurbineTree::new(validators, 16, root, Slot::new(slot), shred);
        let mut w = [0u64; 4];
        w[0] = root.inner();
        for (i, c) in full.get_children().iter().enumerate() {
            w[1 + i / 8] |= c.inner() << (8 * (i % 8));
        }
        w
    }
}

/// The shuffle seed of `TurbineTree::new` is a function of (slot, shred index) only — not of
/// the node computing it — and an injective one.
fn seed_body() {
    const N: usize = 16;
    let ident: [usize; N] = std::array::from_fn(|i| i);
    env::set_perm(&ident);
    let a = vs::any_below(N as u8) as usize;
    let b = vs::any_below(N as u8) as usize;
    let (slot1, shred1) = (vs::any_u64(), vs::any_usize());
    let (slot2, shred2) = (vs::any_u64(), vs::any_usize());
    let validators = env::validators(&[1u64; N]);
    let before = env::consumers();
    let fa = tree_stream(&validators, a, slot1, shred1);
    let fb = tree_stream(&validators, b, slot2, shred2);
    #[cfg(kani)]
    {
        vcheck!(env::consumers() == before + 2, "TurbineTree::new did not shuffle exactly once");
        // the domain separator is part of every seed
        let mut tag = [0u8; 16];
        tag.copy_from_slice(b"ALPENGLOWTURBINE");
        let t0 = u64::from_le_bytes([tag[0], tag[1], tag[2], tag[3], tag[4], tag[5], tag[6], tag[7]]);
        vcheck!(fa[0] == t0, "turbine seed does not start with its domain separator");
    }
    let _ = before;
    let same_key = slot1 == slot2 && shred1 == shred2;
    let same_seed = vs::words_eq(&fa, &fb);
    vcheck!(!same_key || same_seed, "two nodes seed the tree shuffle differently for the same slot and shred index");
    vcheck!(same_key || !same_seed, "two different (slot, shred index) pairs give the same tree shuffle seed");
    vcover!(same_key && a != b, "same key on two different nodes");
    vcover!(!same_key && slot1 == slot2, "same slot, different shred index");
    vcover!(!same_key && shred1 == shred2, "same shred index, different slot");
    std::mem::forget(validators);
}

// The real `weighted_shuffle::WeightedShuffle` is not decided here: its 16-ary sum tree is walked
// by loops whose exit conditions depend on the drawn value, so every level/leaf loop runs to the
// unwind bound (17, the node width) — 2.1 M symex steps for TWO weights, CNF generation > 10 GB
// (measured).  That it yields every index exactly once is an assumption of the tree harnesses.

// Network level (`Turbine::{forward_shred, send_shred_to_root, get_tree}`): not decided here.
// `get_tree` clones the tree for its cache; cloning a child list of position-dependent length
// takes even the root-only `send` check past the memory cap (224 k symex steps, CNF generation
// > 10 GB, measured for 3 validators).  Both functions map `get_children()` / `get_root()` of
// the tree for `(slot, index_in_slot)` to dissemination addresses and hand them to the network.

macro_rules! h {
    ($name:ident, $unwind:literal, $body:ident $(:: < $($g:literal),* >)?) => {
        #[cfg_attr(kani, kani::proof)]
        #[cfg_attr(kani, kani::unwind($unwind))]
        #[cfg_attr(verif_replay, test)]
        fn $name() {
            $body$(::<$($g),*>)?()
        }
    };
}

h!(c16_turbine_tree_n2, 7, tree_body::<2>);
h!(c16_turbine_tree_n3, 7, tree_body::<3>);
h!(c16_turbine_tree_n4, 7, tree_body::<4>);
h!(c16_turbine_tree_n5, 7, tree_body::<5>);
h!(c16_turbine_reach_n1, 7, reach_body::<1>);
h!(c16_turbine_reach_n3, 7, reach_body::<3>);
h!(c16_turbine_reach_n4, 7, reach_body::<4>);
h!(c16_turbine_seed, 20, seed_body);
