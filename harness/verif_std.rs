//! Support code for the solver harnesses (overlay file; never committed to /repo).
//!
//! Compiled only under `cfg(kani)` (symbolic execution by Kani/CBMC) or
//! `cfg(verif_replay)` (native replay of a solver assignment against the real code,
//! built with the repository's own toolchain).  One harness body runs in both modes:
//!
//! * `any_*` draws a symbolic value under Kani, and pops the next concrete value of the
//!   solver's counterexample (file named by `VERIF_REPLAY_FILE`) natively;
//! * `assume` is `kani::assume` symbolically; natively a violated assumption aborts the
//!   replay with `VS-ASSUME-FAILED` (the driver then treats the run as not reproducing);
//! * `vcheck!` is `assert!` in both modes, `vcover!` is `kani::cover!` / no-op.
//!
//! Oracle stubs (hash, signatures) are active only under Kani; natively the real
//! primitives run.  Harness inputs are therefore *structured* (selectors into honest
//! values, raw values assumed distinct from oracle outputs) so that a solver assignment
//! carries over to the real primitives.
#![allow(dead_code, unused_imports, unused_macros, clippy::all, unreachable_pub, static_mut_refs)]

// ---------------------------------------------------------------------------------------
// value source
// ---------------------------------------------------------------------------------------

#[cfg(kani)]
mod source {
    pub fn u8_() -> u8 {
        kani::any()
    }
    pub fn u16_() -> u16 {
        kani::any()
    }
    pub fn u32_() -> u32 {
        kani::any()
    }
    pub fn u64_() -> u64 {
        kani::any()
    }
    pub fn assume(c: bool) {
        kani::assume(c)
    }
}

#[cfg(not(kani))]
mod source {
    use std::sync::Mutex;

    static TAPE: Mutex<Option<(Vec<Vec<u8>>, usize)>> = Mutex::new(None);

    fn pop(n: usize) -> Vec<u8> {
        let mut g = TAPE.lock().unwrap_or_else(|e| e.into_inner());
        if g.is_none() {
            let path = std::env::var("VERIF_REPLAY_FILE").expect("VS-REPLAY: VERIF_REPLAY_FILE unset");
            let text = std::fs::read_to_string(&path).expect("VS-REPLAY: cannot read replay file");
            let mut vals = Vec::new();
            for line in text.lines() {
                let line = line.trim();
                if line.is_empty() || line.starts_with('#') {
                    continue;
                }
                let bytes: Vec<u8> = line
                    .split(|c: char| c == ',' || c.is_whitespace())
                    .filter(|s| !s.is_empty())
                    .map(|s| s.parse::<u8>().expect("VS-REPLAY: bad byte"))
                    .collect();
                vals.push(bytes);
            }
            *g = Some((vals, 0));
        }
        let (vals, pos) = g.as_mut().unwrap();
        if *pos >= vals.len() {
            // Kani omits trailing values that do not matter to the trace; zeros are as good as any.
            *pos += 1;
            return vec![0; n];
        }
        let v = vals[*pos].clone();
        *pos += 1;
        assert!(v.len() == n, "VS-REPLAY-MISALIGNED: value {} has {} bytes, wanted {}", *pos - 1, v.len(), n);
        v
    }
    pub fn u8_() -> u8 {
        pop(1)[0]
    }
    pub fn u16_() -> u16 {
        u16::from_le_bytes(pop(2).try_into().unwrap())
    }
    pub fn u32_() -> u32 {
        u32::from_le_bytes(pop(4).try_into().unwrap())
    }
    pub fn u64_() -> u64 {
        u64::from_le_bytes(pop(8).try_into().unwrap())
    }
    pub fn assume(c: bool) {
        assert!(c, "VS-ASSUME-FAILED");
    }
}

pub fn any_u8() -> u8 {
    source::u8_()
}
pub fn any_u16() -> u16 {
    source::u16_()
}
pub fn any_u32() -> u32 {
    source::u32_()
}
pub fn any_u64() -> u64 {
    source::u64_()
}
pub fn any_usize() -> usize {
    source::u64_() as usize
}
pub fn any_bool() -> bool {
    source::u8_() & 1 == 1
}
/// A value in `0..n` (n ≥ 1), drawn as one byte.
pub fn any_below(n: u8) -> u8 {
    let v = source::u8_();
    assume(v < n);
    v
}
pub fn assume(c: bool) {
    source::assume(c)
}
/// Four little-endian words = 32 bytes.
pub fn any_words() -> [u64; 4] {
    [any_u64(), any_u64(), any_u64(), any_u64()]
}
pub fn any_bytes<const N: usize>() -> [u8; N] {
    let mut out = [0u8; N];
    let mut i = 0;
    while i < N {
        out[i] = any_u8();
        i += 1;
    }
    out
}

pub fn words_to_bytes(w: [u64; 4]) -> [u8; 32] {
    let mut out = [0u8; 32];
    let mut i = 0;
    while i < 4 {
        let b = w[i].to_le_bytes();
        let mut j = 0;
        while j < 8 {
            out[i * 8 + j] = b[j];
            j += 1;
        }
        i += 1;
    }
    out
}
pub fn bytes_to_words(b: &[u8; 32]) -> [u64; 4] {
    let mut out = [0u64; 4];
    let mut i = 0;
    while i < 4 {
        out[i] = u64::from_le_bytes([
            b[i * 8],
            b[i * 8 + 1],
            b[i * 8 + 2],
            b[i * 8 + 3],
            b[i * 8 + 4],
            b[i * 8 + 5],
            b[i * 8 + 6],
            b[i * 8 + 7],
        ]);
        i += 1;
    }
    out
}
pub fn words_eq(a: &[u64; 4], b: &[u64; 4]) -> bool {
    a[0] == b[0] && a[1] == b[1] && a[2] == b[2] && a[3] == b[3]
}

/// `assert!` in both modes; the message is what the driver keys findings on.
macro_rules! vcheck {
    ($c:expr, $m:literal) => {
        assert!($c, $m)
    };
}
pub(crate) use vcheck;

/// Reachability witness: must be SATISFIED under Kani, no-op natively.
macro_rules! vcover {
    ($c:expr, $m:literal) => {{
        #[cfg(kani)]
        kani::cover!($c, $m);
        #[cfg(not(kani))]
        {
            let _ = $c;
        }
    }};
}
pub(crate) use vcover;

/// Draws the `n` candidate outputs of the hash oracle (both modes, to keep the draw sequence
/// aligned; natively the values are discarded because the real SHA-256 runs).
pub fn draw_hash_tape(n: usize) {
    let mut i = 0;
    while i < n {
        let w = any_words();
        #[cfg(kani)]
        hash_oracle::set_tape(i, w);
        let _ = w;
        i += 1;
    }
}

/// A harness reached something its model does not support: reported as a harness error
/// (inconclusive), never as a pass.
pub fn unsupported(what: &'static str) -> ! {
    panic!("VS-UNSUPPORTED: {}", what)
}

// ---------------------------------------------------------------------------------------
// SHA-256 as a collision-free oracle (Kani only)
// ---------------------------------------------------------------------------------------

/// Oracle replacing `crypto::hash::hash_all` (and `hash`) under Kani.
///
/// Contract: a function (equal inputs give equal outputs) that is injective on the
/// queries made, consistent with the `EMPTY_ROOTS` constants of the Merkle module
/// (`H(leaf-label ‖ "") = E[0]`, `H(left-label ‖ E[h] ‖ right-label ‖ E[h]) = E[h+1]`),
/// whose other outputs differ from every `E[h]` and from every value registered as
/// attacker-chosen raw data.  This is the collision-resistance assumption, stated.
///
/// Entry `k` of the table is the `k`-th call, so the fill level stays concrete.
#[cfg(kani)]
pub mod hash_oracle {
    use super::{assume, words_eq};

    pub const CAP: usize = 24;
    /// Number of payload words kept per query (two 32-byte children, or one ≤ 64-byte leaf).
    pub const KW: usize = 8;

    #[derive(Clone, Copy, PartialEq, Eq)]
    pub struct Key {
        /// 0 = Merkle leaf (label ‖ data), 1 = Merkle pair, 2 = unlabelled `hash(data)`
        pub kind: u8,
        pub len: u32,
        pub w: [u64; KW],
    }

    /// All ghost state lives in ONE static whose first field is a unique magic value.
    /// Kani 0.68 de-duplicates constant allocations by content and may pick a `static mut`
    /// with a common initialiser (e.g. `0usize`) as the backing object of an unrelated
    /// constant of std; a single allocation with unique bytes cannot be merged with anything.
    struct Ghost {
        magic: [u64; 2],
        n: usize,
        keys: [Key; CAP],
        outs: [[u64; 4]; CAP],
        raws: [[u64; 4]; CAP],
        nraw: usize,
        /// `E[h]` as words; filled by `set_empty_roots`.
        empty: [[u64; 4]; 32],
        /// How many levels of the `E` recurrence the oracle honours (keeps the formula small).
        empty_levels: usize,
        /// Candidate fresh outputs, drawn by the harness up-front (`draw_hash_tape`) so that the
        /// sequence of `any()` draws is the same symbolically and in native replay.
        tape: [[u64; 4]; CAP],
        tape_len: usize,
    }
    static mut G: Ghost = Ghost {
        magic: [0x5eed_c15a_11ce_0001, 0x9e37_79b9_7f4a_7c15],
        n: 0,
        keys: [Key { kind: 0, len: 0, w: [0; KW] }; CAP],
        outs: [[0; 4]; CAP],
        raws: [[0; 4]; CAP],
        nraw: 0,
        empty: [[0; 4]; 32],
        empty_levels: 0,
        tape: [[0; 4]; CAP],
        tape_len: 0,
    };

    pub fn set_tape(i: usize, w: [u64; 4]) {
        unsafe {
            G.tape[i] = w;
            if i + 1 > G.tape_len {
                G.tape_len = i + 1;
            }
        }
    }

    pub fn set_empty_roots(e: &[[u64; 4]; 32], levels: usize) {
        unsafe {
            G.empty = *e;
            G.empty_levels = levels;
        }
    }
    pub fn calls() -> usize {
        unsafe { G.n }
    }

    /// Registers an attacker-chosen 32-byte value: it is not the output of any oracle
    /// query made so far, nor of any later one.
    pub fn register_raw(w: [u64; 4]) {
        unsafe {
            let mut j = 0;
            while j < G.n {
                assume(!words_eq(&G.outs[j], &w));
                j += 1;
            }
            assert!(G.nraw < CAP, "VS-UNSUPPORTED: raw registry full");
            G.raws[G.nraw] = w;
            G.nraw += 1;
        }
    }

    fn key_eq(a: &Key, b: &Key) -> bool {
        let mut eq = a.kind == b.kind && a.len == b.len;
        let mut i = 0;
        while i < KW {
            eq = eq && a.w[i] == b.w[i];
            i += 1;
        }
        eq
    }

    pub fn query(key: Key) -> [u64; 4] {
        unsafe {
            // consistency with the empty-subtree constants
            if key.kind == 0 && key.len == 0 {
                return G.empty[0];
            }
            let k = G.n;
            assert!(k < CAP && k < G.tape_len, "VS-UNSUPPORTED: hash oracle table full");
            G.n += 1;
            G.keys[k] = key;
            let fresh = G.tape[k];
            let mut out = fresh;
            let mut found = false;
            if key.kind == 1 {
                let l = [key.w[0], key.w[1], key.w[2], key.w[3]];
                let r = [key.w[4], key.w[5], key.w[6], key.w[7]];
                let mut h = 0;
                while h < G.empty_levels {
                    if !found && words_eq(&l, &G.empty[h]) && words_eq(&r, &G.empty[h]) {
                        out = G.empty[h + 1];
                        found = true;
                    }
                    h += 1;
                }
            }
            let mut j = 0;
            while j < k {
                if !found && key_eq(&G.keys[j], &key) {
                    out = G.outs[j];
                    found = true;
                }
                j += 1;
            }
            if !found {
                let mut j = 0;
                while j < k {
                    assume(!words_eq(&G.outs[j], &fresh));
                    j += 1;
                }
                let mut h = 0;
                while h < 32 {
                    assume(!words_eq(&G.empty[h], &fresh));
                    h += 1;
                }
                let mut r = 0;
                while r < G.nraw {
                    assume(!words_eq(&G.raws[r], &fresh));
                    r += 1;
                }
            }
            G.outs[k] = out;
            out
        }
    }
}
