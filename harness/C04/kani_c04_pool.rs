//! C04 at pool level (overlay module `crate::consensus::pool::kani_c04_pool`, child of `pool`).
//!
//! Two votes of the same validator through the real `PoolImpl::add_vote` (the public entry
//! point: slot bounds, slashable check, duplicate filter, counting): the first vote is of
//! kind K1 for block A, the second of kind K2 for a symbolic block; the verdicts are compared
//! with the reference relations of the property statement.  Stakes 1 / 9: validator 0 alone
//! reaches no threshold, so no certificate is due.
#![allow(dead_code, unused_imports, clippy::all)]

use super::kani_poolfix::*;
use super::*;
use crate::ValidatorIndex;
use crate::consensus::kani_fix::{block_hash, fixture, Fix};
use crate::verif_std as vs;
use crate::verif_std::{vcheck, vcover};

const SLOT: u64 = 5;

fn mk_vote(fx: &Fix, v: usize, kind: u8, hash: u8, slot: u64) -> Vote {
    let slot = Slot::new(slot);
    let id = ValidatorIndex::new(v as u64);
    match kind {
        0 => Vote::new_notar(slot, block_hash(hash), &fx.sks[v], id),
        1 => Vote::new_notar_fallback(slot, block_hash(hash), &fx.sks[v], id),
        2 => Vote::new_skip(slot, &fx.sks[v], id),
        3 => Vote::new_skip_fallback(slot, &fx.sks[v], id),
        _ => Vote::new_final(slot, &fx.sks[v], id),
    }
}

/// symmetric conflict relation of the property statement (kinds: 0 notar, 1 notar-fallback,
/// 2 skip, 3 skip-fallback, 4 final)
fn conflict(k1: u8, h1: u8, k2: u8, h2: u8) -> bool {
    let one = |a: u8, ha: u8, b: u8, hb: u8| match (a, b) {
        (0, 0) => ha != hb,
        (0, 2) => true,
        (4, 2) | (4, 3) | (4, 1) => true,
        _ => false,
    };
    one(k1, h1, k2, h2) || one(k2, h2, k1, h1)
}
fn repeat(k1: u8, h1: u8, k2: u8, h2: u8) -> bool {
    match (k1, k2) {
        (0, 0) | (1, 1) | (0, 1) | (1, 0) => h1 == h2,
        (2, 2) | (3, 3) | (2, 3) | (3, 2) | (4, 4) => true,
        _ => false,
    }
}

fn pair_body(k1: u8, k2: u8) {
    let fx = fixture(&[1, 9], 1);
    let (mut pool, _ch) = mk_pool(&fx);
    let h2 = 1 + vs::any_below(2);
    let r1 = p_add_vote(&mut pool, validated(&fx, mk_vote(&fx, 0, k1, 1, SLOT)));
    vcheck!(r1 == Ok(()), "first vote of a validator refused");
    let r2 = p_add_vote(&mut pool, validated(&fx, mk_vote(&fx, 0, k2, h2, SLOT)));
    let c = conflict(k1, 1, k2, h2);
    let d = repeat(k1, 1, k2, h2);
    match r2 {
        Err(AddVoteError::Slashable(o)) => {
            vcheck!(c, "legitimate or repeated vote reported as a slashable offence");
            let (v, s) = match o {
                SlashableOffence::NotarDifferentHash(v, s) | SlashableOffence::SkipAndNotarize(v, s) | SlashableOffence::SkipAndFinalize(v, s) | SlashableOffence::NotarFallbackAndFinalize(v, s) => (v, s),
            };
            vcheck!(v.as_usize() == 0 && s == Slot::new(SLOT), "offence names the wrong validator or slot");
        }
        Err(AddVoteError::Duplicate) => vcheck!(!c && d, "vote refused as duplicate although it is a conflict (must be reported) or a fresh legitimate vote"),
        Err(AddVoteError::SlotOutOfBounds) => vcheck!(false, "vote for a current slot refused as out of bounds"),
        Ok(()) => vcheck!(!c && !d, "conflicting or repeated vote admitted"),
    }
    vcover!(c, "a conflicting pair");
    vcover!(!c, "a non-conflicting pair");
    std::mem::forget(pool);
    std::mem::forget(fx);
}

/// slot-window bounds of add_vote on a fresh pool: accepted iff slot < 2 * SLOTS_PER_EPOCH
fn bounds_body() {
    let fx = fixture(&[1, 9], 1);
    let (mut pool, _ch) = mk_pool(&fx);
    let slot = vs::any_u64();
    let r = p_add_vote(&mut pool, validated(&fx, mk_vote(&fx, 0, 2, 1, slot)));
    let far = 2 * crate::types::SLOTS_PER_EPOCH;
    vcheck!((r == Err(AddVoteError::SlotOutOfBounds)) == (slot >= far), "slot window of a fresh pool is not [0, 2 epochs)");
    vcheck!(slot >= far || r == Ok(()), "first vote inside the window refused");
    vcover!(r.is_ok(), "accepted");
    vcover!(r.is_err(), "out of bounds");
    std::mem::forget(pool);
    std::mem::forget(fx);
}

macro_rules! pair {
    ($name:ident, $k1:literal, $k2:literal) => {
        #[cfg_attr(kani, kani::proof)]
        #[cfg_attr(kani, kani::stub(crate::crypto::aggsig::SecretKey::sign, crate::consensus::kani_fix::sign_stub))]
        #[cfg_attr(kani, kani::unwind(4))]
        #[cfg_attr(verif_replay, test)]
        fn $name() {
            pair_body($k1, $k2)
        }
    };
}
pair!(c04_pool_00, 0, 0);
pair!(c04_pool_01, 0, 1);
pair!(c04_pool_02, 0, 2);
pair!(c04_pool_03, 0, 3);
pair!(c04_pool_04, 0, 4);
pair!(c04_pool_10, 1, 0);
pair!(c04_pool_11, 1, 1);
pair!(c04_pool_12, 1, 2);
pair!(c04_pool_13, 1, 3);
pair!(c04_pool_14, 1, 4);
pair!(c04_pool_20, 2, 0);
pair!(c04_pool_21, 2, 1);
pair!(c04_pool_22, 2, 2);
pair!(c04_pool_23, 2, 3);
pair!(c04_pool_24, 2, 4);
pair!(c04_pool_30, 3, 0);
pair!(c04_pool_31, 3, 1);
pair!(c04_pool_32, 3, 2);
pair!(c04_pool_33, 3, 3);
pair!(c04_pool_34, 3, 4);
pair!(c04_pool_40, 4, 0);
pair!(c04_pool_41, 4, 1);
pair!(c04_pool_42, 4, 2);
pair!(c04_pool_43, 4, 3);
pair!(c04_pool_44, 4, 4);

#[cfg_attr(kani, kani::proof)]
#[cfg_attr(kani, kani::stub(crate::crypto::aggsig::SecretKey::sign, crate::consensus::kani_fix::sign_stub))]
#[cfg_attr(kani, kani::unwind(4))]
#[cfg_attr(verif_replay, test)]
fn c04_poolbounds() {
    bounds_body()
}

