//! C04 at pool level: the admission gate of the real `PoolImpl::add_vote` (overlay module
//! `crate::consensus::pool::kani_c04_gate`, child of `pool`).
//!
//! `c04_gate_<kind>`: validator 0 has an arbitrary admissible set of already accepted votes in
//! the slot (installed in the pool's own slot state); a new vote of the given kind with symbolic
//! hash enters through `PoolImpl::add_vote` - slot window, slashable check, duplicate filter, in
//! the order the pool applies them.  The verdict is compared with the reference relations of the
//! property statement (`kani_c04::{conflicts, repeats, offence_ok}`): a conflicting vote is
//! reported as the offence even when it is also a repeat.  Under Kani `SlotState::add_vote`
//! (counting; C03/C06) is cut: the harness checks that it is reached exactly for admitted votes.
#![allow(dead_code, unused_imports, clippy::all)]

use super::kani_poolfix::*;
use super::slot_state::kani_c04 as k;
use super::*;
use crate::consensus::kani_fix::fixture;
use crate::verif_std as vs;
use crate::verif_std::{vcheck, vcover};

fn gate_body(kind: u8, cov_both: fn(bool)) {
    // validator 0 is the subject (stake 1), validator 1 the node itself
    let fx = fixture(&[1, 9], 1);
    let (mut pool, _ch) = mk_pool(&fx);
    let held = k::any_held();
    let hash = 1 + vs::any_below(2);
    k::install(pool.slot_state(Slot::new(k::SLOT)), &fx, 0, &held);

    let r = p_add_vote(&mut pool, validated(&fx, k::mk_vote(&fx, 0, kind, hash)));

    let c = k::conflicts(&held, kind, hash);
    let d = k::repeats(&held, kind, hash);
    match &r {
        Err(AddVoteError::Slashable(o)) => {
            vcheck!(c, "legitimate or merely repeated vote reported as a slashable offence");
            vcheck!(k::offence_ok(&held, kind, hash, o), "slashable offence reported under the wrong name");
        }
        Err(AddVoteError::Duplicate) => {
            vcheck!(!c, "a conflicting vote was dropped as a duplicate instead of being reported as the offence");
            vcheck!(d, "a fresh legitimate vote was refused as a duplicate");
        }
        Err(AddVoteError::SlotOutOfBounds) => vcheck!(false, "vote for a current slot refused as out of bounds"),
        Ok(()) => vcheck!(!c && !d, "conflicting or repeated vote admitted for counting"),
    }
    #[cfg(kani)]
    {
        vcheck!(k::cut::calls() == r.is_ok() as usize, "a vote was handed on for counting although it was refused (or not although admitted)");
        vcheck!(!r.is_ok() || k::cut::stake() == 1, "vote counted with a stake other than the voter's");
    }
    cov_both(c && d);
    vcover!(c && !d, "a conflicting vote");
    vcover!(!c && d, "a duplicate");
    vcover!(!c && !d, "an admitted vote");
    std::mem::forget(pool);
    std::mem::forget(fx);
    std::mem::forget(r);
}

/// kinds for which a vote can be a conflict and a repeat at once (notar, notar-fallback, skip)
fn cov_both(b: bool) {
    vcover!(b, "a conflicting vote that is also a repeat");
}
/// skip-fallback / final: a repeat presupposes a held vote that excludes every conflict
fn cov_none(b: bool) {
    vcheck!(!b, "reference relations: conflict and repeat at once for a kind where the admissible sets exclude it");
}

macro_rules! g {
    ($name:ident, $kind:literal, $cov:ident) => {
        #[cfg_attr(kani, kani::proof)]
        #[cfg_attr(kani, kani::stub(crate::crypto::aggsig::SecretKey::sign, crate::consensus::kani_fix::sign_stub))]
        #[cfg_attr(kani, kani::stub(crate::consensus::pool::slot_state::SlotState::add_vote, crate::consensus::pool::slot_state::kani_c04::cut::add_vote))]
        #[cfg_attr(kani, kani::unwind(4))]
        #[cfg_attr(verif_replay, test)]
        fn $name() {
            gate_body($kind, $cov)
        }
    };
}
g!(c04_gate_notar, 0, cov_both);
g!(c04_gate_nfallback, 1, cov_both);
g!(c04_gate_skip, 2, cov_both);
g!(c04_gate_sfallback, 3, cov_none);
g!(c04_gate_final, 4, cov_none);

