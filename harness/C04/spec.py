import os
import importlib.util, os
_pc = importlib.util.spec_from_file_location("pool_common", os.path.join(os.path.dirname(os.path.dirname(os.path.abspath(__file__))), "pool_common.py")); PC = importlib.util.module_from_spec(_pc); _pc.loader.exec_module(PC)
MOD = "consensus::pool::slot_state::kani_c04"
SS = "src/consensus/pool/slot_state.rs"
SV = "src/consensus/pool/sorted_vec.rs"
COLL = {"src": "verif_coll.rs", "dest": "src/verif_coll.rs", "decl_in": "src/lib.rs", "decl": "pub mod verif_coll;"}
FIX = {"src": "kani_fix.rs", "dest": "src/consensus/kani_fix.rs", "decl_in": "src/consensus.rs", "decl": "pub(crate) mod kani_fix;"}
KINDS = ["notar", "nfallback", "skip", "sfallback", "final"]
POOL = "src/consensus/pool.rs"
POOLFIX = {"src": "kani_poolfix.rs", "dest": "src/consensus/pool/kani_poolfix.rs", "decl_in": POOL, "decl": "mod kani_poolfix;"}
VV = {"src": "kani_vv.rs", "dest": "src/consensus/validated_vote/kani_vv.rs", "decl_in": "src/consensus/validated_vote.rs", "decl": "pub(crate) mod kani_vv;"}
AGG = {"src": "kani_aggstub.rs", "dest": "src/crypto/aggsig/kani_aggstub.rs", "decl_in": "src/crypto/aggsig.rs", "decl": "pub(crate) mod kani_aggstub;"}
CERT = {"src": "kani_certstub.rs", "dest": "src/consensus/cert/kani_certstub.rs", "decl_in": "src/consensus/cert.rs", "decl": "pub(crate) mod kani_certstub;"}
PMOD = "consensus::pool::kani_c04_pool"
FTR = "src/consensus/pool/finality_tracker.rs"

def redirect(file, line, repl):
    import re
    return {"file": file, "pattern": r"^" + re.escape(line) + r"$", "replacement": "#[cfg(not(kani))]\n" + line + "\n#[cfg(kani)]\n" + repl, "count": 1}

SLOT_STATE_REDIRECTS = [
    redirect(SS, "use std::collections::BTreeMap;", "use crate::verif_coll::BTreeMap;"),
    redirect(SS, "use smallvec::SmallVec;", "use crate::verif_coll::SmallVec;"),
    redirect(SS, "use super::sorted_vec::{SortedVecMap, SortedVecSet};", "use crate::verif_coll::{SortedVecMap, SortedVecSet};"),
]
POOL_REDIRECTS = [
    redirect(POOL, "use std::collections::BTreeMap;", "use crate::verif_coll::BTreeMap;"),
    dict(redirect(POOL, "use tokio::sync::mpsc::Sender;", "use crate::verif_coll::chan::Sender;"), required=True),
    {"file": "src/consensus.rs", "pattern": r"^            pool_tx,\n            repair_tx,$", "replacement": "            pool_tx.into(),\n            repair_tx.into(),", "count": 1, "required": True},
    # std HashMap = SipHash with nondeterministic RandomState keys: the solver has to reason about the hash
    # function (the pool-level query did not terminate in 15 min because of this one import)
    dict(redirect("src/consensus/pool/parent_ready_tracker.rs", "use std::collections::HashMap;", "use crate::verif_coll::HashMap;"), required=True),
    redirect(FTR, "use std::collections::BTreeMap;", "use crate::verif_coll::BTreeMap;"),
    redirect(FTR, "use std::collections::btree_map::Entry;", "use crate::verif_coll::btree_map::Entry;"),
]
Q, T = ["quick", "thorough"], ["thorough"]
# "an admitted vote is on record, also when the certificate of its class already exists": C03's step harnesses check it
# (they are built from C03's overlay set); the two whose certificate is already present are re-run under this property
_c3g = {"__file__": os.path.join(os.path.dirname(os.path.dirname(os.path.abspath(__file__))), "C03", "spec.py")}
exec(compile(open(_c3g["__file__"]).read(), _c3g["__file__"], "exec"), _c3g)
_C3 = _c3g["SPEC"]
RECORDED = [dict(h, tiers=(Q if h["name"] == "c03_p_final_01_zz" else T), role="admitted vote recorded/" + h["role"],
                 build={"overlays": _C3["overlays"], "redirects": _C3["redirects"], "coll_cap": _C3["coll_cap"]})
            for h in _C3["harnesses"] if h["name"] in ("c03_p_final_01_zz", "c03_p_skip_01_zz", "c03_p_sfallback_01_zz")]
SPEC = {
    "property": "C04",
    "level_text": "Bounded symbolic verification of the real vote-admission filter: for every admissible set of votes the pool can already hold from a validator (notar A|B, notar-fallback for any subset of {A,B}, skip, skip-fallback, final) and every new vote of each of the five kinds, the solver shows that check_slashable_offence + should_ignore_vote report a slashable offence exactly for the conflicting pairs of the property statement (under an applicable name, for the right validator and slot, in either arrival order because the relation is checked for all held/new combinations), refuse exact and equivalent repeats as duplicates, and admit everything else - in particular every combination an honest validator can cast; votes of another validator never matter. A second family shows that an admitted vote is counted once, in exactly its class. Third family (C03's step harnesses, re-run here): an admitted vote is on record afterwards - the record from which later duplicates and conflicts are decided - also when the certificate of its class already exists. Fourth family (c04_gate_*): the same verdicts through the real PoolImpl::add_vote (slot window, slashable check before the duplicate filter, hand-over exactly for admitted votes with the voter's stake).",
    "level_note": "Bounds: 2 validators, 2 competing block hashes, one slot, one new vote against an arbitrary admissible held set (a one-step argument: the held set is exactly what earlier admitted votes can have stored). BLS signing is stubbed to an opaque token (signatures are validated before the pool, C09); std BTreeMap in slot_state.rs replaced by a bounded array map under Kani. The slot-window bounds of PoolImpl::add_vote (async, tokio channel) are outside. Trusts Kani, CBMC, CaDiCaL.",
    # registered harnesses need the slot-state overlay only; the pool-level harnesses (kani_c04_pool.rs, not registered)
    # are built with "overlays": PC.OVERLAYS + [...c04_pool...], "redirects": PC.REDIRECTS (harness/pool_common.py)
    "overlays": PC.OVERLAYS + [{"src": "C04/kani_c04.rs", "dest": "src/consensus/pool/slot_state/kani_c04.rs", "decl_in": SS, "decl": "pub(crate) mod kani_c04;"},
                               {"src": "C04/kani_c04_gate.rs", "dest": "src/consensus/pool/kani_c04_gate.rs", "decl_in": POOL, "decl": "mod kani_c04_gate;"}],
    "redirects": PC.REDIRECTS,
    "coll_cap": 3,
    "functions": ["consensus::pool::slot_state::SlotState::{new,check_slashable_offence,should_ignore_vote,add_vote,count_notar_stake,count_notar_fallback_stake,count_skip_stake,count_finalize_stake}"],
    "bounds": "2 validators (stakes 1 and 9), 2 block hashes, one slot; held votes of both validators symbolic; new vote kind fixed per harness, hash symbolic",
    "explanation": "One-step harnesses on the real SlotState: symbolic admissible held votes, one new vote, verdict compared with a reference relation written from the property statement; decided by Kani -> CBMC -> CaDiCaL.",
    "assumptions": ["held votes of a validator are pairwise non-conflicting and non-equivalent (what the filter itself admits; shown inductively by the same harnesses)", "BLS signing stubbed (opaque token)", "bounded array containers stand in for std BTreeMap, smallvec::SmallVec and pool::sorted_vec::{SortedVecMap,SortedVecSet} inside slot_state.rs under Kani (native replay uses the real ones)"],
    "trusted_base": ["reference relations conflicts()/repeats() in kani_c04.rs", "verif_coll stand-in", "kani_fix fixtures"],
    "outside": ["PoolImpl::add_vote itself (order of the slashable check and the duplicate filter, slot-window bounds): the pool-level harnesses c04_pool_* exist but the final UNSAT query of the async PoolImpl harness are not registered: std HashMap in parent_ready_tracker.rs made the deciding query intractable (SipHash with nondeterministic keys; fixed by a redirect), after which symbolic execution of one PoolImpl::add_vote still exceeds 400 s (certificate / BitVec plumbing reachable from add_valid_cert)", "more than 2 competing blocks"],
    "harnesses": (
        [{"name": f"c04_admit_{k}", "path": MOD, "tiers": Q, "role": f"admission verdict/{k}", "stubs": ["crypto::aggsig::SecretKey::sign"], "covers": 3,
          "functions": ["SlotState::check_slashable_offence", "SlotState::should_ignore_vote"], "bounds": "held votes of 2 validators symbolic, new vote hash symbolic"} for k in KINDS]
        + [{"name": f"c04_gate_{k}", "path": "consensus::pool::kani_c04_gate", "tiers": Q, "role": f"pool admission gate/{k}", "covers": 4 if k in ("notar", "nfallback", "skip") else 3,
            "stubs": ["crypto::aggsig::SecretKey::sign", "consensus::pool::slot_state::SlotState::add_vote"], "timeout": {"quick": 600, "thorough": 1500}, "mem_gb": 12,
            "functions": ["PoolImpl::add_vote (up to the hand-over to SlotState::add_vote)", "PoolImpl::{slot_state,first_unpruned_slot,finalized_slot}", "SlotState::check_slashable_offence", "SlotState::should_ignore_vote", "ValidatedVote::into_vote"],
            "bounds": "fresh pool, 2 validators (stakes 1 and 9), slot 5; held votes of the voter symbolic (admissible sets), new vote hash symbolic; SlotState::add_vote (counting) replaced by a recording stub"} for k in KINDS]
        + [{"name": f"c04_count_{k}", "path": MOD, "tiers": [], "role": f"counted once/{k}", "stubs": ["crypto::aggsig::SecretKey::sign"], "covers": 1,
            "functions": ["SlotState::add_vote", "SlotState::count_*_stake", "SlotState::check_slashable_offence", "SlotState::should_ignore_vote"], "bounds": "fresh slot state, one vote with symbolic hash, stakes 1/9"} for k in KINDS]
        + RECORDED
    ),
}
