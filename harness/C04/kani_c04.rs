//! C04 harnesses (overlay module `crate::consensus::pool::slot_state::kani_c04`).
//!
//! `c04_admit_<kind>`: validator 0 has an arbitrary *admissible* set of already accepted
//! votes (notar A|B, notar-fallback ⊆ {A,B}, skip, skip-fallback, final — no two of them
//! conflicting or equivalent, i.e. what the pool can have accepted); a new vote of the given
//! kind with symbolic hash arrives.  The verdict of the real
//! `check_slashable_offence` + `should_ignore_vote` is compared with a reference written
//! from the property statement (a symmetric conflict relation and an equivalence relation).
//! `c04_count_<kind>`: an admitted vote is counted once: `add_vote` changes exactly the
//! counters of its class by exactly the voter's stake, stores the vote, and the same vote is
//! a duplicate afterwards.
#![allow(dead_code, unused_imports, clippy::all)]

use super::*;
use crate::ValidatorIndex;
use crate::consensus::kani_fix::{block_hash, fixture, Fix};
use crate::verif_std as vs;
use crate::verif_std::{vcheck, vcover};

pub(crate) const SLOT: u64 = 5;

/// ghost view of one validator's accepted votes
#[derive(Clone, Copy)]
pub(crate) struct Held {
    pub(crate) notar: u8, // 0 none, 1 A, 2 B
    pub(crate) nf_a: bool,
    pub(crate) nf_b: bool,
    pub(crate) skip: bool,
    pub(crate) sf: bool,
    pub(crate) fin: bool,
}

/// kinds: 0 notar, 1 notar-fallback, 2 skip, 3 skip-fallback, 4 final; `h` = 1 (A) | 2 (B)
pub(crate) fn conflicts(h: &Held, kind: u8, hash: u8) -> bool {
    match kind {
        0 => h.skip || (h.notar != 0 && h.notar != hash),
        1 => h.fin,
        2 => h.fin || h.notar != 0,
        3 => h.fin,
        _ => h.skip || h.sf || h.nf_a || h.nf_b,
    }
}
/// exact repeat, or the equivalent vote of the sibling kind (notar/notar-fallback for the same
/// block, skip/skip-fallback)
pub(crate) fn repeats(h: &Held, kind: u8, hash: u8) -> bool {
    let nf = |x: u8| if x == 1 { h.nf_a } else { h.nf_b };
    match kind {
        0 => h.notar == hash || nf(hash) || (h.notar != 0 && h.notar == hash),
        1 => nf(hash) || h.notar == hash,
        2 => h.skip || h.sf,
        3 => h.sf || h.skip,
        _ => h.fin,
    }
}
/// which offence names are acceptable for this (held, new) pair
pub(crate) fn offence_ok(h: &Held, kind: u8, hash: u8, o: &SlashableOffence) -> bool {
    match (kind, o) {
        (0, SlashableOffence::SkipAndNotarize(..)) => h.skip,
        (0, SlashableOffence::NotarDifferentHash(..)) => h.notar != 0 && h.notar != hash,
        (1, SlashableOffence::NotarFallbackAndFinalize(..)) => h.fin,
        (2, SlashableOffence::SkipAndFinalize(..)) => h.fin,
        (2, SlashableOffence::SkipAndNotarize(..)) => h.notar != 0,
        (3, SlashableOffence::SkipAndFinalize(..)) => h.fin,
        (4, SlashableOffence::SkipAndFinalize(..)) => h.skip || h.sf,
        (4, SlashableOffence::NotarFallbackAndFinalize(..)) => h.nf_a || h.nf_b,
        _ => false,
    }
}

pub(crate) fn any_held() -> Held {
    let h = Held { notar: vs::any_below(3), nf_a: vs::any_bool(), nf_b: vs::any_bool(), skip: vs::any_bool(), sf: vs::any_bool(), fin: vs::any_bool() };
    // what the pool can have accepted from one validator: pairwise non-conflicting, no equivalents
    vs::assume(!(h.skip && h.notar != 0));
    vs::assume(!(h.fin && (h.skip || h.sf || h.nf_a || h.nf_b)));
    vs::assume(!(h.skip && h.sf));
    vs::assume(!(h.notar == 1 && h.nf_a) && !(h.notar == 2 && h.nf_b));
    h
}

pub(crate) fn mk_vote(fx: &Fix, v: usize, kind: u8, hash: u8) -> Vote {
    let slot = Slot::new(SLOT);
    let id = ValidatorIndex::new(v as u64);
    match kind {
        0 => Vote::new_notar(slot, block_hash(hash), &fx.sks[v], id),
        1 => Vote::new_notar_fallback(slot, block_hash(hash), &fx.sks[v], id),
        2 => Vote::new_skip(slot, &fx.sks[v], id),
        3 => Vote::new_skip_fallback(slot, &fx.sks[v], id),
        _ => Vote::new_final(slot, &fx.sks[v], id),
    }
}

/// Puts the held votes of validator `v` into the slot state the way `add_vote` stores them.
pub(crate) fn install(st: &mut SlotState, fx: &Fix, v: usize, h: &Held) {
    let slot = Slot::new(SLOT);
    let id = ValidatorIndex::new(v as u64);
    if h.notar != 0 {
        st.votes.notar[v] = Some(NotarVote::new(slot, block_hash(h.notar), &fx.sks[v], id));
    }
    if h.nf_a {
        st.votes.notar_fallback[v].insert(block_hash(1), NotarFallbackVote::new(slot, block_hash(1), &fx.sks[v], id));
    }
    if h.nf_b {
        st.votes.notar_fallback[v].insert(block_hash(2), NotarFallbackVote::new(slot, block_hash(2), &fx.sks[v], id));
    }
    if h.skip {
        st.votes.skip[v] = Some(SkipVote::new(slot, &fx.sks[v], id));
    }
    if h.sf {
        st.votes.skip_fallback[v] = Some(SkipFallbackVote::new(slot, &fx.sks[v], id));
    }
    if h.fin {
        st.votes.finalize[v] = Some(FinalVote::new(slot, &fx.sks[v], id));
    }
}

/// Stub for `SlotState::add_vote` in the pool-level gate harnesses (Kani only): the cut "up to,
/// not including, counting".  Records that the vote was handed over for counting and returns
/// no certificates / events (what the real function returns for a vote that crosses no
/// threshold).  Natively the real function runs.
#[cfg(kani)]
pub(crate) mod cut {
    use super::*;
    struct Ghost {
        magic: [u64; 2],
        calls: usize,
        stake: u64,
    }
    static mut G: Ghost = Ghost { magic: [0xC04_6A7E_0000_0001, 0x9E37_79B9_7F4A_7C15], calls: 0, stake: 0 };
    pub(crate) fn calls() -> usize {
        unsafe { G.calls }
    }
    pub(crate) fn stake() -> u64 {
        unsafe { G.stake }
    }
    pub(crate) fn add_vote(_this: &mut SlotState, vote: Vote, voter_stake: Stake) -> SlotStateOutputs {
        unsafe {
            G.calls += 1;
            G.stake = voter_stake.inner();
        }
        std::mem::forget(vote);
        (SmallVec::new(), SmallVec::new(), SmallVec::new())
    }
}

fn admit_body(kind: u8) {
    // validator 0 is the subject, validator 1 is the node itself and votes nothing here
    let fx = fixture(&[1, 9], 1);
    let mut st = SlotState::new(Slot::new(SLOT), fx.epoch.clone());
    let held = any_held();
    let hash = 1 + vs::any_below(2);
    install(&mut st, &fx, 0, &held);
    // votes of the other validator never matter
    let other = any_held();
    install(&mut st, &fx, 1, &other);

    let vote = mk_vote(&fx, 0, kind, hash);
    let off = st.check_slashable_offence(&vote);
    let ign = st.should_ignore_vote(&vote);

    let c = conflicts(&held, kind, hash);
    vcheck!(off.is_some() == c, "conflicting vote not reported as slashable, or a legitimate vote reported");
    if let Some(o) = &off {
        vcheck!(offence_ok(&held, kind, hash, o), "slashable offence reported under the wrong name");
        match o {
            SlashableOffence::NotarDifferentHash(v, s) | SlashableOffence::SkipAndNotarize(v, s) | SlashableOffence::SkipAndFinalize(v, s) | SlashableOffence::NotarFallbackAndFinalize(v, s) => {
                vcheck!(v.as_usize() == 0 && *s == Slot::new(SLOT), "offence names the wrong validator or slot");
            }
        }
    }
    if !c {
        // the pool consults the duplicate filter only when there is no offence
        vcheck!(ign.is_some() == repeats(&held, kind, hash), "repeat not refused as duplicate, or a fresh legitimate vote refused");
    }
    vcover!(c, "a conflict");
    vcover!(!c && ign.is_some(), "a duplicate");
    vcover!(!c && ign.is_none(), "an admitted vote");
    std::mem::forget(st);
    std::mem::forget(vote);
    std::mem::forget(fx);
}

fn stake_sum(st: &SlotState) -> [u64; 8] {
    let g = |m: &SortedVecMap<BlockHash, Stake>, t: u8| m.get(&block_hash(t)).copied().unwrap_or_default().inner();
    [
        g(&st.voted_stakes.notar, 1),
        g(&st.voted_stakes.notar, 2),
        g(&st.voted_stakes.notar_fallback, 1),
        g(&st.voted_stakes.notar_fallback, 2),
        st.voted_stakes.skip.inner(),
        st.voted_stakes.skip_fallback.inner(),
        st.voted_stakes.finalize.inner(),
        st.voted_stakes.notar_or_skip.inner(),
    ]
}

/// An admitted vote is counted exactly once, in exactly its class.
fn count_body(kind: u8) {
    // stakes 1 and 9: validator 0 alone (10 %) reaches no threshold, so no certificate is due
    let fx = fixture(&[1, 9], 1);
    let mut st = SlotState::new(Slot::new(SLOT), fx.epoch.clone());
    // concrete block: with a symbolic hash the per-block counters become symbolic and CBMC
    // executes the certificate constructors (BLS aggregation) although no threshold is reached
    let hash = 1;
    let vote = mk_vote(&fx, 0, kind, hash);
    vcheck!(st.check_slashable_offence(&vote).is_none() && st.should_ignore_vote(&vote).is_none(), "first vote of a validator refused");
    let before = stake_sum(&st);
    let (certs, events, repairs) = st.add_vote(vote, Stake::new(1));
    let after = stake_sum(&st);
    vcheck!(certs.is_empty() && events.is_empty() && repairs.is_empty(), "10% of the stake produced a certificate or an event");
    let idx = match kind {
        0 => (hash - 1) as usize,
        1 => 2 + (hash - 1) as usize,
        2 => 4,
        3 => 5,
        _ => 6,
    };
    let mut i = 0;
    while i < 7 {
        vcheck!(after[i] == before[i] + (i == idx) as u64, "stake counted in the wrong class, twice, or not at all");
        i += 1;
    }
    vcheck!(after[7] == before[7] + (kind == 0 || kind == 2) as u64, "notar-or-skip total wrong");
    // the same vote again: duplicate, never counted twice
    let again = mk_vote(&fx, 0, kind, hash);
    vcheck!(st.check_slashable_offence(&again).is_none(), "exact repeat reported as slashable");
    vcheck!(st.should_ignore_vote(&again).is_some(), "exact repeat not refused as duplicate");
    vcover!(true, "reached");
    std::mem::forget(st);
    std::mem::forget(again);
    std::mem::forget(fx);
    std::mem::forget(certs);
    std::mem::forget(events);
    std::mem::forget(repairs);
}

macro_rules! h {
    ($name:ident, $body:ident, $kind:literal) => {
        #[cfg_attr(kani, kani::proof)]
        #[cfg_attr(kani, kani::stub(crate::crypto::aggsig::SecretKey::sign, crate::consensus::kani_fix::sign_stub))]
        #[cfg_attr(kani, kani::unwind(4))]
        #[cfg_attr(verif_replay, test)]
        fn $name() {
            $body($kind)
        }
    };
}
h!(c04_admit_notar, admit_body, 0);
h!(c04_admit_nfallback, admit_body, 1);
h!(c04_admit_skip, admit_body, 2);
h!(c04_admit_sfallback, admit_body, 3);
h!(c04_admit_final, admit_body, 4);
h!(c04_count_notar, count_body, 0);
h!(c04_count_nfallback, count_body, 1);
h!(c04_count_skip, count_body, 2);
h!(c04_count_sfallback, count_body, 3);
h!(c04_count_final, count_body, 4);
