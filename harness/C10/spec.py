"""C10: no hostile input makes a node panic.  Claimed for the *entry kernels* only: every harness listed here feeds
attacker-chosen input (arbitrary bytes, arbitrary votes / certificates / shreds / proofs / block content) to a real
entry function and is decided with all Rust-level panics checked (index, overflow, unwrap / expect, assert!,
unreachable!) - the harnesses are those of C04 / C08 / C09 / C12 / C13 / C15 / C19 whose inputs are hostile, re-run
under this property from their own overlay sets.  The tasks around the kernels (tokio loops, sockets, locks,
'keeps serving afterwards') are outside the claim."""
import os
HD = os.path.dirname(os.path.dirname(os.path.abspath(__file__)))
DEFAULT_CBMC = ["--unwindset", "memcmp.0:34"]
Q, T = ["quick", "thorough"], ["thorough"]

def _load(prop):
    g = {"__file__": os.path.join(HD, prop, "spec.py")}
    exec(compile(open(g["__file__"]).read(), g["__file__"], "exec"), g)
    return g["SPEC"]

def _take(prop, names, what):
    sp = _load(prop)
    out = []
    for h in sp["harnesses"]:
        if h["name"] not in names:
            continue
        b = h.get("build")
        if not b:
            b = {"overlays": sp["overlays"], "redirects": sp.get("redirects", [])}
            if "coll_cap" in sp:
                b["coll_cap"] = sp["coll_cap"]
        hh = dict(h, build=b, tiers=names[h["name"]], role="no panic on hostile input/" + what + " (" + h.get("role", h["name"]) + ")")
        hh.setdefault("cbmc_args", list(DEFAULT_CBMC) + list(sp.get("cbmc_args_extra", [])))
        hh["from_property"] = prop
        out.append(hh)
    missing = set(names) - {h["name"] for h in out}
    assert not missing, (prop, missing)
    return out

HARNESSES = (
    _take("C19", {"c19_bytes_sliceheader": Q, "c19_bitvec_b24": Q, "c19_bitvec_limit_b280": T, "c19_bytes_isig": T, "c19_bytes_aggsig_b24": Q, "c19_bytes_repair_request_k2": Q,
                  "c19_index_slice": T, "c19_index_shred": T, "c19_bytes_vote_k0_sa": T, "c19_bytes_vote_k4_sraw": T, "c19_bytes_vote_k5_sa": T, "c19_bytes_repair_request_k0": T,
                  "c19_bytes_repair_request_k1": T, "c19_bytes_repair_request_k3": T, "c19_bitvec_b15": T, "c19_bitvec_b32": T},
          "arbitrary bytes from the network through the production decoder")
    + _take("C09", {"c09_vote_notar": Q, "c09_vote_final": T, "c09_thr_notar_l2": Q, "c09_admit_seq": T, "c09_vote_skip": T, "c09_vote_nfallback": T, "c09_vote_sfallback": T,
                    "c09_thr_nfallback_pa_l2_l5": T, "c09_thr_skip_pa_l4_l1": T, "c09_thr_final_l64": T, "c09_cert_notar_l0": T, "c09_cert_notar_l2": T},
            "votes / certificates with any signer index, bitmask length and declared stake through validation")
    + _take("C04", {"c04_gate_notar": Q, "c04_gate_final": T, "c04_gate_skip": T}, "a validated vote of any kind against any held set through PoolImpl::add_vote")
    + _take("C08", {"c08_pool_window_ahead": Q, "c08_pool_window_decided": T}, "a validated certificate for any u64 slot through PoolImpl::add_cert")
    + _take("C12", {"c12_validate_m1_k0": Q, "c12_validate_m2_k1": T, "c12_equiv_same": T, "c12_equiv_last": T}, "attacker-chosen shreds through ValidatedShred::try_new / BlockData::add_shred")
    + _take("C13", {"c13_parent_slot_n1": Q, "c13_undec_n1_p0_u0": Q, "c13_assemble_n2_p2": T, "c13_post_equiv": T}, "block content a Byzantine leader can sign through try_reconstruct_block (the parent-slot class crashed PoolImpl::add_block before fix a0f7634)")
    + _take("C15", {"c15_sound_d_m1_k0": Q, "c15_sound_l_m1_k0": T, "c15_sound_d_m3_k2": T, "c15_sound_l_m3_k2": T}, "repair responses: any leaf, any usize index, any proof through check_proof / check_proof_last")
)

SPEC = {
    "property": "C10",
    "level_text": "PARTIAL claim - panic-freedom of the entry kernels on hostile input, nothing about the tasks around them. Bounded symbolic verification (Kani -> CBMC -> CaDiCaL) of the real decoding / validation / admission functions that network input and leader-signed block content reach first: arbitrary byte strings through the production decoder (slice header, index newtypes, signer bitmask incl. the 2048-validator limit, individual and aggregate signatures, votes, repair requests), votes and certificates with any signer index / bitmask length / declared stake through ValidatedVote / ValidatedCert, a validated vote of any kind against any admissible held set through PoolImpl::add_vote, a validated certificate for any u64 slot through PoolImpl::add_cert, attacker-chosen shreds through ValidatedShred::try_new and BlockData::add_shred, leader-signed block content (parents in any slot, undecodable transaction bytes, late conflicting shreds) through try_reconstruct_block, and Merkle proofs with any index through check_proof(_last). In each harness every Rust-level panic (index out of bounds, arithmetic overflow, unwrap / expect on None / Err, assert!, unreachable!) reachable for ANY input inside the harness bounds is reported as a failure, together with the functional checks of the property the harness comes from. These are the harnesses of C04 / C08 / C09 / C12 / C13 / C15 / C19 whose inputs are attacker-chosen, re-run under this property from their own overlay sets.",
    "level_note": "NOT claimed: that a node 'keeps voting, producing, repairing and finalizing afterwards', the tokio tasks themselves (Alpenglow::handle_* loops, Repair::handle_response / answer_request, BlockProducer, the RwLock-protected blockstore and pool hand-overs, channel back-pressure), client transactions, Reed-Solomon decoding of hostile shreds (ValidatedShreds::try_new / deshred: behind the cut of C12 / C13), hostile input beyond the bounds of each harness (see the originating property's evidence for bounds, stubs and stand-ins). CBMC's pointer-validity checks are off (memory safety of unsafe library code is not part of the claim); Rust panics, overflow checks and unwinding assertions are on. Trusts Kani, CBMC, CaDiCaL, the oracle stubs and container stand-ins of the originating harnesses.",
    "design_ref": "DESIGN.md §4 C10",
    "overlays": [], "redirects": [],
    "functions": ["network::deserialize (wincode SchemaRead impls of SliceHeader, SliceIndex, ShredIndex, AggregateSignature bitmask, IndividualSignature, Vote, RepairRequest)", "ValidatedVote::try_new", "ValidatedCert::try_new / check_threshold / check_sig", "PoolImpl::add_vote (gate)", "PoolImpl::add_cert (window)",
                  "ValidatedShred::try_new", "BlockData::add_shred", "BlockData::try_reconstruct_block", "MerkleTree::check_proof / check_proof_last"],
    "bounds": "as in the originating harnesses (C04, C08, C09, C12, C13, C15, C19): e.g. buffers <= 24..280 bytes, <= 3 validators / 64-bit bitmask words, proofs <= 3 elements, <= 2 slices per block, slots over all of u64",
    "explanation": "Each harness symbolically executes a real entry function on attacker-chosen input; Kani turns every reachable Rust panic into a checked property, so 'no failed check' means no input inside the bounds panics the kernel. Decided by Kani -> CBMC -> CaDiCaL; counterexamples are replayed natively against the real code before a VIOLATION is reported.",
    "assumptions": ["bounds, oracle stubs (SHA-256, BLS, Ed25519 as ideal oracles) and container stand-ins of the originating harnesses", "only the kernels are covered: the async tasks that call them are outside"],
    "trusted_base": ["the originating harnesses' reference functions and stubs", "Kani 0.68 / CBMC 6.11 / CaDiCaL"],
    "outside": ["the tokio tasks (Alpenglow loops, Repair, BlockProducer), locks, channels, sockets", "'keeps serving afterwards' (liveness after hostile input)", "client transactions", "Reed-Solomon decoding of hostile shreds"],
    "harnesses": HARNESSES,
}
