//! Overlay module `crate::consensus::validated_cert::kani_vc`.
#![allow(dead_code, unused_imports, clippy::all)]
use super::*;

/// A certificate that has passed validation: natively through the real `ValidatedCert::try_new`
/// (the fixture builds genuinely signed certificates that meet their threshold), under Kani
/// wrapped directly (validation is C09's subject).
pub(crate) fn trusted(cert: Cert, epoch: &EpochInfo) -> ValidatedCert {
    #[cfg(kani)]
    {
        let _ = epoch;
        ValidatedCert { cert }
    }
    #[cfg(not(kani))]
    {
        ValidatedCert::try_new(cert, epoch).expect("fixture certificates are genuine and meet their threshold")
    }
}
