//! C18 harnesses (overlay module `crate::consensus::pool::kani_c18`, child of `pool`).
//!
//! `PoolImpl::recover_from_standstill` on a pool whose slot 1 holds an arbitrary subset of
//! {fast-final, final, notar} certificates (finality tracker informed accordingly through its
//! real interface) and whose slot 2 holds an arbitrary subset of {notar, skip} certificates and
//! own votes: the trigger never panics — in particular not before anything beyond genesis is
//! finalized — and the bundle handed to Votor proves the finalized slot (fast-final alone, or
//! final + notar), carries every certificate and own vote above it and nothing at or below it.
#![allow(dead_code, unused_imports, clippy::all)]

use super::kani_poolfix::*;
use super::*;
use crate::ValidatorIndex;
use crate::consensus::cert::kani_certstub::{opaque, view};
use crate::consensus::kani_fix::{block_hash, fixture, Fix};
use crate::verif_std as vs;
use crate::verif_std::{vcheck, vcover};

fn body() {
    // validator 0 holds 90 % (natively its single signature makes every certificate valid), the node itself is validator 1
    let fx = fixture(&[9, 1], 1);
    let (mut pool, mut ch) = mk_pool(&fx);
    let vals = fx.epoch.epoch_info().validators();
    let has_ff = vs::any_bool();
    let has_fin = vs::any_bool();
    let has_notar = vs::any_bool();
    let s2_notar = vs::any_bool();
    let s2_skip = vs::any_bool();
    let own_vote2 = vs::any_bool();
    let (s1, s2) = (Slot::new(1), Slot::new(2));
    let h = block_hash(1);

    // slot 1: certificates as the pool stores them + the finality tracker's view
    if has_notar {
        pool.slot_state(s1).add_cert(opaque(0, s1, h.clone(), vals, &fx.sks[0]));
        let _ = pool.finality_tracker.mark_notarized((s1, h.clone()));
    }
    if has_fin {
        pool.slot_state(s1).add_cert(opaque(4, s1, h.clone(), vals, &fx.sks[0]));
        let _ = pool.finality_tracker.mark_finalized(s1);
    }
    if has_ff {
        pool.slot_state(s1).add_cert(opaque(3, s1, h.clone(), vals, &fx.sks[0]));
        let _ = pool.finality_tracker.mark_fast_finalized((s1, h.clone()));
    }
    // slot 2: later certificates and an own vote
    if s2_notar {
        pool.slot_state(s2).add_cert(opaque(0, s2, h.clone(), vals, &fx.sks[0]));
    }
    if s2_skip {
        pool.slot_state(s2).add_cert(opaque(2, s2, h.clone(), vals, &fx.sks[0]));
    }
    if own_vote2 {
        pool.slot_state(s2).votes.skip[1] = Some(crate::consensus::SkipVote::new(s2, &fx.sks[1], ValidatorIndex::new(1)));
    }
    let finalized1 = has_ff || (has_fin && has_notar);
    vcheck!(pool.finalized_slot() == if finalized1 { s1 } else { Slot::genesis() }, "finalized slot differs from what the certificates justify");

    p_standstill(&pool);

    let evs = ch.drain_events();
    vcheck!(evs.len() == 1, "standstill recovery did not emit exactly one event");
    if let PoolEvent::Standstill(slot, certs, votes) = &evs[0] {
        let fs = if finalized1 { 1 } else { 0 };
        vcheck!(slot.inner() == fs + 1, "standstill event names the wrong slot");
        let (mut n_ff1, mut n_fin1, mut n_no1, mut n_no2, mut n_sk2, mut other) = (0, 0, 0, 0, 0, 0);
        for c in certs.iter() {
            let v = view(c);
            match (v.slot.inner(), v.kind) {
                (1, 3) => n_ff1 += 1,
                (1, 4) => n_fin1 += 1,
                (1, 0) => n_no1 += 1,
                (2, 0) => n_no2 += 1,
                (2, 2) => n_sk2 += 1,
                _ => other += 1,
            }
        }
        vcheck!(other == 0, "bundle contains a certificate that was never held");
        if finalized1 {
            // proof of the finalized slot: fast-final alone, or final + notar
            vcheck!((n_ff1 == 1 && n_fin1 == 0 && n_no1 == 0) == has_ff, "bundle does not prove the finalized slot with the fast-finalization certificate");
            if !has_ff {
                vcheck!(n_fin1 == 1 && n_no1 == 1, "bundle does not prove the finalized slot with finalization + notarization certificates");
            }
        } else {
            // nothing finalized beyond genesis: slot 1 is a later slot, everything held for it goes out
            vcheck!(n_ff1 == 0 && n_fin1 == has_fin as usize && n_no1 == has_notar as usize, "certificates of a later slot missing from the bundle");
        }
        vcheck!(n_no2 == s2_notar as usize && n_sk2 == s2_skip as usize, "certificates of a later slot missing from (or duplicated in) the bundle");
        vcheck!(votes.len() == own_vote2 as usize, "own votes of later slots missing from (or extra in) the bundle");
    } else {
        vcheck!(false, "standstill recovery emitted another event");
    }
    vcover!(!finalized1, "recovery before anything beyond genesis is finalized");
    vcover!(has_ff, "finalized by a fast-finalization certificate");
    vcover!(finalized1 && !has_ff, "finalized by finalization + notarization");
    std::mem::forget(pool);
    std::mem::forget(fx);
    std::mem::forget(evs);
}

#[cfg_attr(kani, kani::proof)]
#[cfg_attr(kani, kani::stub(crate::crypto::aggsig::SecretKey::sign, crate::consensus::kani_fix::sign_stub))]
#[cfg_attr(kani, kani::stub(log::max_level, crate::consensus::pool::kani_c18::log_off))]
#[cfg_attr(kani, kani::unwind(6))]
#[cfg_attr(verif_replay, test)]
fn c18_bundle() {
    body()
}

#[cfg(kani)]
pub(crate) fn log_off() -> log::LevelFilter {
    log::LevelFilter::Off
}
