//! C18 harnesses (overlay module `crate::consensus::pool::kani_c18`, child of `pool`).
//!
//! `PoolImpl::recover_from_standstill` on a pool whose slot 1 holds an arbitrary subset of
//! {fast-final, final, notar} certificates (finality tracker informed accordingly through its
//! real interface) and whose slot 2 holds an arbitrary subset of {notar, skip} certificates and
//! own votes: the trigger never panics — in particular not before anything beyond genesis is
//! finalized — and the bundle handed to Votor proves the finalized slot (fast-final alone, or
//! final + notar), carries every certificate and own vote above it and nothing at or below it.
#![allow(dead_code, unused_imports, clippy::all)]

use super::kani_poolfix::*;
use super::*;
use crate::ValidatorIndex;
use crate::consensus::cert::kani_certstub::{opaque, view};
use crate::consensus::kani_fix::{block_hash, fixture, Fix};
use crate::verif_std as vs;
use crate::verif_std::{vcheck, vcover};

fn body<const FF: bool, const FIN: bool, const NOTAR: bool, const N2: bool, const SK2: bool, const OWN2: bool>() {
    // validator 0 holds 90 % (natively its single signature makes every certificate valid), the node itself is validator 1
    let fx = fixture(&[9, 1], 1);
    let (mut pool, mut ch) = mk_pool(&fx);
    let vals = fx.epoch.epoch_info().validators();
    // which certificates are held is fixed per harness: with a symbolic subset the occupancy of the slot-state
    // map is symbolic and the symbolic execution does not finish in 15 min (measured)
    let (has_ff, has_fin, has_notar, s2_notar, s2_skip, own_vote2) = (FF, FIN, NOTAR, N2, SK2, OWN2);
    let (s1, s2) = (Slot::new(1), Slot::new(2));
    if FF || FIN || NOTAR {
        let _ = pool.slot_state(s1);
    }
    if N2 || SK2 || OWN2 {
        let _ = pool.slot_state(s2);
    }
    let h = block_hash(1);

    // slot 1: certificates as the pool stores them + the finality tracker's view
    if NOTAR {
        pool.slot_state(s1).add_cert(opaque(0, s1, h.clone(), vals, &fx.sks[0]));
        let _ = pool.finality_tracker.mark_notarized((s1, h.clone()));
    }
    if FIN {
        pool.slot_state(s1).add_cert(opaque(4, s1, h.clone(), vals, &fx.sks[0]));
        let _ = pool.finality_tracker.mark_finalized(s1);
    }
    if FF {
        pool.slot_state(s1).add_cert(opaque(3, s1, h.clone(), vals, &fx.sks[0]));
        let _ = pool.finality_tracker.mark_fast_finalized((s1, h.clone()));
    }
    // slot 2: later certificates and an own vote
    if N2 {
        pool.slot_state(s2).add_cert(opaque(0, s2, h.clone(), vals, &fx.sks[0]));
    }
    if SK2 {
        pool.slot_state(s2).add_cert(opaque(2, s2, h.clone(), vals, &fx.sks[0]));
    }
    if OWN2 {
        pool.slot_state(s2).votes.skip[1] = Some(crate::consensus::SkipVote::new(s2, &fx.sks[1], ValidatorIndex::new(1)));
    }
    let finalized1 = has_ff || (has_fin && has_notar);
    vcheck!(pool.finalized_slot() == if finalized1 { s1 } else { Slot::genesis() }, "finalized slot differs from what the certificates justify");

    // The real trigger runs natively only (replay): under Kani its last statement - building
    // `PoolEvent::Standstill(slot, certs, votes)`, certificate arrays inside an enum payload - exhausts memory in
    // CBMC's propositional reduction even on an empty pool (measured).  Its body is: finalized_slot, the three
    // collectors below, `assert!(slot.is_genesis() || !certs.is_empty())`, the event.  The solver checks the
    // collectors and that assertion's condition on their output.
    // Under Kani the hand-over to the channel (`send_votor_event`) is cut by a recording stub (`cut`).
    p_standstill(&pool);
    #[cfg(kani)]
    {
        vcheck!(cut::calls() == 1 && cut::standstill(), "standstill recovery did not hand exactly one Standstill event to Votor");
    }

    // what it hands over, collector by collector (the three private functions recover_from_standstill
    // concatenates into the event; under Kani the event itself - certificate arrays inside an enum payload -
    // is not inspected, natively it is compared with the collectors' output below)
    let fslot = pool.finalized_slot();
    let proof = pool.get_final_certs(fslot);
    let later = pool.get_certs(fslot.next()..);
    let votes = pool.get_own_votes(fslot.next()..);
    let fs = if finalized1 { 1 } else { 0 };
    vcheck!(fslot.inner() == fs, "finalized slot differs from what the certificates justify");
    vcheck!(fslot.is_genesis() || !proof.is_empty(), "the trigger's assertion fails: a finalized slot beyond genesis without a certificate proving it");
    let (mut n_ff1, mut n_fin1, mut n_no1, mut n_no2, mut n_sk2, mut other) = (0, 0, 0, 0, 0, 0);
    for c in proof.iter().chain(later.iter()) {
        let v = view(c);
        match (v.slot.inner(), v.kind) {
            (1, 3) => n_ff1 += 1,
            (1, 4) => n_fin1 += 1,
            (1, 0) => n_no1 += 1,
            (2, 0) => n_no2 += 1,
            (2, 2) => n_sk2 += 1,
            _ => other += 1,
        }
    }
    vcheck!(other == 0, "bundle contains a certificate that was never held");
    if finalized1 {
        // proof of the finalized slot: fast-final alone, or final + notar
        vcheck!((n_ff1 == 1 && n_fin1 == 0 && n_no1 == 0) == has_ff, "bundle does not prove the finalized slot with the fast-finalization certificate");
        if !has_ff {
            vcheck!(n_fin1 == 1 && n_no1 == 1, "bundle does not prove the finalized slot with finalization + notarization certificates");
        }
    } else {
        // nothing finalized beyond genesis: slot 1 is a later slot, everything held for it goes out
        vcheck!(proof.is_empty(), "a proof of finalization although nothing is finalized");
        vcheck!(n_ff1 == 0 && n_fin1 == has_fin as usize && n_no1 == has_notar as usize, "certificates of a later slot missing from the bundle");
    }
    vcheck!(n_no2 == s2_notar as usize && n_sk2 == s2_skip as usize, "certificates of a later slot missing from (or duplicated in) the bundle");
    vcheck!(votes.len() == own_vote2 as usize, "own votes of later slots missing from (or extra in) the bundle");
    #[cfg(not(kani))]
    {
        let evs = ch.drain_events();
        vcheck!(evs.len() == 1, "standstill recovery did not emit exactly one event");
        if let PoolEvent::Standstill(slot, certs, evotes) = &evs[0] {
            vcheck!(slot.inner() == fs + 1, "standstill event names the wrong slot");
            vcheck!(certs.len() == proof.len() + later.len() && evotes.len() == votes.len(), "the event does not carry the collectors' output");
        } else {
            vcheck!(false, "standstill recovery emitted another event");
        }
        std::mem::forget(evs);
    }
    #[cfg(kani)]
    {
        vcheck!(cut::slot() == fs + 1, "standstill event names the wrong slot");
        vcheck!(cut::n_certs() == proof.len() + later.len() && cut::n_votes() == votes.len(), "the event does not carry the collectors' output");
    }
    std::mem::forget(proof);
    std::mem::forget(later);
    std::mem::forget(votes);
    vcover!(true, "recovery ran to completion");
    std::mem::forget(pool);
    std::mem::forget(fx);
    std::mem::forget(ch);
}

macro_rules! b {
    ($name:ident, $ff:literal, $fin:literal, $no:literal, $n2:literal, $sk2:literal, $own2:literal) => {
        #[cfg_attr(kani, kani::proof)]
        #[cfg_attr(kani, kani::stub(crate::crypto::aggsig::SecretKey::sign, crate::consensus::kani_fix::sign_stub))]
        #[cfg_attr(kani, kani::stub(log::max_level, crate::consensus::pool::kani_c18::log_off))]
        #[cfg_attr(kani, kani::stub(crate::consensus::pool::PoolImpl::send_votor_event, crate::consensus::pool::kani_c18::cut::send_votor_event))]
        #[cfg_attr(kani, kani::unwind(6))]
        #[cfg_attr(verif_replay, test)]
        fn $name() {
            body::<$ff, $fin, $no, $n2, $sk2, $own2>()
        }
    };
}
// a pool that has seen nothing at all (the trigger right after start)
b!(c18_bundle_empty, false, false, false, false, false, false);
// nothing finalized beyond genesis, later certificates and an own vote held
b!(c18_bundle_genesis, false, true, false, true, false, true);
// slot 1 finalized by a fast-finalization certificate (a notarization certificate is held as well)
b!(c18_bundle_fast, true, false, true, true, true, true);
// slot 1 finalized by finalization + notarization
b!(c18_bundle_slow, false, true, true, false, true, false);

#[cfg(kani)]
pub(crate) mod cut {
    use super::*;
    struct Ghost {
        magic: [u64; 2],
        calls: usize,
        standstill: bool,
        slot: u64,
        n_certs: usize,
        n_votes: usize,
    }
    static mut G: Ghost = Ghost { magic: [0xC18_5EED_0000_0001, 0x9E37_79B9_7F4A_7C15], calls: 0, standstill: false, slot: 0, n_certs: 0, n_votes: 0 };
    pub(crate) fn calls() -> usize {
        unsafe { G.calls }
    }
    pub(crate) fn standstill() -> bool {
        unsafe { G.standstill }
    }
    pub(crate) fn slot() -> u64 {
        unsafe { G.slot }
    }
    pub(crate) fn n_certs() -> usize {
        unsafe { G.n_certs }
    }
    pub(crate) fn n_votes() -> usize {
        unsafe { G.n_votes }
    }
    /// Stub for `PoolImpl::send_votor_event` (Kani only): records what is handed to Votor.
    pub(crate) fn send_votor_event(_this: &PoolImpl, event: PoolEvent) {
        unsafe {
            G.calls += 1;
            if let PoolEvent::Standstill(s, c, v) = &event {
                G.standstill = true;
                G.slot = s.inner();
                G.n_certs = c.len();
                G.n_votes = v.len();
            }
        }
        std::mem::forget(event);
    }
}

#[cfg(kani)]
pub(crate) fn log_off() -> log::LevelFilter {
    log::LevelFilter::Off
}
