import importlib.util, os
_pc = importlib.util.spec_from_file_location("pool_common", os.path.join(os.path.dirname(os.path.dirname(os.path.abspath(__file__))), "pool_common.py")); PC = importlib.util.module_from_spec(_pc); _pc.loader.exec_module(PC)
MOD = "consensus::pool::kani_c18"
SPEC = {
    "property": "C18",
    "level_text": "not registered: the pool-level harness c18_bundle (arbitrary subsets of certificates in slots 1 and 2, finality tracker informed through its real interface, then PoolImpl::recover_from_standstill via the recording channel) compiles, but its symbolic execution did not finish in 10 min (certificate / BitVec plumbing of get_certs)",
    "level_note": "see DESIGN.md §6",
    "overlays": PC.OVERLAYS + [{"src": "C18/kani_c18.rs", "dest": "src/consensus/pool/kani_c18.rs", "decl_in": PC.POOL, "decl": "mod kani_c18;"},
                               {"src": "C04/kani_c04_pool.rs", "dest": "src/consensus/pool/kani_c04_pool.rs", "decl_in": PC.POOL, "decl": "mod kani_c04_pool;"}],
    "redirects": PC.REDIRECTS,
    "coll_cap": 4,
    "functions": ["PoolImpl::recover_from_standstill", "PoolImpl::get_final_certs", "PoolImpl::get_certs", "PoolImpl::get_own_votes", "PoolImpl::finalized_slot", "FinalityTracker::mark_*"],
    "bounds": "", "explanation": "", "assumptions": PC.ASSUMPTIONS, "trusted_base": [], "outside": [],
    "harnesses": [{"name": "c18_bundle", "path": MOD, "tiers": ["quick", "thorough"], "role": "standstill bundle", "stubs": [PC.SIGN_STUB, "log::max_level"], "covers": 3,
                   "timeout": {"quick": 900, "thorough": 1800}, "mem_gb": 14, "cbmc_args": PC.CBMC}],
    "unclaimed": True,
}
