import importlib.util, os
_pc = importlib.util.spec_from_file_location("pool_common", os.path.join(os.path.dirname(os.path.dirname(os.path.abspath(__file__))), "pool_common.py")); PC = importlib.util.module_from_spec(_pc); _pc.loader.exec_module(PC)
MOD = "consensus::pool::kani_c18"
SPEC = {
    "property": "C18",
    "level_text": "PARTIAL claim - the trigger on a pool that has finalized nothing. Bounded symbolic verification (Kani -> CBMC -> CaDiCaL) of the real PoolImpl::recover_from_standstill (with finalized_slot, get_final_certs, get_certs, get_own_votes and the finality tracker behind it) on a freshly constructed pool, i.e. before anything beyond genesis is finalized: the trigger does not panic (every Rust-level panic - the 'no final cert' assertion, unwrap, index, overflow - is a checked property), hands exactly one Standstill event to Votor, naming the slot after genesis, and the event carries exactly what the three collectors return (nothing). This is the state in which the trigger used to panic (fix 3331156): a reversal of that fix is reported by this harness. The bundle contents for pools that hold certificates (harnesses c18_bundle_genesis / _fast / _slow: slot 1 with fast-final / final / notar certificates, slot 2 with later certificates and an own vote) are written but NOT claimed: their symbolic execution exceeds the 20 min cap (1.3-1.8 M steps, cloning certificates into the bundle).",
    "level_note": "Bounds: fresh pool, 2 validators, one call. Under Kani pool.rs is compiled without its async plumbing (bodies verbatim, see pool_common.py), PoolImpl::send_votor_event is a recording stub (the channel is outside), std / smallvec / tokio containers are bounded stand-ins; native replay runs the unmodified async code on the real containers. NOT claimed: bundle contents in non-empty pools, that the bundle passes validation at a receiver (C09 covers validation of certificates and votes as such), that a fresh node catches up from the bundle, Votor's forwarding (C05's c05_standstill_k2 covers 'always forwards').",
    "overlays": PC.OVERLAYS + [{"src": "C18/kani_c18.rs", "dest": "src/consensus/pool/kani_c18.rs", "decl_in": PC.POOL, "decl": "mod kani_c18;"},
                               {"src": "C04/kani_c04_pool.rs", "dest": "src/consensus/pool/kani_c04_pool.rs", "decl_in": PC.POOL, "decl": "mod kani_c04_pool;"}],
    # std Vec in pool.rs (the certificate / vote lists of the standstill bundle) -> typed contiguous stand-in: through the
    # untyped heap block behind a std Vec the variant of each collected Cert is symbolic to CBMC's symbolic execution
    "redirects": [{"file": PC.POOL, "pattern": r"^use std::ops::RangeBounds;$", "replacement": "use std::ops::RangeBounds;\n#[cfg(kani)]\nuse crate::verif_coll::tvec::{Vec, vec};", "count": 1, "required": True},
                  # the per-validator vote tables of slot_state.rs likewise (as in C03)
                  {"file": PC.SS, "pattern": r"^use std::sync::Arc;$", "replacement": "use std::sync::Arc;\n#[cfg(kani)]\nuse crate::verif_coll::tvec::{Vec, vec};", "count": 1, "required": True}] + PC.REDIRECTS,
    "coll_cap": 4,
    "functions": ["PoolImpl::recover_from_standstill", "PoolImpl::get_final_certs", "PoolImpl::get_certs", "PoolImpl::get_own_votes", "PoolImpl::finalized_slot", "FinalityTracker::mark_*"],
    "bounds": "fresh pool (nothing finalized beyond genesis), 2 validators, one call of recover_from_standstill", "explanation": "One symbolic execution of the real trigger on the fresh pool with all Rust panics checked; the event handed to Votor is recorded by a stub of send_votor_event and compared with the output of the real collectors. Decided by Kani -> CBMC -> CaDiCaL.", "assumptions": PC.ASSUMPTIONS, "trusted_base": ["recording stub of PoolImpl::send_votor_event", "pool_common.py de-async rewriting and container stand-ins"], "outside": ["bundle contents in pools that hold certificates (harnesses exist, exceed the caps)", "validation of the bundle at a receiver, catching up from it", "Votor forwarding (C05)"],
    "harnesses": [{"name": n, "path": MOD, "tiers": t, "role": "standstill bundle/" + d, "stubs": [PC.SIGN_STUB, "log::max_level", "consensus::pool::PoolImpl::send_votor_event"], "covers": 1,
                   "timeout": {"quick": 900, "thorough": 1800}, "mem_gb": 14, "cbmc_args": PC.CBMC,
                   "functions": ["PoolImpl::recover_from_standstill", "PoolImpl::{get_final_certs,get_certs,get_own_votes,finalized_slot,slot_state}", "FinalityTracker::{mark_notarized,mark_finalized,mark_fast_finalized,highest_finalized_slot}"],
                   "bounds": "2 validators; certificates held: " + d}
                  for (n, t, d) in [("c18_bundle_empty", ["quick", "thorough"], "none (fresh pool)"),
                                    ("c18_bundle_genesis", [], "slot 1: finalization only (nothing finalized); slot 2: notarization + own skip vote"),
                                    ("c18_bundle_fast", [], "slot 1: fast-finalization + notarization; slot 2: notarization, skip, own skip vote"),
                                    ("c18_bundle_slow", [], "slot 1: finalization + notarization; slot 2: skip")]],
}
