import importlib.util, os
_pc = importlib.util.spec_from_file_location("pool_common", os.path.join(os.path.dirname(os.path.dirname(os.path.abspath(__file__))), "pool_common.py")); PC = importlib.util.module_from_spec(_pc); _pc.loader.exec_module(PC)
MOD = "consensus::pool::kani_c18"
SPEC = {
    "property": "C18",
    "level_text": "not registered: the pool-level harness c18_bundle (arbitrary subsets of certificates in slots 1 and 2, finality tracker informed through its real interface, then PoolImpl::recover_from_standstill via the recording channel) compiles, but its symbolic execution did not finish in 10 min (certificate / BitVec plumbing of get_certs)",
    "level_note": "see DESIGN.md §6",
    "overlays": PC.OVERLAYS + [{"src": "C18/kani_c18.rs", "dest": "src/consensus/pool/kani_c18.rs", "decl_in": PC.POOL, "decl": "mod kani_c18;"},
                               {"src": "C04/kani_c04_pool.rs", "dest": "src/consensus/pool/kani_c04_pool.rs", "decl_in": PC.POOL, "decl": "mod kani_c04_pool;"}],
    # std Vec in pool.rs (the certificate / vote lists of the standstill bundle) -> typed contiguous stand-in: through the
    # untyped heap block behind a std Vec the variant of each collected Cert is symbolic to CBMC's symbolic execution
    "redirects": [{"file": PC.POOL, "pattern": r"^use std::ops::RangeBounds;$", "replacement": "use std::ops::RangeBounds;\n#[cfg(kani)]\nuse crate::verif_coll::tvec::{Vec, vec};", "count": 1, "required": True},
                  # the per-validator vote tables of slot_state.rs likewise (as in C03)
                  {"file": PC.SS, "pattern": r"^use std::sync::Arc;$", "replacement": "use std::sync::Arc;\n#[cfg(kani)]\nuse crate::verif_coll::tvec::{Vec, vec};", "count": 1, "required": True}] + PC.REDIRECTS,
    "coll_cap": 4,
    "functions": ["PoolImpl::recover_from_standstill", "PoolImpl::get_final_certs", "PoolImpl::get_certs", "PoolImpl::get_own_votes", "PoolImpl::finalized_slot", "FinalityTracker::mark_*"],
    "bounds": "", "explanation": "", "assumptions": PC.ASSUMPTIONS, "trusted_base": [], "outside": [],
    "harnesses": [{"name": n, "path": MOD, "tiers": t, "role": "standstill bundle/" + d, "stubs": [PC.SIGN_STUB, "log::max_level"], "covers": 1,
                   "timeout": {"quick": 900, "thorough": 1800}, "mem_gb": 14, "cbmc_args": PC.CBMC,
                   "functions": ["PoolImpl::recover_from_standstill", "PoolImpl::{get_final_certs,get_certs,get_own_votes,finalized_slot,slot_state}", "FinalityTracker::{mark_notarized,mark_finalized,mark_fast_finalized,highest_finalized_slot}"],
                   "bounds": "2 validators; certificates held: " + d}
                  for (n, t, d) in [("c18_bundle_empty", ["quick", "thorough"], "none (fresh pool)"),
                                    ("c18_bundle_genesis", ["quick", "thorough"], "slot 1: finalization only (nothing finalized); slot 2: notarization + own skip vote"),
                                    ("c18_bundle_fast", ["quick", "thorough"], "slot 1: fast-finalization + notarization; slot 2: notarization, skip, own skip vote"),
                                    ("c18_bundle_slow", ["thorough"], "slot 1: finalization + notarization; slot 2: skip")]],
    "unclaimed": True,
}
