//! C20 harnesses on the copy-on-write account state
//! (overlay module `crate::execution::state::kani_c20_state`, child of `state`, so it sees
//! `chunk_at`, `Branch`, `Leaf`, `Node`, `split_leaves` and the private fields of `State`).
//!
//! kernels   `c20_chunk_value`, `c20_chunk_lexorder`, `c20_rank`, `c20_child_ins_n<N>`, `c20_child_rem_n<N>`
//! map       `c20_map_{get,iter}_p<P>`: P pre-inserted clustered keys, one symbolic operation,
//!           compared with the reference (returned value, get / len / is_empty, ordered iteration)
//! fork      `c20_fork_p<P>_{wf,wo}`: clone, one write to the fork / the original, the other side unchanged
//! canonical `c20_canon_order` (two insertion orders => `==`), `c20_canon_undo_p<P>` (insert then
//!           remove) and `c20_canon_redo_p<P>` (remove then re-insert) return to a state `==` the original
#![allow(dead_code, unused_imports, clippy::all)]

use super::*;
use crate::verif_std as vs;
use crate::verif_std::{vcheck, vcover};

// ---------------------------------------------------------------------------------------
// kernels
// ---------------------------------------------------------------------------------------

/// The documented chunk: bits [5d, 5d+5) of the big-endian bit string, zero padded past bit 255.
fn ref_chunk(key: &Address, depth: usize) -> u32 {
    let mut out = 0u32;
    let mut j = 0;
    while j < 5 {
        let b = depth * 5 + j;
        let bit = if b < 256 { ((key[b / 8] >> (7 - (b % 8))) & 1) as u32 } else { 0 };
        out = (out << 1) | bit;
        j += 1;
    }
    out
}

/// Number of chunks of a 256-bit key (the last one holds one key bit and four padding bits).
const DEPTHS: usize = 52;

#[cfg_attr(kani, kani::proof)]
#[cfg_attr(kani, kani::unwind(34))]
#[cfg_attr(verif_replay, test)]
fn c20_chunk_value() {
    let key: Address = vs::any_bytes::<32>();
    let depth = vs::any_below(DEPTHS as u8) as usize;
    let c = chunk_at(&key, depth);
    vcheck!(c < 32, "chunk_at returned a value that is not below the fan-out");
    vcheck!(c == ref_chunk(&key, depth), "chunk_at differs from the documented 5-bit group of the key");
    vcover!(depth == DEPTHS - 1 && c == 16, "last chunk: one key bit, zero padded");
    vcover!(depth == 1 && c == 31, "chunk straddling a byte boundary");
    vcover!(depth == 8 && c == 21, "chunk starting on a byte boundary");
}

/// Trie order is lexicographic key order, and the chunk sequence determines the key:
/// at the first depth where two keys differ in their chunk, the chunk order is the key order;
/// keys that agree in all 52 chunks are equal.
#[cfg_attr(kani, kani::proof)]
#[cfg_attr(kani, kani::unwind(54))]
#[cfg_attr(verif_replay, test)]
fn c20_chunk_lexorder() {
    let a: Address = vs::any_bytes::<32>();
    let b: Address = vs::any_bytes::<32>();
    // first differing chunk (DEPTHS if none)
    let mut first = DEPTHS;
    let mut d = DEPTHS;
    while d > 0 {
        d -= 1;
        if chunk_at(&a, d) != chunk_at(&b, d) {
            first = d;
        }
    }
    // lexicographic order written out bytewise
    let mut ord = 0i8; // -1: a<b, 0: equal, 1: a>b
    let mut i = 32;
    while i > 0 {
        i -= 1;
        if a[i] < b[i] {
            ord = -1;
        } else if a[i] > b[i] {
            ord = 1;
        }
    }
    if first == DEPTHS {
        vcheck!(ord == 0, "two different keys have the same chunk sequence");
    } else {
        let ca = chunk_at(&a, first);
        let cb = chunk_at(&b, first);
        vcheck!((ca < cb) == (ord < 0), "chunk order at the first differing depth is not the lexicographic key order");
        vcheck!(ord != 0, "equal keys with different chunks");
    }
    vcover!(first == DEPTHS - 1, "keys differing only in the last bit");
    vcover!(first == 0 && ord > 0, "keys differing in the first chunk");
    vcover!(first == DEPTHS, "equal keys");
}

fn ref_rank(bitmap: u32, chunk: u32) -> usize {
    let mut n = 0usize;
    let mut c = 0u32;
    while c < 32 {
        if c < chunk && (bitmap >> c) & 1 == 1 {
            n += 1;
        }
        c += 1;
    }
    n
}

fn ref_popcount(bitmap: u32) -> usize {
    ref_rank(bitmap, 32)
}

#[cfg_attr(kani, kani::proof)]
#[cfg_attr(kani, kani::unwind(34))]
#[cfg_attr(verif_replay, test)]
fn c20_rank() {
    let bitmap = vs::any_u32();
    let chunk = vs::any_below(32) as u32;
    let b = Branch { bitmap, children: SmallVec::new() };
    let r = b.child_index(chunk);
    let set = (bitmap >> chunk) & 1 == 1;
    vcheck!(r.is_some() == set, "child_index is Some exactly for occupied chunks");
    if let Some(i) = r {
        vcheck!(i == ref_rank(bitmap, chunk), "child_index is not the rank of the chunk's bit in the bitmap");
        vcheck!(i < ref_popcount(bitmap), "child_index is not below the number of children");
    }
    vcover!(r == Some(31), "full bitmap, last chunk");
    vcover!(r == Some(0) && chunk == 31, "only the last chunk occupied");
    vcover!(r.is_none() && bitmap != 0, "vacant chunk in a non-empty branch");
    std::mem::forget(b);
}

/// A leaf whose key starts with `chunk` (so that its position is observable).
fn tagged_leaf(chunk: u32) -> Arc<Node> {
    let mut key = [0u8; 32];
    key[0] = (chunk as u8) << 3;
    Arc::new(Node::Leaf(Leaf { key, value: Vec::new() }))
}

fn tag_of(n: &Arc<Node>) -> u32 {
    match n.as_ref() {
        Node::Leaf(l) => (l.key[0] >> 3) as u32,
        Node::Branch(_) => 99,
    }
}

/// A branch with N children on symbolic, strictly increasing chunks.
fn any_branch<const N: usize>() -> (Branch, [u32; N]) {
    let mut chunks = [0u32; N];
    let mut i = 0;
    while i < N {
        chunks[i] = vs::any_below(32) as u32;
        if i > 0 {
            vs::assume(chunks[i - 1] < chunks[i]);
        }
        i += 1;
    }
    let mut bitmap = 0u32;
    let mut children: SmallVec<[Arc<Node>; 4]> = SmallVec::new();
    let mut i = 0;
    while i < N {
        bitmap |= 1 << chunks[i];
        children.push(tagged_leaf(chunks[i]));
        i += 1;
    }
    (Branch { bitmap, children }, chunks)
}

/// `children` holds exactly one child per set bit, in increasing chunk order.
fn check_branch_shape(b: &Branch, max: usize) {
    vcheck!(b.children.len() == ref_popcount(b.bitmap), "children.len() differs from popcount(bitmap)");
    let mut i = 0;
    while i < max {
        if i < b.children.len() {
            let t = tag_of(&b.children[i]);
            vcheck!(t < 32 && (b.bitmap >> t) & 1 == 1, "a child sits on a chunk whose bit is clear");
            vcheck!(ref_rank(b.bitmap, t) == i, "children are not in increasing chunk order");
        }
        i += 1;
    }
}

fn child_ins_body<const N: usize>() {
    let (mut b, chunks) = any_branch::<N>();
    let c = vs::any_below(32) as u32;
    vs::assume((b.bitmap >> c) & 1 == 0);
    let before = b.bitmap;
    b.insert_child(c, tagged_leaf(c));
    vcheck!(b.bitmap == before | (1 << c), "insert_child did not set exactly the chunk's bit");
    check_branch_shape(&b, N + 1);
    let idx = b.child_index(c);
    vcheck!(idx.is_some() && tag_of(&b.children[idx.unwrap()]) == c, "the inserted child is not where child_index finds it");
    vcover!(chunks.first().map_or(true, |&x| c < x), "insert before every child");
    vcover!(chunks.last().map_or(true, |&x| c > x), "insert after every child");
    std::mem::forget(b);
}

fn child_rem_body<const N: usize>() {
    let (mut b, chunks) = any_branch::<N>();
    let k = vs::any_below(N as u8) as usize;
    let c = chunks[k];
    let before = b.bitmap;
    let idx = b.child_index(c);
    vcheck!(idx == Some(k), "child_index does not find the k-th child");
    let removed = b.remove_child(k, c);
    vcheck!(tag_of(&removed) == c, "remove_child returned another child");
    vcheck!(b.bitmap == before & !(1 << c), "remove_child did not clear exactly the chunk's bit");
    check_branch_shape(&b, N - 1);
    vcheck!(b.child_index(c).is_none(), "removed chunk still occupied");
    vcover!(k == 0, "remove the first child");
    vcover!(k == N - 1, "remove the last child");
    std::mem::forget(removed);
    std::mem::forget(b);
}

macro_rules! kernel_n {
    ($name:ident, $body:ident, $n:literal) => {
        #[cfg_attr(kani, kani::proof)]
        #[cfg_attr(kani, kani::unwind(34))]
        #[cfg_attr(verif_replay, test)]
        fn $name() {
            $body::<$n>()
        }
    };
}
kernel_n!(c20_child_ins_n0, child_ins_body, 0);
kernel_n!(c20_child_ins_n1, child_ins_body, 1);
kernel_n!(c20_child_ins_n2, child_ins_body, 2);
kernel_n!(c20_child_ins_n3, child_ins_body, 3);
kernel_n!(c20_child_rem_n1, child_rem_body, 1);
kernel_n!(c20_child_rem_n2, child_rem_body, 2);
kernel_n!(c20_child_rem_n3, child_rem_body, 3);
kernel_n!(c20_child_rem_n4, child_rem_body, 4);

// ---------------------------------------------------------------------------------------
// map semantics / fork isolation / canonical structure on the real `State`
// ---------------------------------------------------------------------------------------
//
// Under Kani `state.rs` runs on the typed stand-ins of kani_c20_sv.rs (Arc node pool, bounded
// SmallVec, bounded traversal stack); natively on the real std/smallvec types.
//
// Keys are *clustered*: the 8 keys `[0x28 | k, 0, ...]`, k < 8 symbolic: they share the first
// 5-bit chunk and differ in the second: inserts split a leaf into a two-level subtree, removals
// collapse it again (deeper chains run the same two functions recursively; `c20_chunk_*` cover
// the chunk arithmetic at every depth).  The first chunk is concrete so that the root level of
// the trie is concrete for CBMC (with a symbolic first chunk one operation on a one-entry state
// already exhausts 10 GB: the node kind behind a symbolic child index is unknown to the symbolic
// execution, which then explores insert_rec x split_leaves to the recursion bound).  Values are one symbolic byte.  The unwind bound (5) is
// also the recursion bound; unwinding assertions show it suffices for these keys.
// The reference model is the operation list itself: the value of `k` is that of the last
// operation on `k`.

#[derive(Clone, Copy)]
struct Op {
    insert: bool,
    k: u8,
    v: u8,
}

/// Key selector: 3 symbolic bits (see `key_of`).
fn any_k() -> u8 {
    vs::any_u8() & 7
}

fn any_op() -> Op {
    let insert = vs::any_bool();
    Op { insert, k: any_k(), v: vs::any_u8() }
}

/// First 5-bit chunk shared by all keys of these harnesses.
const CHUNK0: u8 = 5;

/// The 8 keys `[CHUNK0 << 3 | k, 0, 0, ...]`, k < 8: same first chunk (concrete, so the root level
/// of the trie is concrete for CBMC), second chunk `k << 2` symbolic.
fn key_of(k: u8) -> Address {
    let mut a = [0u8; 32];
    a[0] = (CHUNK0 << 3) | (k & 7);
    a
}

/// Reference lookup after the first `upto` operations of `ops` (N <= 3; written without loops:
/// the unwind bound of these harnesses is the recursion bound of the code under test).
fn ref_get<const N: usize>(ops: &[Op; N], upto: usize, k: u8) -> Option<u8> {
    let mut out = None;
    let mut step = |i: usize| {
        if i < N && i < upto && ops[i].k == k {
            out = if ops[i].insert { Some(ops[i].v) } else { None };
        }
    };
    step(0);
    step(1);
    step(2);
    out
}

/// Reference size after the first `upto` operations.
fn ref_len<const N: usize>(ops: &[Op; N], upto: usize) -> usize {
    let live = |i: usize| -> bool { i < N && i < upto && ops[i].insert };
    let later_same = |i: usize, j: usize| -> bool { j < N && j < upto && j > i && ops[j].k == ops[i].k };
    let counted = |i: usize| -> usize { (live(i) && !later_same(i, 1) && !later_same(i, 2)) as usize };
    counted(0) + counted(1) + counted(2)
}

fn apply_op(s: &mut State, op: &Op) -> Option<AccountData> {
    if op.insert { s.insert(key_of(op.k), vec![op.v]) } else { s.remove(&key_of(op.k)) }
}

fn one_byte(v: Option<&[u8]>) -> Option<u8> {
    match v {
        None => None,
        Some(s) => {
            vcheck!(s.len() == 1, "a stored value changed its length");
            Some(s[0])
        }
    }
}

/// `get`, `len`, `is_empty` agree with the reference after `upto` operations.  `probe` is an
/// arbitrary clustered key, `tail` an arbitrary last byte (a key with a non-zero tail is never
/// present although it follows the same path through the trie).
fn check_lookup<const N: usize>(s: &State, ops: &[Op; N], upto: usize, probe: (u8, u8)) {
    let (p, tail) = probe;
    let mut pk = key_of(p);
    pk[31] = tail;
    let got = one_byte(s.get(&pk));
    let want = if tail == 0 { ref_get(ops, upto, p) } else { None };
    vcheck!(got == want, "get differs from the reference map");
    vcheck!(s.len() == ref_len(ops, upto), "len differs from the reference map");
    vcheck!(s.is_empty() == (ref_len(ops, upto) == 0), "is_empty differs from the reference map");
}

/// One step of the iteration check: strictly increasing keys, every item in the reference.
fn iter_step<const N: usize>(it: &mut Iter<'_>, ops: &[Op; N], upto: usize, prev: &mut Option<u8>, count: &mut usize, done: &mut bool) {
    match it.next() {
        Some((k, v)) => {
            vcheck!(!*done, "iteration yields Some after None");
            let k0 = k[0] & 7;
            vcheck!(*k == key_of(k0), "iteration yields a key that was never inserted");
            vcheck!(prev.map_or(true, |p| p < k0), "iteration is not in strictly increasing key order");
            *prev = Some(k0);
            vcheck!(one_byte(Some(v)) == ref_get(ops, upto, k0), "iteration yields an entry that differs from the reference map");
            *count += 1;
        }
        None => *done = true,
    }
}

/// Ordered iteration agrees with the reference: strictly increasing keys (so no duplicates),
/// every item is an entry of the reference, and the count is the reference size; then `None`.
fn check_iteration<const N: usize>(s: &State, ops: &[Op; N], upto: usize) {
    let mut it = s.iter();
    let (mut prev, mut count, mut done) = (None, 0usize, false);
    // N + 1 calls, written out (N <= 3)
    iter_step(&mut it, ops, upto, &mut prev, &mut count, &mut done);
    if N >= 1 {
        iter_step(&mut it, ops, upto, &mut prev, &mut count, &mut done);
    }
    if N >= 2 {
        iter_step(&mut it, ops, upto, &mut prev, &mut count, &mut done);
    }
    if N >= 3 {
        iter_step(&mut it, ops, upto, &mut prev, &mut count, &mut done);
    }
    vcheck!(done, "iteration yields more items than operations were applied");
    vcheck!(count == ref_len(ops, upto), "iteration length differs from the reference map");
    std::mem::forget(it);
}

/// N = P + 1 operations drawn up-front; the first P are inserts (N <= 3, no loops).
fn draw_ops<const P: usize, const N: usize>() -> [Op; N] {
    let mut ops = [Op { insert: true, k: 0, v: 0 }; N];
    if N > 0 {
        ops[0] = any_op();
        vs::assume(P <= 0 || ops[0].insert);
    }
    if N > 1 {
        ops[1] = any_op();
        vs::assume(P <= 1 || ops[1].insert);
    }
    if N > 2 {
        ops[2] = any_op();
        vs::assume(P <= 2 || ops[2].insert);
    }
    ops
}

fn build<const P: usize, const N: usize>(ops: &[Op; N]) -> State {
    let mut s = State::new();
    // (not through `apply_op`: no branch on the operation kind, the node pool stays concrete)
    if P > 0 {
        std::mem::forget(s.insert(key_of(ops[0].k), vec![ops[0].v]));
    }
    if P > 1 {
        std::mem::forget(s.insert(key_of(ops[1].k), vec![ops[1].v]));
    }
    s
}

/// P pre-inserted clustered keys then ONE arbitrary operation.  ITER selects which half of the
/// comparison with the reference runs (lookups / ordered iteration).
fn map_body<const P: usize, const N: usize, const ITER: bool>() {
    // N == P + 1
    let ops = draw_ops::<P, N>();
    let probe = (any_k(), vs::any_u8());
    let mut s = build::<P, N>(&ops);
    let op = ops[P];
    let before = ref_get(&ops, P, op.k);
    let old = apply_op(&mut s, &op);
    vcheck!(one_byte(old.as_deref()) == before, "insert/remove did not return the previously stored value");
    if ITER {
        check_iteration(&s, &ops, N);
    } else {
        check_lookup(&s, &ops, N, probe);
    }
    vcover!(P == 0 || (op.insert && before.is_some()), "overwrite");
    vcover!(op.insert && before.is_none(), "insert of a new key");
    vcover!(!op.insert && before.is_none(), "remove of an absent key");
    vcover!(P == 0 || (!op.insert && before.is_some()), "remove of a present key");
    vcover!(P == 0 || (op.insert && before.is_none() && (op.k ^ ops[0].k) == 1), "new key next to an existing key (split, or insert below the inner branch)");
    vcover!(P < 2 || (!op.insert && before.is_some() && ops[0].k != ops[1].k), "remove one of two entries (collapse of the inner branch)");
    std::mem::forget(old);
    std::mem::forget(s);
}

macro_rules! state_harness {
    ($name:ident, $body:expr) => {
        #[cfg_attr(kani, kani::proof)]
        #[cfg_attr(kani, kani::unwind(3))]
        #[cfg_attr(verif_replay, test)]
        fn $name() {
            $body
        }
    };
}
state_harness!(c20_map_get_p0, map_body::<0, 1, false>());
// NOT INSTANTIATED (does not fit 10 GB, see spec.py `outside`): state_harness!(c20_map_get_p1, map_body::<1, 2, false>());
// NOT INSTANTIATED (does not fit 10 GB, see spec.py `outside`): state_harness!(c20_map_get_p2, map_body::<2, 3, false>());
state_harness!(c20_map_iter_p0, map_body::<0, 1, true>());
// NOT INSTANTIATED (does not fit 10 GB, see spec.py `outside`): state_harness!(c20_map_iter_p1, map_body::<1, 2, true>());
// NOT INSTANTIATED (does not fit 10 GB, see spec.py `outside`): state_harness!(c20_map_iter_p2, map_body::<2, 3, true>());

/// Fork isolation: a state with P entries is cloned, ONE arbitrary operation is applied to one
/// side (WRITE_FORK: to the clone, else to the original); the other side still answers exactly
/// like the state before the split, the written side like the reference after the operation.
fn fork_body<const P: usize, const N: usize, const WRITE_FORK: bool>() {
    let ops = draw_ops::<P, N>();
    let probe = (any_k(), vs::any_u8());
    let mut original = build::<P, N>(&ops);
    let mut fork = original.clone();
    vcheck!(fork == original, "a fresh fork differs from its origin");
    let op = ops[P];
    let old = if WRITE_FORK { apply_op(&mut fork, &op) } else { apply_op(&mut original, &op) };
    let (written, untouched) = if WRITE_FORK { (&fork, &original) } else { (&original, &fork) };
    check_lookup(untouched, &ops, P, probe);
    check_lookup(written, &ops, N, probe);
    // the untouched side, probed at the written key itself
    vcheck!(one_byte(untouched.get(&key_of(op.k))) == ref_get(&ops, P, op.k), "a fork observes a write made to the other fork");
    let changed = ref_get(&ops, P, op.k) != ref_get(&ops, N, op.k);
    vcheck!((*written == *untouched) == !changed, "forks compare equal exactly when their contents are equal");
    vcover!(P == 0 || (op.insert && changed && ref_get(&ops, P, op.k).is_some()), "overwrite on one side");
    vcover!(op.insert && ref_get(&ops, P, op.k).is_none(), "insert on one side");
    vcover!(P == 0 || (!op.insert && changed), "remove on one side");
    vcover!(P == 0 || !changed, "write that does not change the contents");
    vcover!(P < 2 || (changed && ops[0].k != ops[1].k && op.k != ops[0].k && op.k != ops[1].k), "write of a third key below a shared inner branch");
    std::mem::forget(old);
    std::mem::forget(fork);
    std::mem::forget(original);
}
state_harness!(c20_fork_p0_wf, fork_body::<0, 1, true>());
state_harness!(c20_fork_p0_wo, fork_body::<0, 1, false>());
// NOT INSTANTIATED (does not fit 10 GB, see spec.py `outside`): state_harness!(c20_fork_p1_wf, fork_body::<1, 2, true>());
// NOT INSTANTIATED (does not fit 10 GB, see spec.py `outside`): state_harness!(c20_fork_p2_wf, fork_body::<2, 3, true>());
// NOT INSTANTIATED (does not fit 10 GB, see spec.py `outside`): state_harness!(c20_fork_p1_wo, fork_body::<1, 2, false>());
// NOT INSTANTIATED (does not fit 10 GB, see spec.py `outside`): state_harness!(c20_fork_p2_wo, fork_body::<2, 3, false>());

/// Canonical structure, two insertion orders: the same two entries inserted in both orders give
/// states that are `==`; different contents give states that are `!=`.
fn canon_order_body() {
    let a = Op { insert: true, k: any_k(), v: vs::any_u8() };
    let b = Op { insert: true, k: any_k(), v: vs::any_u8() };
    let mut x = State::new();
    std::mem::forget(apply_op(&mut x, &a));
    std::mem::forget(apply_op(&mut x, &b));
    let mut y = State::new();
    std::mem::forget(apply_op(&mut y, &b));
    std::mem::forget(apply_op(&mut y, &a));
    // contents: for different keys both orders hold {a, b}; for the same key the later write wins
    let same_contents = a.k != b.k || a.v == b.v;
    vcheck!((x == y) == same_contents, "states with equal contents are not equal (or unequal contents are)");
    vcover!(a.k < b.k, "two keys, smaller first");
    vcover!(a.k > b.k, "two keys, larger first");
    vcover!(a.k == b.k && a.v != b.v, "same key, different values");
    std::mem::forget(x);
    std::mem::forget(y);
}
// NOT INSTANTIATED (does not fit 10 GB, see spec.py `outside`): state_harness!(c20_canon_order, canon_order_body());

/// Canonical structure, undo: from a state with P entries, inserting a fresh key and removing
/// it again (REINSERT = false), or removing a present key and inserting it back with the same
/// value (REINSERT = true), gives a state `==` an independently built copy of the original.
fn canon_undo_body<const P: usize, const N: usize, const REINSERT: bool>() {
    let ops = draw_ops::<P, N>();
    let baseline = build::<P, N>(&ops);
    let mut s = build::<P, N>(&ops);
    let k = ops[P].k;
    let present = ref_get(&ops, P, k);
    if REINSERT {
        vs::assume(present.is_some());
        let v = s.remove(&key_of(k));
        vcheck!(one_byte(v.as_deref()) == present, "remove did not return the stored value");
        vcheck!(s != baseline, "removing an entry left the state equal to the original");
        std::mem::forget(s.insert(key_of(k), vec![present.unwrap()]));
        std::mem::forget(v);
    } else {
        vs::assume(present.is_none());
        std::mem::forget(s.insert(key_of(k), vec![ops[P].v]));
        vcheck!(s != baseline, "inserting an entry left the state equal to the original");
        let v = s.remove(&key_of(k));
        vcheck!(one_byte(v.as_deref()) == Some(ops[P].v), "remove did not return the inserted value");
        std::mem::forget(v);
    }
    vcheck!(s == baseline, "insert/remove round trip does not return to a state equal to the original");
    vcheck!(s.len() == baseline.len(), "round trip changed len");
    vcover!(P == 0 || k < ops[0].k, "round trip before an existing key");
    vcover!(P == 0 || k >= ops[0].k, "round trip at or after an existing key");
    vcover!(P < 2 || ops[0].k != ops[1].k, "two entries below one inner branch");
    std::mem::forget(s);
    std::mem::forget(baseline);
}
// NOT INSTANTIATED (does not fit 10 GB, see spec.py `outside`): state_harness!(c20_canon_undo_p0, canon_undo_body::<0, 1, false>());
// NOT INSTANTIATED (does not fit 10 GB, see spec.py `outside`): state_harness!(c20_canon_undo_p1, canon_undo_body::<1, 2, false>());
// NOT INSTANTIATED (does not fit 10 GB, see spec.py `outside`): state_harness!(c20_canon_undo_p2, canon_undo_body::<2, 3, false>());
// NOT INSTANTIATED (does not fit 10 GB, see spec.py `outside`): state_harness!(c20_canon_redo_p1, canon_undo_body::<1, 2, true>());
// NOT INSTANTIATED (does not fit 10 GB, see spec.py `outside`): state_harness!(c20_canon_redo_p2, canon_undo_body::<2, 3, true>());
