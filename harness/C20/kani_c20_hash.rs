//! Overlay module `crate::crypto::kani_c20_hash` (child of `crypto`, so it can build a `Hash`
//! from bytes).  Helpers and the two SHA-256 oracle stubs used by the C20 harnesses:
//!
//! * `hash_all_lt`     – call shapes of `LtHash::hash_entry`:
//!                       A `hash_all(&[key(32), value])` and B `hash_all(&[seed(32), counter(8)])`
//! * `hash_all_engine` – call shape of `DummyExecution::execute_transactions`:
//!                       `hash_all(&[state_hash(32), tx bytes])`
//!
//! Both exist only under `cfg(kani)`; natively the real SHA-256 runs.
#![allow(dead_code, unused_imports, clippy::all, static_mut_refs)]

use super::hash::Hash;
use crate::verif_std as vs;

pub(crate) fn mk_hash(b: [u8; 32]) -> Hash {
    Hash(b)
}
pub(crate) fn hash_bytes(h: &Hash) -> [u8; 32] {
    h.0
}
pub(crate) fn w2h(w: [u64; 4]) -> Hash {
    Hash(vs::words_to_bytes(w))
}
pub(crate) fn h2w(h: &Hash) -> [u64; 4] {
    vs::bytes_to_words(&h.0)
}

fn words_of(s: &[u8]) -> [u64; 4] {
    // s.len() == 32 checked by the caller
    let mut b = [0u8; 32];
    let mut i = 0;
    while i < 32 {
        b[i] = s[i];
        i += 1;
    }
    vs::bytes_to_words(&b)
}

/// Number of 16-bit lanes of an `LtHash` *under Kani*: spec.py redirects
/// `commitment::NUM_LANES` (1024) to this value in the scratch copy, under `cfg(kani)` only
/// (one real lane loop over 1024 lanes costs ~3.3 M SAT variables; see spec.py).  Natively the
/// real 1024 lanes run; harnesses draw `VL` lane values and tile them.
pub(crate) const VL: usize = 64;
/// Lanes the oracle tables hold.
pub(crate) const LANES: usize = VL;
/// Maximum number of distinct entries the SHA-256 level oracle (`hash_all_lt`) knows.
pub(crate) const LT_ENTRIES: usize = 1;
/// Longest entry value the LtHash oracle distinguishes.
pub(crate) const LT_MAX_VALUE: usize = 4;

/// Draws the oracle's answer for entry `slot` (both modes, to keep the draw sequence aligned)
/// and, under Kani, registers `(key, value) -> (seed, lanes)`.
///
/// Contract of the oracle: `hash_all(&[key, value])` is the registered 32-byte `seed` of the
/// first registered entry equal to `(key, value)`; seeds of different slots differ (collision
/// freedom of the compression step); `hash_all(&[seed, counter.to_le_bytes()])` is 32 arbitrary
/// bytes depending only on `(seed, counter)` (they are taken from `lanes[16*counter..][..16]`).
/// So `hash_entry` is an arbitrary function of the entry.
pub(crate) fn lt_register(slot: usize, key: &[u8; 32], value: &[u8]) -> [u16; LANES] {
    // (the lane values are only used by the Kani oracle; natively they are discarded)
    let seed = vs::any_words();
    let mut lanes = [0u16; LANES];
    let mut i = 0;
    while i < LANES {
        lanes[i] = vs::any_u16();
        i += 1;
    }
    #[cfg(kani)]
    lt_oracle::register(slot, key, value, seed, &lanes);
    let _ = (slot, key, value, seed);
    lanes
}

#[cfg(kani)]
pub(crate) mod lt_oracle {
    use super::*;

    static mut NE: usize = 0;
    static mut KEY: [[u64; 4]; LT_ENTRIES] = [[0; 4]; LT_ENTRIES];
    static mut VLEN: [usize; LT_ENTRIES] = [0; LT_ENTRIES];
    static mut VAL: [[u8; LT_MAX_VALUE]; LT_ENTRIES] = [[0; LT_MAX_VALUE]; LT_ENTRIES];
    static mut SEED: [[u64; 4]; LT_ENTRIES] = [[0; 4]; LT_ENTRIES];
    static mut LANE: [[u16; LANES]; LT_ENTRIES] = [[0; LANES]; LT_ENTRIES];

    fn pack(value: &[u8]) -> [u8; LT_MAX_VALUE] {
        let n = value.len();
        let mut out = [0u8; LT_MAX_VALUE];
        let mut i = 0;
        while i < LT_MAX_VALUE {
            if i < n {
                out[i] = value[i];
            }
            i += 1;
        }
        out
    }

    pub fn register(slot: usize, key: &[u8; 32], value: &[u8], seed: [u64; 4], lanes: &[u16; LANES]) {
        unsafe {
            assert!(slot == NE && slot < LT_ENTRIES, "VS-UNSUPPORTED: lt oracle slots must be registered in order");
            if value.len() > LT_MAX_VALUE {
                vs::unsupported("lt oracle: value too long");
            }
            let mut j = 0;
            while j < slot {
                vs::assume(!vs::words_eq(&SEED[j], &seed));
                j += 1;
            }
            KEY[slot] = vs::bytes_to_words(key);
            VLEN[slot] = value.len();
            VAL[slot] = pack(value);
            SEED[slot] = seed;
            LANE[slot] = *lanes;
            NE = slot + 1;
        }
    }

    /// Stub for `crate::crypto::hash::hash_all` in the LtHash harnesses.
    pub fn hash_all_lt(data: &[&[u8]]) -> Hash {
        if data.len() != 2 || data[0].len() != 32 {
            vs::unsupported("lt oracle: call shape not modelled");
        }
        let first = words_of(data[0]);
        let n = data[1].len();
        unsafe {
            if n == 8 {
                // shape B: (seed, counter)
                let d = data[1];
                let counter = u64::from_le_bytes([d[0], d[1], d[2], d[3], d[4], d[5], d[6], d[7]]) as usize;
                if counter >= LANES / 16 {
                    vs::unsupported("lt oracle: counter out of range");
                }
                let mut out = [0u8; 32];
                let mut found = false;
                let mut j = 0;
                while j < NE {
                    if !found && vs::words_eq(&SEED[j], &first) {
                        found = true;
                        let mut k = 0;
                        while k < 16 {
                            let b = LANE[j][16 * counter + k].to_le_bytes();
                            out[2 * k] = b[0];
                            out[2 * k + 1] = b[1];
                            k += 1;
                        }
                    }
                    j += 1;
                }
                if !found {
                    vs::unsupported("lt oracle: expansion of a seed that is not an entry seed");
                }
                return Hash(out);
            }
            if n > LT_MAX_VALUE {
                vs::unsupported("lt oracle: value too long");
            }
            // shape A: (key, value)
            let v = pack(data[1]);
            let mut out = [0u64; 4];
            let mut found = false;
            let mut j = 0;
            while j < NE {
                let same = vs::words_eq(&KEY[j], &first) && VLEN[j] == n && VAL[j][0] == v[0] && VAL[j][1] == v[1] && VAL[j][2] == v[2] && VAL[j][3] == v[3];
                if !found && same {
                    found = true;
                    out = SEED[j];
                }
                j += 1;
            }
            if !found {
                vs::unsupported("lt oracle: entry not registered by the harness");
            }
            Hash(vs::words_to_bytes(out))
        }
    }
}

/// Longest transaction the engine oracle distinguishes.
pub(crate) const ENGINE_MAX_TX: usize = 8;

/// Stub for `crate::crypto::hash::hash_all` in the engine harnesses: the collision-free table
/// oracle of `verif_std::hash_oracle`, keyed on `(state hash, transaction bytes)`.
/// The harness must call `vs::draw_hash_tape(n)` first.
#[cfg(kani)]
pub(crate) fn hash_all_engine(data: &[&[u8]]) -> Hash {
    use vs::hash_oracle::{Key, query};
    if data.len() != 2 || data[0].len() != 32 {
        vs::unsupported("engine oracle: call shape not modelled");
    }
    let d = data[1];
    let n = d.len();
    if n > ENGINE_MAX_TX {
        vs::unsupported("engine oracle: transaction too long");
    }
    let s = words_of(data[0]);
    let at = |i: usize| -> u8 { if i < n { d[i] } else { 0 } };
    let t = u64::from_le_bytes([at(0), at(1), at(2), at(3), at(4), at(5), at(6), at(7)]);
    let key = Key { kind: 3, len: n as u32, w: [s[0], s[1], s[2], s[3], t, 0, 0, 0] };
    Hash(vs::words_to_bytes(query(key)))
}
