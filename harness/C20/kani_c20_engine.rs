//! C20 harnesses on the placeholder engine
//! (overlay module `crate::execution::kani_c20_engine`, child of `execution`, so it sees
//! `DummyExecution::blocks` and `BlockExec`).
//!
//! * `c20_engine_seed_*`: `begin_block` seeds the new block from the parent's *computed* state hash
//!   when the parent is known to the engine (under its full id, else under its slot), otherwise
//!   from the parent block hash, and from the genesis hash when there is no parent.
//! * `c20_engine_fold_n<N>`: `execute_transactions` folds `h := H(h ‖ tx)` over the slice, in order,
//!   counts the transactions, touches no other block, and is a function of (seed, transactions):
//!   two blocks with the same seed fed the same transactions (in one or in two slices) agree.
//! * `c20_engine_chain`: parent executed, child begun on it and executed: the child's commitment
//!   is the fold of the child's transactions over the parent's commitment.
//!
//! SHA-256 (`hash_all`) is the collision-free table oracle under Kani.  The engine is built
//! without its event channel under Kani (anything reaching `tokio::sync::mpsc` is a Kani compiler
//! error): `begin_block` / `execute_transactions` never touch it; `end_block`, which only copies
//! `state_hash` into the event, is outside these harnesses and the commitment is read from
//! `blocks` directly.
#![allow(dead_code, unused_imports, clippy::all)]

use std::mem::{ManuallyDrop, MaybeUninit};

use super::*;
use crate::crypto::kani_c20_hash as kh;
use crate::crypto::merkle::BlockHash;
use crate::verif_std as vs;
use crate::verif_std::{vcheck, vcover};

fn new_engine() -> ManuallyDrop<DummyExecution> {
    #[cfg(kani)]
    {
        let mut m = MaybeUninit::<DummyExecution>::uninit();
        unsafe {
            std::ptr::addr_of_mut!((*m.as_mut_ptr()).blocks).write(BTreeMap::new());
            ManuallyDrop::new(m.assume_init())
        }
    }
    #[cfg(not(kani))]
    {
        ManuallyDrop::new(DummyExecution::new(mpsc::channel(4).0))
    }
}

fn any_hash() -> Hash {
    kh::w2h(vs::any_words())
}

fn hash_eq(a: &Hash, b: &Hash) -> bool {
    vs::words_eq(&kh::h2w(a), &kh::h2w(b))
}

/// Longest transaction drawn.
const MAXTX: usize = 3;

#[derive(Clone, Copy)]
struct Tx {
    buf: [u8; MAXTX],
    len: usize,
}
fn any_tx() -> Tx {
    let len = vs::any_below(MAXTX as u8 + 1) as usize;
    Tx { buf: [vs::any_u8(), vs::any_u8(), vs::any_u8()], len }
}
impl Tx {
    fn bytes(&self) -> &[u8] {
        &self.buf[..self.len]
    }
    fn to_transaction(&self) -> Transaction {
        Transaction(self.bytes().to_vec())
    }
}

/// The documented fold, with the (stubbed or real) `hash_all`.
fn ref_fold<const N: usize>(seed: &Hash, txs: &[Tx; N]) -> Hash {
    let mut h = seed.clone();
    let mut i = 0;
    while i < N {
        h = hash_all(&[h.as_ref(), txs[i].bytes()]);
        i += 1;
    }
    h
}

fn state_hash_of(e: &DummyExecution, id: &InProgressBlock) -> Option<(usize, Hash)> {
    e.blocks.get(id).map(|x| (x.tx_count, x.state_hash.clone()))
}

macro_rules! engine_harness {
    ($name:ident, $body:expr) => {
        #[cfg_attr(kani, kani::proof)]
        #[cfg_attr(kani, kani::stub(crate::crypto::hash::hash_all, crate::crypto::kani_c20_hash::hash_all_engine))]
        #[cfg_attr(kani, kani::unwind(34))]
        #[cfg_attr(verif_replay, test)]
        fn $name() {
            $body
        }
    };
}

/// How the engine knows the parent: 0 = not at all, 1 = under its slot only (`Pending`),
/// 2 = under its full id only (`Known`), 3 = both (the full id wins).
fn seed_body<const KNOWS: u8>() {
    let pslot = Slot::new(vs::any_u64());
    let phash: BlockHash = any_hash().into();
    let parent: BlockId = (pslot, phash.clone());
    let s_pending = any_hash();
    let s_known = any_hash();
    let has_parent = vs::any_bool();
    let new_is_known = vs::any_bool();
    let nslot = Slot::new(vs::any_u64());
    let nhash: BlockHash = any_hash().into();
    // an unrelated block under another slot / another hash in the same slot
    let other_slot = Slot::new(vs::any_u64());
    vs::assume(other_slot != pslot);

    let mut e = new_engine();
    if KNOWS & 1 != 0 {
        e.blocks.insert(InProgressBlock::Pending(pslot), BlockExec { tx_count: 5, state_hash: s_pending.clone() });
    } else {
        e.blocks.insert(InProgressBlock::Pending(other_slot), BlockExec { tx_count: 5, state_hash: s_pending.clone() });
    }
    if KNOWS & 2 != 0 {
        e.blocks.insert(InProgressBlock::Known(parent.clone()), BlockExec { tx_count: 6, state_hash: s_known.clone() });
    } else {
        e.blocks.insert(InProgressBlock::Known((other_slot, phash.clone())), BlockExec { tx_count: 6, state_hash: s_known.clone() });
    }

    let id = if new_is_known { InProgressBlock::Known((nslot, nhash)) } else { InProgressBlock::Pending(nslot) };
    vs::assume(nslot != pslot && nslot != other_slot);
    e.begin_block(id.clone(), if has_parent { Some(parent.clone()) } else { None });

    let got = state_hash_of(&e, &id);
    vcheck!(got.is_some(), "begin_block did not register the block");
    let (count, seed) = got.unwrap();
    vcheck!(count == 0, "a new block does not start with zero transactions");
    let want = if !has_parent {
        GENESIS_BLOCK_HASH.as_hash().clone()
    } else if KNOWS & 2 != 0 {
        s_known.clone()
    } else if KNOWS & 1 != 0 {
        s_pending.clone()
    } else {
        phash.as_hash().clone()
    };
    vcheck!(hash_eq(&seed, &want), "begin_block seeded the block from the wrong commitment");
    vcheck!(e.blocks.len() == 3, "begin_block changed the set of other blocks");
    vcover!(has_parent && new_is_known, "known block on a parent");
    vcover!(!has_parent, "no parent: genesis seed");
    vcover!(KNOWS == 0 || (has_parent && !hash_eq(&s_known, &s_pending) && !hash_eq(&seed, phash.as_hash())), "seed differs from the parent block hash");
    vcover!(KNOWS != 0 || (has_parent && !hash_eq(&seed, &s_known) && !hash_eq(&seed, &s_pending)), "unknown parent: seed is none of the engine's commitments");
    vcover!(!has_parent && hash_eq(&seed, &kh::w2h([0; 4])), "genesis hash is all-zero");
}
engine_harness!(c20_engine_seed_unknown, seed_body::<0>());
engine_harness!(c20_engine_seed_pending, seed_body::<1>());
engine_harness!(c20_engine_seed_known, seed_body::<2>());
engine_harness!(c20_engine_seed_both, seed_body::<3>());

/// One block fed N transactions in one slice, a second block with the same seed fed the same
/// transactions split into two slices after CUT transactions; a third block is not touched.
fn fold_body<const N: usize, const CUT: usize>() {
    vs::draw_hash_tape(3 * N);
    let seed = any_hash();
    let other_seed = any_hash();
    let mut txs = [Tx { buf: [0; MAXTX], len: 0 }; N];
    let mut i = 0;
    while i < N {
        txs[i] = any_tx();
        i += 1;
    }
    // the cut point is fixed per harness: with a symbolic cut the slice lengths are symbolic and
    // the engine's loop is unrolled to the unwind bound with an oracle call in every iteration
    let cut = CUT;
    let (sa, sb, sc) = (Slot::new(1), Slot::new(2), Slot::new(3));
    let a = InProgressBlock::Pending(sa);
    let b = InProgressBlock::Pending(sb);
    let c = InProgressBlock::Pending(sc);
    let missing = InProgressBlock::Pending(Slot::new(4));
    let mut e = new_engine();
    e.blocks.insert(a.clone(), BlockExec { tx_count: 0, state_hash: seed.clone() });
    e.blocks.insert(b.clone(), BlockExec { tx_count: 0, state_hash: seed.clone() });
    e.blocks.insert(c.clone(), BlockExec { tx_count: 7, state_hash: other_seed.clone() });

    // block a: one slice
    let mut all: Vec<Transaction> = Vec::with_capacity(N);
    let mut i = 0;
    while i < N {
        all.push(txs[i].to_transaction());
        i += 1;
    }
    e.execute_transactions(a.clone(), all);
    // block b: two slices
    let mut first: Vec<Transaction> = Vec::with_capacity(N);
    let mut second: Vec<Transaction> = Vec::with_capacity(N);
    let mut i = 0;
    while i < N {
        if i < cut {
            first.push(txs[i].to_transaction());
        } else {
            second.push(txs[i].to_transaction());
        }
        i += 1;
    }
    e.execute_transactions(b.clone(), first);
    e.execute_transactions(b.clone(), second);
    // a block the engine does not know: ignored
    let mut stray: Vec<Transaction> = Vec::with_capacity(1);
    stray.push(Transaction(Vec::new()));
    e.execute_transactions(missing.clone(), stray);

    let want = ref_fold(&seed, &txs);
    let (na, ha) = state_hash_of(&e, &a).unwrap();
    let (nb, hb) = state_hash_of(&e, &b).unwrap();
    let (nc, hc) = state_hash_of(&e, &c).unwrap();
    vcheck!(na == N && nb == N, "transaction count differs from the number of executed transactions");
    vcheck!(hash_eq(&ha, &want), "commitment differs from the fold H(h, tx) over the transaction sequence");
    vcheck!(hash_eq(&hb, &ha), "same seed and same transactions in different slices give different commitments");
    vcheck!(nc == 7 && hash_eq(&hc, &other_seed), "executing one block changed another block");
    vcheck!(state_hash_of(&e, &missing).is_none() && e.blocks.len() == 3, "executing an unknown block created it");
    vcover!(N == 0 || txs[0].len == 0, "empty transaction");
    vcover!(N < 2 || (txs[0].len == txs[1].len && txs[0].buf[0] != txs[1].buf[0] && txs[0].len == MAXTX), "two different transactions of full length");
    vcover!(N == 0 || !hash_eq(&ha, &seed), "commitment moved away from the seed");
}
engine_harness!(c20_engine_fold_n0_c0, fold_body::<0, 0>());
engine_harness!(c20_engine_fold_n1_c0, fold_body::<1, 0>());
engine_harness!(c20_engine_fold_n1_c1, fold_body::<1, 1>());
engine_harness!(c20_engine_fold_n2_c0, fold_body::<2, 0>());
engine_harness!(c20_engine_fold_n2_c1, fold_body::<2, 1>());
engine_harness!(c20_engine_fold_n2_c2, fold_body::<2, 2>());
engine_harness!(c20_engine_fold_n3_c1, fold_body::<3, 1>());
engine_harness!(c20_engine_fold_n3_c2, fold_body::<3, 2>());

/// Parent begun on genesis and executed, child begun on the parent (named by slot + arbitrary
/// block hash, as consensus does once the parent's hash is known) and executed.
fn chain_body() {
    vs::draw_hash_tape(4);
    let ptx = [any_tx()];
    let ctx = [any_tx()];
    let phash: BlockHash = any_hash().into();
    let pslot = Slot::new(vs::any_u64());
    let cslot = Slot::new(vs::any_u64());
    vs::assume(pslot != cslot);
    let p = InProgressBlock::Pending(pslot);
    let c = InProgressBlock::Pending(cslot);
    let mut e = new_engine();
    e.begin_block(p.clone(), None);
    let mut v: Vec<Transaction> = Vec::with_capacity(1);
    v.push(ptx[0].to_transaction());
    e.execute_transactions(p.clone(), v);
    e.begin_block(c.clone(), Some((pslot, phash.clone())));
    let mut v: Vec<Transaction> = Vec::with_capacity(1);
    v.push(ctx[0].to_transaction());
    e.execute_transactions(c.clone(), v);

    let genesis = GENESIS_BLOCK_HASH.as_hash().clone();
    let want_p = ref_fold(&genesis, &ptx);
    let want_c = ref_fold(&want_p, &ctx);
    let (np, hp) = state_hash_of(&e, &p).unwrap();
    let (nc, hc) = state_hash_of(&e, &c).unwrap();
    vcheck!(np == 1 && hash_eq(&hp, &want_p), "parent commitment is not the fold over the genesis hash");
    vcheck!(nc == 1 && hash_eq(&hc, &want_c), "child commitment is not the fold over the parent's computed commitment");
    vcover!(!hash_eq(&hc, &hp), "child commitment differs from the parent's");
    vcover!(ptx[0].len == ctx[0].len && ptx[0].buf[0] == ctx[0].buf[0] && ptx[0].len == 1, "same transaction in parent and child");
}
engine_harness!(c20_engine_chain, chain_body());
