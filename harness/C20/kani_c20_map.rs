//! Overlay module `crate::execution::kani_c20_map`: bounded stand-in for `std::collections::BTreeMap`,
//! used by `execution.rs` *under Kani only* (spec.py redirects the `use std::collections::BTreeMap;`
//! line under `cfg(kani)`; the native replay build uses the real std map).
//!
//! Why: std's B-tree lives in untyped heap nodes whose length/height CBMC cannot propagate; one
//! `begin_block` + one `execute_transactions` on a map of three blocks is 3.8 M symex steps and
//! exhausts 8 GB.
//!
//! Semantics: a finite map of at most `CAP` entries; keys are identified by `Ord::cmp == Equal`
//! (the real, derived `Ord` of `InProgressBlock` runs).  Only the operations `execution.rs` uses.
//! No symbolic indexing: every slot access is at a concrete index under a symbolic guard.
#![allow(dead_code, unused_imports, clippy::all)]

#[cfg(kani)]
pub(crate) use imp::BTreeMap;

#[cfg(kani)]
mod imp {
    use std::borrow::Borrow;
    use std::cmp::Ordering;

    /// Maximum number of entries (blocks in flight in the harnesses: at most 4).
    pub(crate) const CAP: usize = 4;

    pub(crate) struct BTreeMap<K, V> {
        slots: [Option<(K, V)>; CAP],
    }

    impl<K: Ord, V> BTreeMap<K, V> {
        pub(crate) fn new() -> Self {
            Self { slots: [const { None }; CAP] }
        }
        pub(crate) fn len(&self) -> usize {
            let mut n = 0;
            let mut i = 0;
            while i < CAP {
                if self.slots[i].is_some() {
                    n += 1;
                }
                i += 1;
            }
            n
        }
        pub(crate) fn get<Q>(&self, key: &Q) -> Option<&V>
        where
            K: Borrow<Q>,
            Q: Ord + ?Sized,
        {
            let mut i = 0;
            while i < CAP {
                if let Some((k, v)) = &self.slots[i] {
                    if k.borrow().cmp(key) == Ordering::Equal {
                        return Some(v);
                    }
                }
                i += 1;
            }
            None
        }
        pub(crate) fn get_mut<Q>(&mut self, key: &Q) -> Option<&mut V>
        where
            K: Borrow<Q>,
            Q: Ord + ?Sized,
        {
            let mut hit = CAP;
            let mut i = 0;
            while i < CAP {
                if let Some((k, _)) = &self.slots[i] {
                    if hit == CAP && k.borrow().cmp(key) == Ordering::Equal {
                        hit = i;
                    }
                }
                i += 1;
            }
            // concrete index under a symbolic guard
            let mut i = 0;
            while i < CAP {
                if hit == i {
                    return self.slots[i].as_mut().map(|(_, v)| v);
                }
                i += 1;
            }
            None
        }
        pub(crate) fn contains_key<Q>(&self, key: &Q) -> bool
        where
            K: Borrow<Q>,
            Q: Ord + ?Sized,
        {
            self.get(key).is_some()
        }
        pub(crate) fn insert(&mut self, key: K, value: V) -> Option<V> {
            // the slot holding an equal key, else the first free slot
            let mut hit = CAP;
            let mut free = CAP;
            let mut i = 0;
            while i < CAP {
                match &self.slots[i] {
                    Some((k, _)) => {
                        if hit == CAP && k.cmp(&key) == Ordering::Equal {
                            hit = i;
                        }
                    }
                    None => {
                        if free == CAP {
                            free = i;
                        }
                    }
                }
                i += 1;
            }
            let at = if hit != CAP { hit } else { free };
            if at == CAP {
                crate::verif_std::unsupported("BTreeMap stand-in: more than CAP entries");
            }
            let mut pending = Some((key, value));
            let mut old = None;
            let mut i = 0;
            while i < CAP {
                if at == i {
                    old = std::mem::replace(&mut self.slots[i], pending.take()).map(|(_, v)| v);
                }
                i += 1;
            }
            std::mem::forget(pending);
            old
        }
        pub(crate) fn retain<F: FnMut(&K, &mut V) -> bool>(&mut self, mut f: F) {
            let mut i = 0;
            while i < CAP {
                let keep = match &mut self.slots[i] {
                    Some((k, v)) => f(k, v),
                    None => true,
                };
                if !keep {
                    self.slots[i] = None;
                }
                i += 1;
            }
        }
    }
}
