//! Overlay module `crate::execution::state::kani_c20_sv`: bounded stand-ins for
//! `smallvec::SmallVec<[T; N]>` and `std::sync::Arc<Node>`, used by `execution/state.rs` *under Kani
//! only* (spec.py redirects the two `use` lines under `cfg(kani)`; the native replay build uses the
//! real crates).
//!
//! Why: with the real `SmallVec` (a union of inline/heap storage) CBMC cannot propagate lengths and
//! explores inline *and* spilled variants of clone/drop recursively through `Arc<Node>`; a single
//! `State::insert` of a concrete key into the empty state exhausts 10 GB during symbolic execution.
//!
//! Semantics: a sequence of at most `CAP` elements stored in order in a fixed array; `insert`,
//! `remove`, `push`, indexing, `len`, `iter`, element-wise `Clone`/`PartialEq`/drop — the
//! operations of `smallvec` that `state.rs` uses, with the documented meaning of `Vec`.  More than `CAP` elements is reported as a harness model limit.
#![allow(dead_code, unused_imports, clippy::all)]

#[cfg(kani)]
pub(crate) use arc::Arc;
#[cfg(kani)]
pub(crate) use imp::SmallVec;
#[cfg(kani)]
pub(crate) use stack::Stack;

/// Stand-in for the `Vec<&Node>` that `state::Iter` uses as its traversal stack (spec.py redirects
/// the field declaration and its initialiser under `cfg(kani)`; `Iter::next` itself is the real
/// code).  Why: growing a heap `Vec` by a symbolic number of elements (`extend` with the children
/// of a symbolic branch) is a `realloc` + `memcpy` of symbolic size; one `iter().next()` after one
/// operation exhausts 10 GB.  Semantics: a LIFO of at most `CAP` elements; `extend` pushes in
/// iteration order, `pop` removes the last element.
#[cfg(kani)]
mod stack {
    /// Capacity 4, all loops written out (the unwind bound of the State harnesses is also their
    /// recursion bound, so the stand-ins must not need a larger one than the real code).
    pub(crate) struct Stack<T: Copy> {
        len: usize,
        b0: Option<T>,
        b1: Option<T>,
        b2: Option<T>,
        b3: Option<T>,
    }
    impl<T: Copy> Stack<T> {
        pub(crate) fn of(first: T) -> Self {
            Self { len: 1, b0: Some(first), b1: None, b2: None, b3: None }
        }
        fn push(&mut self, v: T) {
            match self.len {
                0 => self.b0 = Some(v),
                1 => self.b1 = Some(v),
                2 => self.b2 = Some(v),
                3 => self.b3 = Some(v),
                _ => crate::verif_std::unsupported("Stack stand-in: more than 4 elements"),
            }
            self.len += 1;
        }
        pub(crate) fn pop(&mut self) -> Option<T> {
            let out = match self.len {
                0 => return None,
                1 => self.b0,
                2 => self.b1,
                3 => self.b2,
                _ => self.b3,
            };
            self.len -= 1;
            out
        }
        pub(crate) fn extend<I: IntoIterator<Item = T>>(&mut self, it: I) {
            // at most 4 elements, written out
            let mut it = it.into_iter();
            if let Some(v) = it.next() {
                self.push(v);
            }
            if let Some(v) = it.next() {
                self.push(v);
            }
            if let Some(v) = it.next() {
                self.push(v);
            }
            if let Some(v) = it.next() {
                self.push(v);
            }
            if it.next().is_some() {
                crate::verif_std::unsupported("Stack stand-in: extend by more than 4 elements");
            }
        }
    }
}

/// Stand-in for `std::sync::Arc<Node>` under Kani (spec.py redirects `use std::sync::Arc;`).
///
/// Why: std's `Arc` keeps its value in an untyped heap block; CBMC then cannot propagate any
/// constant (reference counts, enum discriminants, lengths) through a node and explores every
/// variant at every level: one `State::insert` into the empty state is 1.4 M symex steps and
/// exhausts 10 GB.  Here the nodes live in a typed, statically allocated pool.
///
/// Semantics (the contract of `Arc` that `state.rs` relies on): `new` allocates a fresh node with
/// count 1; `clone` shares the node and increments the count; dropping a handle decrements it;
/// `make_mut` mutates in place iff the count is 1, otherwise clones the node (which clones, i.e.
/// shares, its children), releases the old handle and continues on the private copy;
/// `try_unwrap` succeeds iff the count is 1; `==` is pointer equality or value equality.
/// Storage is never reclaimed and a node whose count reaches 0 does not release its children.
#[cfg(kani)]
mod arc {
    #![allow(static_mut_refs)]
    use std::fmt;
    use std::marker::PhantomData;
    use std::ops::Deref;

    use super::super::Node;

    /// Pool size: nodes allocated by one harness (at most 3 operations on clustered keys).
    pub(crate) const POOL: usize = 10;
    // One static object per node.  NOT an array: with pointer checks off, this CBMC returns wrong
    // values when a `u8` field is read through a pointer that may point to several offsets of the
    // *same* object (measured on a 4-element `static mut [Option<Rec>; 4]`: `r.a == x` fails for
    // `r` chosen by a symbolic index, while the same test on four separate statics passes).
    // A choice between different objects at offset 0 is the case CBMC handles by case split.
    static mut N0: Option<Node> = None;
    static mut N1: Option<Node> = None;
    static mut N2: Option<Node> = None;
    static mut N3: Option<Node> = None;
    static mut N4: Option<Node> = None;
    static mut N5: Option<Node> = None;
    static mut N6: Option<Node> = None;
    static mut N7: Option<Node> = None;
    static mut N8: Option<Node> = None;
    static mut N9: Option<Node> = None;
    static mut COUNT: [usize; POOL] = [0; POOL];
    static mut NEXT: usize = 0;

    macro_rules! slot_ptr {
        ($slot:expr) => {
            match $slot {
                0 => std::ptr::addr_of_mut!(N0),
                1 => std::ptr::addr_of_mut!(N1),
                2 => std::ptr::addr_of_mut!(N2),
                3 => std::ptr::addr_of_mut!(N3),
                4 => std::ptr::addr_of_mut!(N4),
                5 => std::ptr::addr_of_mut!(N5),
                6 => std::ptr::addr_of_mut!(N6),
                7 => std::ptr::addr_of_mut!(N7),
                8 => std::ptr::addr_of_mut!(N8),
                9 => std::ptr::addr_of_mut!(N9),
                _ => crate::verif_std::unsupported("Arc stand-in: slot outside the pool"),
            }
        };
    }

    pub(crate) struct Arc<T> {
        slot: usize,
        _p: PhantomData<T>,
    }

    impl Arc<Node> {
        pub(crate) fn new(v: Node) -> Self {
            unsafe {
                let s = NEXT;
                if s >= POOL {
                    crate::verif_std::unsupported("Arc stand-in: node pool exhausted");
                }
                NEXT = s + 1;
                std::ptr::write(slot_ptr!(s), Some(v));
                COUNT[s] = 1;
                Arc { slot: s, _p: PhantomData }
            }
        }
        fn node(&self) -> &Node {
            unsafe {
                match &*slot_ptr!(self.slot) {
                    Some(n) => n,
                    None => crate::verif_std::unsupported("Arc stand-in: dangling handle"),
                }
            }
        }
        pub(crate) fn make_mut(this: &mut Self) -> &mut Node {
            unsafe {
                if COUNT[this.slot] != 1 {
                    let copy = this.node().clone();
                    COUNT[this.slot] -= 1;
                    let fresh = Arc::new(copy);
                    this.slot = fresh.slot;
                    std::mem::forget(fresh);
                }
                match &mut *slot_ptr!(this.slot) {
                    Some(n) => n,
                    None => crate::verif_std::unsupported("Arc stand-in: dangling handle"),
                }
            }
        }
        pub(crate) fn try_unwrap(this: Self) -> Result<Node, Self> {
            unsafe {
                if COUNT[this.slot] == 1 {
                    COUNT[this.slot] = 0;
                    let p = slot_ptr!(this.slot);
                    let out = std::ptr::read(p);
                    std::ptr::write(p, None);
                    std::mem::forget(this);
                    match out {
                        Some(n) => Ok(n),
                        None => crate::verif_std::unsupported("Arc stand-in: dangling handle"),
                    }
                } else {
                    Err(this)
                }
            }
        }
        pub(crate) fn ptr_eq(a: &Self, b: &Self) -> bool {
            a.slot == b.slot
        }
        pub(crate) fn strong_count(this: &Self) -> usize {
            unsafe { COUNT[this.slot] }
        }
    }

    impl Clone for Arc<Node> {
        fn clone(&self) -> Self {
            unsafe {
                COUNT[self.slot] += 1;
            }
            Arc { slot: self.slot, _p: PhantomData }
        }
    }
    // (generic because `Drop` cannot be specialised; only `Arc<Node>` is ever constructed)
    impl<T> Drop for Arc<T> {
        fn drop(&mut self) {
            unsafe {
                if self.slot < POOL {
                    COUNT[self.slot] -= 1;
                }
            }
        }
    }
    impl super::imp::Fill for Arc<Node> {
        /// A handle that refers to no node (unused tail of a child array).
        fn filler() -> Self {
            Arc { slot: POOL, _p: PhantomData }
        }
    }
    impl AsRef<Node> for Arc<Node> {
        fn as_ref(&self) -> &Node {
            self.node()
        }
    }
    impl Deref for Arc<Node> {
        type Target = Node;
        fn deref(&self) -> &Node {
            self.node()
        }
    }
    impl PartialEq for Arc<Node> {
        fn eq(&self, other: &Self) -> bool {
            self.slot == other.slot || *self.node() == *other.node()
        }
    }
    impl Eq for Arc<Node> {}
    impl fmt::Debug for Arc<Node> {
        fn fmt(&self, f: &mut fmt::Formatter<'_>) -> fmt::Result {
            f.write_str("Arc")
        }
    }
}

#[cfg(kani)]
mod imp {
    use std::fmt;
    use std::ops::{Index, IndexMut};

    /// Maximum number of elements (children of one trie node in the harnesses: at most 4).
    pub(crate) const CAP: usize = 4;

    pub(crate) trait Arr {
        type Item: Fill;
    }
    impl<T: Fill, const N: usize> Arr for [T; N] {
        type Item = T;
    }
    /// A value for the unused tail of the fixed array (never observable through the API).
    pub(crate) trait Fill {
        fn filler() -> Self;
    }

    /// No `MaybeUninit`, no pointer casts and no pointer with a symbolic offset: element access
    /// by a symbolic index is a choice between `CAP` places with concrete offsets.  (Measured:
    /// with pointer checks off CBMC returns garbage when reading through
    /// `slice::from_raw_parts(buf as *const T, len)[idx]` for a symbolic `idx`.)
    pub(crate) struct SmallVec<A: Arr> {
        len: usize,
        buf: [A::Item; CAP],
    }

    impl<A: Arr> SmallVec<A> {
        // CAP == 4; every loop is written out (see `stack`)
        pub(crate) fn new() -> Self {
            Self { len: 0, buf: [A::Item::filler(), A::Item::filler(), A::Item::filler(), A::Item::filler()] }
        }
        pub(crate) fn len(&self) -> usize {
            self.len
        }
        pub(crate) fn as_slice(&self) -> &[A::Item] {
            &self.buf[..self.len]
        }
        pub(crate) fn iter(&self) -> std::slice::Iter<'_, A::Item> {
            self.as_slice().iter()
        }
        pub(crate) fn push(&mut self, v: A::Item) {
            let n = self.len;
            self.insert(n, v);
        }
        fn put(&mut self, index: usize, v: A::Item) -> A::Item {
            match index {
                0 => std::mem::replace(&mut self.buf[0], v),
                1 => std::mem::replace(&mut self.buf[1], v),
                2 => std::mem::replace(&mut self.buf[2], v),
                _ => std::mem::replace(&mut self.buf[3], v),
            }
        }
        pub(crate) fn insert(&mut self, index: usize, v: A::Item) {
            let n = self.len;
            assert!(index <= n, "insertion index out of bounds");
            if n >= CAP {
                crate::verif_std::unsupported("SmallVec stand-in: more than CAP elements");
            }
            // shift the tail right by one (position n holds a filler)
            if 3 > index && 3 <= n {
                self.buf.swap(3, 2);
            }
            if 2 > index && 2 <= n {
                self.buf.swap(2, 1);
            }
            if 1 > index && 1 <= n {
                self.buf.swap(1, 0);
            }
            let filler = self.put(index, v);
            std::mem::forget(filler);
            self.len = n + 1;
        }
        pub(crate) fn remove(&mut self, index: usize) -> A::Item {
            let n = self.len;
            assert!(index < n, "removal index out of bounds");
            let out = self.put(index, A::Item::filler());
            // shift the tail left by one (the filler travels to position n - 1)
            if 0 >= index && 1 < n {
                self.buf.swap(0, 1);
            }
            if 1 >= index && 2 < n {
                self.buf.swap(1, 2);
            }
            if 2 >= index && 3 < n {
                self.buf.swap(2, 3);
            }
            self.len = n - 1;
            out
        }
    }

    impl<A: Arr> Default for SmallVec<A> {
        fn default() -> Self {
            Self::new()
        }
    }

    impl<A: Arr> Index<usize> for SmallVec<A> {
        type Output = A::Item;
        fn index(&self, i: usize) -> &A::Item {
            assert!(i < self.len, "index out of bounds");
            match i {
                0 => &self.buf[0],
                1 => &self.buf[1],
                2 => &self.buf[2],
                _ => &self.buf[3],
            }
        }
    }
    impl<A: Arr> IndexMut<usize> for SmallVec<A> {
        fn index_mut(&mut self, i: usize) -> &mut A::Item {
            assert!(i < self.len, "index out of bounds");
            match i {
                0 => &mut self.buf[0],
                1 => &mut self.buf[1],
                2 => &mut self.buf[2],
                _ => &mut self.buf[3],
            }
        }
    }

    impl<A: Arr> Clone for SmallVec<A>
    where
        A::Item: Clone,
    {
        fn clone(&self) -> Self {
            let n = self.len;
            let c = |i: usize| -> A::Item { if i < n { self.buf[i].clone() } else { A::Item::filler() } };
            Self { len: n, buf: [c(0), c(1), c(2), c(3)] }
        }
    }

    impl<A: Arr> PartialEq for SmallVec<A>
    where
        A::Item: PartialEq,
    {
        fn eq(&self, other: &Self) -> bool {
            let n = self.len;
            n == other.len
                && (n < 1 || self.buf[0] == other.buf[0])
                && (n < 2 || self.buf[1] == other.buf[1])
                && (n < 3 || self.buf[2] == other.buf[2])
                && (n < 4 || self.buf[3] == other.buf[3])
        }
    }
    impl<A: Arr> Eq for SmallVec<A> where A::Item: Eq {}

    impl<A: Arr> fmt::Debug for SmallVec<A>
    where
        A::Item: fmt::Debug,
    {
        fn fmt(&self, f: &mut fmt::Formatter<'_>) -> fmt::Result {
            f.write_str("SmallVec")
        }
    }
    // Dropping the stand-in drops its elements (plain field drop): for `Arc<Node>` handles that is
    // a decrement of the node's count; fillers are ignored by `Arc::drop`.
}
