//! C20 harnesses on the lattice-hash commitment
//! (overlay module `crate::execution::commitment::kani_c20_lthash`, child of `commitment`, so it
//! sees `LtHash::lanes` and `LtHash::hash_entry`).
//!
//! The per-entry hash `LtHash::hash_entry` is replaced (Kani only) by `entry_oracle::hash_entry_oracle`,
//! an arbitrary function of the entry; the lane arithmetic (`+=`, `-=`), `add_entry`, `remove_entry`,
//! `observe` and `==` are the real code.  `c20_lt_hash_entry` runs the real `hash_entry` with
//! SHA-256 replaced by `crypto::kani_c20_hash::lt_oracle::hash_all_lt`.
//!
//! LANE BOUND.  One real lane loop over 1024 lanes costs ~0.7 M symex steps / 3.3 M SAT variables
//! (Kani's model of `iter_mut().zip()` pointer arithmetic): a single `+=` takes 80 s, add-then-remove
//! exceeds 8 GB / 7 min.  spec.py therefore redirects `const NUM_LANES` to `kh::VL` (64) in the
//! scratch copy under `cfg(kani)`; the lane loops are uniform in the lane index and written over
//! the whole `[u16; NUM_LANES]` arrays.  Natively (replay) the real 1024 lanes run: harnesses draw
//! `VL` values per lane vector and tile them, so the draw sequence is the same in both modes.
#![allow(dead_code, unused_imports, clippy::all)]

use super::*;
use crate::crypto::kani_c20_hash as kh;
use crate::execution::state::State;
use crate::verif_std as vs;
use crate::verif_std::{vcheck, vcover};

const VL: usize = kh::VL;

/// Longest value drawn by these harnesses.
const MAXV: usize = 2;

#[derive(Clone, Copy)]
struct Entry {
    key: Address,
    vbuf: [u8; MAXV],
    vlen: usize,
}
impl Entry {
    fn value(&self) -> &[u8] {
        &self.vbuf[..self.vlen]
    }
    fn same(&self, o: &Entry) -> bool {
        vs::words_eq(&vs::bytes_to_words(&self.key), &vs::bytes_to_words(&o.key)) && self.vlen == o.vlen && (self.vlen < 1 || self.vbuf[0] == o.vbuf[0]) && (self.vlen < 2 || self.vbuf[1] == o.vbuf[1])
    }
}

fn any_value() -> ([u8; MAXV], usize) {
    let vlen = vs::any_below(MAXV as u8 + 1) as usize;
    let vbuf = [vs::any_u8(), vs::any_u8()];
    (vbuf, vlen)
}

/// An entry with a fully symbolic 32-byte key.
fn any_entry() -> Entry {
    let key = vs::words_to_bytes(vs::any_words());
    let (vbuf, vlen) = any_value();
    Entry { key, vbuf, vlen }
}

/// A clustered key: two symbolic bytes, the rest zero (forces splits down to depth 4).
fn any_clustered_entry() -> Entry {
    let mut key = [0u8; 32];
    key[0] = vs::any_u8();
    key[1] = vs::any_u8();
    let (vbuf, vlen) = any_value();
    Entry { key, vbuf, vlen }
}

/// `VL` arbitrary lane values, tiled over the lanes (under Kani `NUM_LANES == VL`).
fn any_lanes() -> [u16; NUM_LANES] {
    #[cfg(kani)]
    assert!(NUM_LANES == VL, "VS-UNSUPPORTED: NUM_LANES redirect not applied");
    let mut tape = [0u16; VL];
    let mut i = 0;
    while i < VL {
        tape[i] = vs::any_u16();
        i += 1;
    }
    let mut lanes = [0u16; NUM_LANES];
    let mut i = 0;
    while i < NUM_LANES {
        lanes[i] = tape[i % VL];
        i += 1;
    }
    lanes
}

/// Any commitment value.
fn any_lthash() -> LtHash {
    LtHash { lanes: any_lanes() }
}

fn lanes_eq(a: &LtHash, b: &LtHash) -> bool {
    let mut eq = true;
    let mut i = 0;
    while i < NUM_LANES {
        eq = eq && a.lanes[i] == b.lanes[i];
        i += 1;
    }
    eq
}

/// Maximum number of distinct entries one harness may hash.
const ENTRIES: usize = 3;

/// Draws the entry-hash oracle's answer for entry `slot` (both modes, to keep the draw sequence
/// aligned) and, under Kani, registers `(key, value) -> lanes`.
///
/// Contract of the oracle (Kani only): `LtHash::hash_entry(key, value)` is the arbitrary lanes
/// registered for the first registered entry equal to `(key, value)`, i.e. an arbitrary
/// *function* of the entry.  Natively the real SHA-256 based `hash_entry` runs.
fn register_entry(slot: usize, e: &Entry) {
    let lanes = any_lanes();
    #[cfg(kani)]
    entry_oracle::register(slot, e, &lanes);
    let _ = (slot, e, lanes);
}

#[cfg(kani)]
mod entry_oracle {
    #![allow(static_mut_refs)]
    use super::*;

    static mut NE: usize = 0;
    static mut KEY: [[u64; 4]; ENTRIES] = [[0; 4]; ENTRIES];
    static mut VLEN: [usize; ENTRIES] = [0; ENTRIES];
    static mut VAL: [[u8; MAXV]; ENTRIES] = [[0; MAXV]; ENTRIES];
    static mut LANE: [[u16; NUM_LANES]; ENTRIES] = [[0; NUM_LANES]; ENTRIES];

    pub fn register(slot: usize, e: &Entry, lanes: &[u16; NUM_LANES]) {
        unsafe {
            assert!(slot == NE && slot < ENTRIES, "VS-UNSUPPORTED: entry oracle slots must be registered in order");
            KEY[slot] = vs::bytes_to_words(&e.key);
            VLEN[slot] = e.vlen;
            VAL[slot] = [if e.vlen > 0 { e.vbuf[0] } else { 0 }, if e.vlen > 1 { e.vbuf[1] } else { 0 }];
            LANE[slot] = *lanes;
            NE = slot + 1;
        }
    }

    /// Stub for `LtHash::hash_entry`.
    pub fn hash_entry_oracle(key: &Address, value: &[u8]) -> LtHash {
        let n = value.len();
        if n > MAXV {
            vs::unsupported("entry oracle: value too long");
        }
        let k = vs::bytes_to_words(key);
        let v = [if n > 0 { value[0] } else { 0 }, if n > 1 { value[1] } else { 0 }];
        unsafe {
            let mut out = LtHash { lanes: [0; NUM_LANES] };
            let mut found = false;
            let mut j = 0;
            while j < NE {
                let same = vs::words_eq(&KEY[j], &k) && VLEN[j] == n && VAL[j][0] == v[0] && VAL[j][1] == v[1];
                if !found && same {
                    found = true;
                    out.lanes = LANE[j];
                }
                j += 1;
            }
            if !found {
                vs::unsupported("entry oracle: entry not registered by the harness");
            }
            out
        }
    }
}

macro_rules! lt_harness {
    ($name:ident, $body:expr) => {
        #[cfg_attr(kani, kani::proof)]
        #[cfg_attr(kani, kani::stub(crate::execution::commitment::LtHash::hash_entry, crate::execution::commitment::kani_c20_lthash::entry_oracle::hash_entry_oracle))]
        #[cfg_attr(kani, kani::unwind(67))]
        #[cfg_attr(verif_replay, test)]
        fn $name() {
            $body
        }
    };
}

/// `x == base (+|-) h1 (+|-) h2` on every lane (wrapping), written with plain indexing.
fn closed_form(x: &LtHash, base: &LtHash, t1: Option<(bool, &LtHash)>, t2: Option<(bool, &LtHash)>) -> bool {
    let mut ok = true;
    let mut i = 0;
    while i < NUM_LANES {
        let mut v = base.lanes[i];
        if let Some((add, h)) = t1 {
            v = if add { v.wrapping_add(h.lanes[i]) } else { v.wrapping_sub(h.lanes[i]) };
        }
        if let Some((add, h)) = t2 {
            v = if add { v.wrapping_add(h.lanes[i]) } else { v.wrapping_sub(h.lanes[i]) };
        }
        ok = ok && x.lanes[i] == v;
        i += 1;
    }
    ok
}

/// add then remove of the same entry returns to the commitment before (any commitment, and the
/// identity); after the add every lane is the wrapping sum; the identity is all-zero.
fn add_remove_body() {
    let e = any_entry();
    register_entry(0, &e);
    let base = any_lthash();
    let he = LtHash::hash_entry(&e.key, e.value());

    let mut h = base.clone();
    h.add_entry(&e.key, e.value());
    vcheck!(closed_form(&h, &base, Some((true, &he)), None), "add_entry is not the lane-wise wrapping sum with the entry hash");
    vcover!(base.lanes[VL - 1] as u32 + he.lanes[VL - 1] as u32 > 0xffff, "last lane wraps around");
    vcover!(he.lanes[0] != 0 && he.lanes[17] != he.lanes[0], "entry hash with different lanes");
    h.remove_entry(&e.key, e.value());
    vcheck!(h == base, "add_entry then remove_entry does not return to the previous commitment");

    let id = LtHash::identity();
    let mut zero = true;
    let mut i = 0;
    while i < NUM_LANES {
        zero = zero && id.lanes[i] == 0;
        i += 1;
    }
    vcheck!(zero && LtHash::default() == id, "identity is not the all-zero commitment");
    let mut z = LtHash::identity();
    z.add_entry(&e.key, e.value());
    vcheck!(lanes_eq(&z, &he), "commitment of a single entry is not its entry hash");
    z.remove_entry(&e.key, e.value());
    vcheck!(z == LtHash::identity(), "add then remove from the identity does not return to the identity");
    vcover!(e.vlen == 0, "empty value");
    vcover!(e.vlen == MAXV, "two-byte value");
}
lt_harness!(c20_lt_add_remove, add_remove_body());

fn apply(h: &mut LtHash, add: bool, e: &Entry) {
    if add {
        h.add_entry(&e.key, e.value());
    } else {
        h.remove_entry(&e.key, e.value());
    }
}

/// Two updates (each an add or a remove of an arbitrary entry; kinds fixed per harness: with
/// symbolic kinds the final UNSAT proof takes 230 s) commute, both orders executed by the real
/// code, and give `base ± h(e1) ± h(e2)`.
fn commute_body<const ADD1: bool, const ADD2: bool>() {
    let e1 = any_entry();
    let e2 = any_entry();
    register_entry(0, &e1);
    register_entry(1, &e2);
    let (add1, add2) = (ADD1, ADD2);
    let base = any_lthash();
    let h1 = LtHash::hash_entry(&e1.key, e1.value());
    let h2 = LtHash::hash_entry(&e2.key, e2.value());
    let mut x = base.clone();
    apply(&mut x, add1, &e1);
    apply(&mut x, add2, &e2);
    let mut y = base.clone();
    apply(&mut y, add2, &e2);
    apply(&mut y, add1, &e1);
    vcheck!(lanes_eq(&x, &y), "two commitment updates do not commute");
    vcheck!(closed_form(&x, &base, Some((add1, &h1)), Some((add2, &h2))), "two updates do not give base +- h(e1) +- h(e2)");
    if e1.same(&e2) && add1 != add2 {
        vcheck!(lanes_eq(&x, &base), "add and remove of the same entry do not cancel");
    }
    vcover!(!e1.same(&e2) && !lanes_eq(&x, &base), "different entries, commitment changed");
    vcover!(e1.same(&e2), "the same entry twice");
    vcover!(e1.key[0] == e2.key[0] && e1.key[31] != e2.key[31], "keys differing in the last byte only");
}
lt_harness!(c20_lt_commute_aa, commute_body::<true, true>());
lt_harness!(c20_lt_commute_ar, commute_body::<true, false>());
lt_harness!(c20_lt_commute_rr, commute_body::<false, false>());

/// Three adds from the identity in two different orders give the same commitment
/// (recomputation from contents is independent of the iteration order).
fn order3_body() {
    let e = [any_entry(), any_entry(), any_entry()];
    register_entry(0, &e[0]);
    register_entry(1, &e[1]);
    register_entry(2, &e[2]);
    // a symbolic permutation of (0, 1, 2)
    let p0 = vs::any_below(3) as usize;
    let p1 = vs::any_below(3) as usize;
    vs::assume(p0 != p1);
    let p2 = 3 - p0 - p1;
    let mut x = LtHash::identity();
    x.add_entry(&e[0].key, e[0].value());
    x.add_entry(&e[1].key, e[1].value());
    x.add_entry(&e[2].key, e[2].value());
    // selected by value: with pointer checks off, CBMC mis-reads through a pointer whose target
    // inside `e` is symbolic (measured: spurious "entry not registered")
    let pick = |p: usize| -> Entry { if p == 0 { e[0] } else if p == 1 { e[1] } else { e[2] } };
    let (s0, s1, s2) = (pick(p0), pick(p1), pick(p2));
    let mut y = LtHash::identity();
    y.add_entry(&s0.key, s0.value());
    y.add_entry(&s1.key, s1.value());
    y.add_entry(&s2.key, s2.value());
    vcheck!(x == y, "commitment recomputed in another order differs");
    vcover!(p0 == 2 && p1 == 1, "reverse order");
    vcover!(p0 == 1 && p1 == 2, "rotation");
    vcover!(!lanes_eq(&x, &LtHash::identity()), "non-trivial commitment");
}
lt_harness!(c20_lt_order3, order3_body());

/// `observe(key, old, new)` is the real `remove_entry(old)` then `add_entry(new)`, i.e.
/// `- h(key, old) + h(key, new)`; nothing for (None, None); rewriting the same value changes nothing.
fn observe_body() {
    let key = vs::words_to_bytes(vs::any_words());
    let has_old = vs::any_bool();
    let has_new = vs::any_bool();
    let (obuf, olen) = any_value();
    let (nbuf, nlen) = any_value();
    let old_e = Entry { key, vbuf: obuf, vlen: olen };
    let new_e = Entry { key, vbuf: nbuf, vlen: nlen };
    register_entry(0, &old_e);
    register_entry(1, &new_e);
    let base = any_lthash();
    let ho = LtHash::hash_entry(&key, old_e.value());
    let hn = LtHash::hash_entry(&key, new_e.value());

    let old = if has_old { Some(old_e.value()) } else { None };
    let new = if has_new { Some(new_e.value()) } else { None };
    let mut via = base.clone();
    via.observe(&key, old, new);

    let mut manual = base.clone();
    if has_old {
        manual.remove_entry(&key, old_e.value());
    }
    if has_new {
        manual.add_entry(&key, new_e.value());
    }
    vcheck!(via == manual, "observe differs from remove_entry(old) then add_entry(new)");
    let t1 = if has_old { Some((false, &ho)) } else { None };
    let t2 = if has_new { Some((true, &hn)) } else { None };
    vcheck!(closed_form(&via, &base, t1, t2), "observe differs from - h(old) + h(new)");
    if !has_old && !has_new {
        vcheck!(via == base, "observe(None, None) changed the commitment");
    }
    if has_old && has_new && old_e.same(&new_e) {
        vcheck!(lanes_eq(&via, &base), "rewriting the same value changed the commitment");
    }
    vcover!(has_old && has_new && !old_e.same(&new_e) && !lanes_eq(&via, &base), "update to a different value");
    vcover!(has_old && has_new && old_e.same(&new_e), "update to the same value");
    vcover!(has_old && !has_new, "deletion");
    vcover!(!has_old && has_new && nlen == 0, "insertion of an empty value into a vacant key");
    vcover!(!has_old && !has_new, "no-op");
}
lt_harness!(c20_lt_observe, observe_body());

/// `hash_entry` is the documented counter-mode expansion: block `c` of 16 lanes is
/// `H(H(key ‖ value) ‖ c as 8 little-endian bytes)` read as 16 little-endian u16; deterministic.
fn hash_entry_body() {
    #[cfg(kani)]
    assert!(NUM_LANES == kh::LANES && LANES_PER_BLOCK == 16, "VS-UNSUPPORTED: oracle lane layout differs from the code's");
    let e = any_entry();
    let _tape = kh::lt_register(0, &e.key, e.value());
    let he = LtHash::hash_entry(&e.key, e.value());
    let again = LtHash::hash_entry(&e.key, e.value());
    vcheck!(he == again, "hash_entry is not deterministic");
    let seed = hash_all(&[e.key.as_slice(), e.value()]);
    let mut ok = true;
    let mut c = 0usize;
    while c < NUM_LANES / 16 {
        let block = kh::hash_bytes(&hash_all(&[seed.as_ref(), &(c as u64).to_le_bytes()]));
        let mut j = 0;
        while j < 16 {
            ok = ok && he.lanes[16 * c + j] == u16::from_le_bytes([block[2 * j], block[2 * j + 1]]);
            j += 1;
        }
        c += 1;
    }
    vcheck!(ok, "hash_entry differs from the documented counter-mode expansion");
    vcover!(he.lanes[VL - 1] == 0xbeef && he.lanes[0] == 1 && he.lanes[16] == 2, "arbitrary lanes");
}
#[cfg_attr(kani, kani::proof)]
#[cfg_attr(kani, kani::stub(crate::crypto::hash::hash_all, crate::crypto::kani_c20_hash::lt_oracle::hash_all_lt))]
#[cfg_attr(kani, kani::unwind(67))]
#[cfg_attr(verif_replay, test)]
fn c20_lt_hash_entry() {
    hash_entry_body()
}

/// incremental == recomputed for S <= 3 writes, the map being the write list itself:
/// step i is `insert key_i value_i` or `remove key_i` (keys arbitrary, possibly equal); the
/// commitment is maintained with `observe(key_i, old, new)` where `old` is what a map returns
/// (the value of the last earlier write to that key); afterwards it equals the commitment
/// recomputed by `add_entry` from the identity over the final contents (every insert that is the
/// last write to its key), in reverse order of insertion.
fn incremental_ref_body<const S: usize>() {
    let e: [Entry; 3] = [any_entry(), any_entry(), any_entry()];
    let ins = [vs::any_bool(), vs::any_bool(), vs::any_bool()];
    register_entry(0, &e[0]);
    register_entry(1, &e[1]);
    register_entry(2, &e[2]);
    let same_key = |i: usize, j: usize| -> bool { vs::words_eq(&vs::bytes_to_words(&e[i].key), &vs::bytes_to_words(&e[j].key)) };
    // index of the entry stored under key_i before step i (by value: the last earlier insert to
    // that key unless a later remove of it intervened)
    let stored_before = |i: usize| -> Option<usize> {
        let mut out = None;
        let mut j = 0;
        while j < 3 {
            if j < i && same_key(i, j) {
                out = if ins[j] { Some(j) } else { None };
            }
            j += 1;
        }
        out
    };
    let mut c = LtHash::identity();
    let mut i = 0;
    while i < S {
        let old = stored_before(i);
        // selected by value (see `order3_body`)
        let old_e: Entry = match old {
            Some(0) => e[0],
            Some(1) => e[1],
            _ => e[2],
        };
        let old_v = if old.is_some() { Some(old_e.value()) } else { None };
        let cur = e[i];
        let new_v = if ins[i] { Some(cur.value()) } else { None };
        c.observe(&cur.key, old_v, new_v);
        i += 1;
    }
    // final contents: inserts that are the last write to their key
    let mut recomputed = LtHash::identity();
    let mut n = 0;
    let mut i = S;
    while i > 0 {
        i -= 1;
        let mut last = ins[i];
        let mut j = 0;
        while j < 3 {
            if j > i && j < S && same_key(i, j) {
                last = false;
            }
            j += 1;
        }
        if last {
            let cur = e[i];
            recomputed.add_entry(&cur.key, cur.value());
            n += 1;
        }
    }
    vcheck!(c == recomputed, "incremental commitment differs from the commitment recomputed from the contents");
    vcover!(n == S, "every write inserted a new key");
    vcover!(S < 2 || (n == 1 && ins[S - 1] && same_key(0, S - 1) && !e[0].same(&e[S - 1])), "an entry overwritten by a different value");
    vcover!(S < 2 || (n == 0 && ins[0] && !ins[S - 1]), "everything removed again");
    vcover!(!ins[0] && n + 1 == S, "removal of an absent key first");
}
lt_harness!(c20_lt_incremental_ref_s1, incremental_ref_body::<1>());
lt_harness!(c20_lt_incremental_ref_s2, incremental_ref_body::<2>());
lt_harness!(c20_lt_incremental_ref_s3, incremental_ref_body::<3>());

/// incremental == recomputed on the real `State`: a state built by P inserts of clustered keys
/// with the commitment maintained by `observe` from the values `State` returns, then one
/// arbitrary write (insert k v | remove k) folded in the same way; afterwards the commitment
/// equals the one recomputed by `add_entry` from the identity over the real iteration of the state.
fn incremental_body<const P: usize>() {
    let e: [Entry; 3] = [any_clustered_entry(), any_clustered_entry(), any_clustered_entry()];
    let mut i = 0;
    while i <= P {
        register_entry(i, &e[i]);
        i += 1;
    }
    let is_insert = vs::any_bool();

    let mut state = State::new();
    let mut c = LtHash::identity();
    let mut i = 0;
    while i < P {
        let old = state.insert(e[i].key, e[i].value().to_vec());
        c.observe(&e[i].key, old.as_deref(), Some(e[i].value()));
        std::mem::forget(old);
        i += 1;
    }
    let w = &e[P];
    let old = if is_insert { state.insert(w.key, w.value().to_vec()) } else { state.remove(&w.key) };
    let new = if is_insert { Some(w.value()) } else { None };
    c.observe(&w.key, old.as_deref(), new);

    let mut recomputed = LtHash::identity();
    let mut n = 0;
    for (k, v) in &state {
        recomputed.add_entry(k, v);
        n += 1;
    }
    vcheck!(n == state.len(), "iteration length differs from len");
    vcheck!(c == recomputed, "incremental commitment differs from the commitment recomputed from the contents");
    vcover!(P == 0 || (is_insert && old.is_some()), "overwrite of an existing entry");
    vcover!(is_insert && old.is_none() && n == P + 1, "insertion of a new key");
    vcover!(P == 0 || (!is_insert && old.is_some() && n + 1 == P), "removal of an existing entry");
    vcover!(!is_insert && old.is_none(), "removal of an absent key");
    std::mem::forget(state);
    std::mem::forget(old);
}
// NOT INSTANTIATED (time cap: the lane loops need unwind 67, which is also the bound to which the
// state traversal is then unrolled): lt_harness!(c20_lt_incremental_p0, incremental_body::<0>());
// NOT INSTANTIATED (the real `State` with one pre-inserted entry does not fit 10 GB, see spec.py):
// lt_harness!(c20_lt_incremental_p1, incremental_body::<1>());
// lt_harness!(c20_lt_incremental_p2, incremental_body::<2>());
